//! Controllable `ObjectStore` wrappers used by the crash / fault / schedule
//! explorers. They only use the public `object_store` API, so the code under
//! test cannot tell them from a real backend.
//!
//! * [`CtlStore`]: counts and logs mutations; loses power after the k-th
//!   mutation (T2); lets the k-th mutation land and then reports an error
//!   (T3); fails the k-th mutation without landing.
//! * [`ParkStore`]: parks every backend call before and after it lands and
//!   releases calls in an order chosen by the explorer (T4).

use async_trait::async_trait;
use bytes::Bytes;
use futures::stream::{BoxStream, StreamExt};
use object_store::path::Path;
use object_store::{
    CopyOptions, Error, GetOptions, GetResult, ListResult, MultipartUpload, ObjectMeta, ObjectStore,
    ObjectStoreExt, PutMultipartOptions, PutOptions, PutPayload, PutResult, RenameOptions, Result, UploadPart,
};
use std::ops::Range;
use std::sync::atomic::{AtomicBool, AtomicU64, Ordering};
use std::sync::{Arc, Mutex};

#[derive(Clone, Copy, Debug, PartialEq, Eq, serde::Serialize, serde::Deserialize)]
pub enum Op {
    Put,
    MultipartComplete,
    Delete,
    Copy,
    Rename,
    Get,
    List,
}

impl Op {
    pub fn is_mutation(self) -> bool {
        !matches!(self, Op::Get | Op::List)
    }
}

pub const NEVER: u64 = u64::MAX;

#[derive(Debug)]
pub struct CtlState {
    powered_off: AtomicBool,
    /// number of mutations attempted so far (while powered on)
    mutations: AtomicU64,
    /// power is lost when the mutation with this 0-based index is attempted
    crash_at: AtomicU64,
    /// this mutation lands, then an error is returned (once)
    land_then_fail_at: AtomicU64,
    /// this mutation fails without landing (once); power stays on
    fail_at: AtomicU64,
    /// did the armed fault fire?
    fired: AtomicBool,
    log_enabled: AtomicBool,
    log: Mutex<Vec<(Op, String)>>,
    /// path of the mutation at which the armed fault fired
    fired_on: Mutex<Option<(Op, String)>>,
}

impl Default for CtlState {
    fn default() -> Self {
        Self {
            powered_off: AtomicBool::new(false),
            mutations: AtomicU64::new(0),
            crash_at: AtomicU64::new(NEVER),
            land_then_fail_at: AtomicU64::new(NEVER),
            fail_at: AtomicU64::new(NEVER),
            fired: AtomicBool::new(false),
            log_enabled: AtomicBool::new(false),
            log: Mutex::new(vec![]),
            fired_on: Mutex::new(None),
        }
    }
}

enum Verdict {
    Proceed,
    LandThenFail,
}

impl CtlState {
    fn err(&self, what: &str, op: Op, path: &Path) -> Error {
        Error::Generic {
            store: "CtlStore",
            source: format!("injected: {what} ({op:?} {path})").into(),
        }
    }

    fn intercept(&self, op: Op, path: &Path) -> Result<Verdict> {
        if self.powered_off.load(Ordering::Acquire) {
            return Err(self.err("power is off", op, path));
        }
        if !op.is_mutation() {
            return Ok(Verdict::Proceed);
        }
        let idx = self.mutations.fetch_add(1, Ordering::AcqRel);
        if idx == self.crash_at.load(Ordering::Acquire) {
            self.powered_off.store(true, Ordering::Release);
            self.fired.store(true, Ordering::Release);
            *self.fired_on.lock().unwrap() = Some((op, path.to_string()));
            return Err(self.err("power lost", op, path));
        }
        if idx == self.fail_at.load(Ordering::Acquire) {
            self.fired.store(true, Ordering::Release);
            *self.fired_on.lock().unwrap() = Some((op, path.to_string()));
            return Err(self.err("transient failure, nothing landed", op, path));
        }
        if idx == self.land_then_fail_at.load(Ordering::Acquire) {
            self.fired.store(true, Ordering::Release);
            *self.fired_on.lock().unwrap() = Some((op, path.to_string()));
            return Ok(Verdict::LandThenFail);
        }
        Ok(Verdict::Proceed)
    }

    fn landed(&self, op: Op, path: &Path) {
        if self.log_enabled.load(Ordering::Relaxed) {
            self.log.lock().unwrap().push((op, path.to_string()));
        }
    }
}

/// Shared handle controlling one or more [`CtlStore`]s.
#[derive(Clone, Debug, Default)]
pub struct Ctl(pub Arc<CtlState>);

impl Ctl {
    pub fn new() -> Self {
        Self::default()
    }
    pub fn mutation_count(&self) -> u64 {
        self.0.mutations.load(Ordering::Acquire)
    }
    /// The first `k` mutations from now on the counter's origin succeed, the
    /// next one does not land and every later call fails until `power_on`.
    pub fn crash_after_mutations(&self, k: u64) {
        self.0.crash_at.store(k, Ordering::Release);
    }
    pub fn land_then_fail_at(&self, k: u64) {
        self.0.land_then_fail_at.store(k, Ordering::Release);
    }
    pub fn fail_at(&self, k: u64) {
        self.0.fail_at.store(k, Ordering::Release);
    }
    /// Cuts the power now.
    pub fn power_off(&self) {
        self.0.powered_off.store(true, Ordering::Release);
    }
    pub fn is_off(&self) -> bool {
        self.0.powered_off.load(Ordering::Acquire)
    }
    /// Restores power, disarms every fault and resets the mutation counter.
    pub fn power_on(&self) {
        self.0.crash_at.store(NEVER, Ordering::Release);
        self.0.land_then_fail_at.store(NEVER, Ordering::Release);
        self.0.fail_at.store(NEVER, Ordering::Release);
        self.0.mutations.store(0, Ordering::Release);
        self.0.fired.store(false, Ordering::Release);
        *self.0.fired_on.lock().unwrap() = None;
        self.0.powered_off.store(false, Ordering::Release);
    }
    pub fn fired(&self) -> bool {
        self.0.fired.load(Ordering::Acquire)
    }
    pub fn fired_on(&self) -> Option<(Op, String)> {
        self.0.fired_on.lock().unwrap().clone()
    }
    pub fn set_logging(&self, on: bool) {
        self.0.log_enabled.store(on, Ordering::Release);
    }
    pub fn log(&self) -> Vec<(Op, String)> {
        self.0.log.lock().unwrap().clone()
    }
    pub fn log_len(&self) -> usize {
        self.0.log.lock().unwrap().len()
    }
    pub fn clear_log(&self) {
        self.0.log.lock().unwrap().clear();
    }
}

#[derive(Debug)]
pub struct CtlStore {
    inner: Arc<dyn ObjectStore>,
    ctl: Ctl,
}

impl CtlStore {
    pub fn new(inner: Arc<dyn ObjectStore>, ctl: Ctl) -> Self {
        Self { inner, ctl }
    }
}

impl std::fmt::Display for CtlStore {
    fn fmt(&self, f: &mut std::fmt::Formatter<'_>) -> std::fmt::Result {
        write!(f, "CtlStore({})", self.inner)
    }
}

#[derive(Debug)]
struct CtlUpload {
    inner: Box<dyn MultipartUpload>,
    st: Arc<CtlState>,
    path: Path,
}

#[async_trait]
impl MultipartUpload for CtlUpload {
    fn put_part(&mut self, data: PutPayload) -> UploadPart {
        if self.st.powered_off.load(Ordering::Acquire) {
            let e = self.st.err("power is off", Op::Put, &self.path);
            return Box::pin(async move { Err(e) });
        }
        self.inner.put_part(data)
    }
    async fn complete(&mut self) -> Result<PutResult> {
        match self.st.intercept(Op::MultipartComplete, &self.path)? {
            Verdict::Proceed => {
                let r = self.inner.complete().await?;
                self.st.landed(Op::MultipartComplete, &self.path);
                Ok(r)
            }
            Verdict::LandThenFail => {
                let _ = self.inner.complete().await?;
                self.st.landed(Op::MultipartComplete, &self.path);
                Err(self.st.err("landed, then reported failure", Op::MultipartComplete, &self.path))
            }
        }
    }
    async fn abort(&mut self) -> Result<()> {
        if self.st.powered_off.load(Ordering::Acquire) {
            return Err(self.st.err("power is off", Op::Put, &self.path));
        }
        self.inner.abort().await
    }
}

#[async_trait]
impl ObjectStore for CtlStore {
    async fn put_opts(&self, location: &Path, payload: PutPayload, opts: PutOptions) -> Result<PutResult> {
        let st = &self.ctl.0;
        match st.intercept(Op::Put, location)? {
            Verdict::Proceed => {
                let r = self.inner.put_opts(location, payload, opts).await?;
                st.landed(Op::Put, location);
                Ok(r)
            }
            Verdict::LandThenFail => {
                let _ = self.inner.put_opts(location, payload, opts).await?;
                st.landed(Op::Put, location);
                Err(st.err("landed, then reported failure", Op::Put, location))
            }
        }
    }

    async fn put_multipart_opts(
        &self,
        location: &Path,
        opts: PutMultipartOptions,
    ) -> Result<Box<dyn MultipartUpload>> {
        let st = &self.ctl.0;
        if st.powered_off.load(Ordering::Acquire) {
            return Err(st.err("power is off", Op::Put, location));
        }
        let inner = self.inner.put_multipart_opts(location, opts).await?;
        Ok(Box::new(CtlUpload {
            inner,
            st: st.clone(),
            path: location.clone(),
        }))
    }

    async fn get_opts(&self, location: &Path, options: GetOptions) -> Result<GetResult> {
        self.ctl.0.intercept(Op::Get, location)?;
        self.inner.get_opts(location, options).await
    }

    async fn get_ranges(&self, location: &Path, ranges: &[Range<u64>]) -> Result<Vec<Bytes>> {
        self.ctl.0.intercept(Op::Get, location)?;
        self.inner.get_ranges(location, ranges).await
    }

    fn delete_stream(&self, locations: BoxStream<'static, Result<Path>>) -> BoxStream<'static, Result<Path>> {
        let st = self.ctl.0.clone();
        let inner = self.inner.clone();
        locations
            .then(move |loc| {
                let st = st.clone();
                let inner = inner.clone();
                async move {
                    let p = loc?;
                    match st.intercept(Op::Delete, &p)? {
                        Verdict::Proceed => {
                            inner.delete(&p).await?;
                            st.landed(Op::Delete, &p);
                            Ok(p)
                        }
                        Verdict::LandThenFail => {
                            inner.delete(&p).await?;
                            st.landed(Op::Delete, &p);
                            Err(st.err("landed, then reported failure", Op::Delete, &p))
                        }
                    }
                }
            })
            .boxed()
    }

    fn list(&self, prefix: Option<&Path>) -> BoxStream<'static, Result<ObjectMeta>> {
        let p = prefix.cloned().unwrap_or_default();
        if let Err(e) = self.ctl.0.intercept(Op::List, &p) {
            return futures::stream::once(async move { Err(e) }).boxed();
        }
        self.inner.list(prefix)
    }

    fn list_with_offset(&self, prefix: Option<&Path>, offset: &Path) -> BoxStream<'static, Result<ObjectMeta>> {
        let p = prefix.cloned().unwrap_or_default();
        if let Err(e) = self.ctl.0.intercept(Op::List, &p) {
            return futures::stream::once(async move { Err(e) }).boxed();
        }
        self.inner.list_with_offset(prefix, offset)
    }

    async fn list_with_delimiter(&self, prefix: Option<&Path>) -> Result<ListResult> {
        let p = prefix.cloned().unwrap_or_default();
        self.ctl.0.intercept(Op::List, &p)?;
        self.inner.list_with_delimiter(prefix).await
    }

    async fn copy_opts(&self, from: &Path, to: &Path, options: CopyOptions) -> Result<()> {
        let st = &self.ctl.0;
        match st.intercept(Op::Copy, to)? {
            Verdict::Proceed => {
                self.inner.copy_opts(from, to, options).await?;
                st.landed(Op::Copy, to);
                Ok(())
            }
            Verdict::LandThenFail => {
                self.inner.copy_opts(from, to, options).await?;
                st.landed(Op::Copy, to);
                Err(st.err("landed, then reported failure", Op::Copy, to))
            }
        }
    }

    async fn rename_opts(&self, from: &Path, to: &Path, options: RenameOptions) -> Result<()> {
        let st = &self.ctl.0;
        match st.intercept(Op::Rename, to)? {
            Verdict::Proceed => {
                self.inner.rename_opts(from, to, options).await?;
                st.landed(Op::Rename, to);
                Ok(())
            }
            Verdict::LandThenFail => {
                self.inner.rename_opts(from, to, options).await?;
                st.landed(Op::Rename, to);
                Err(st.err("landed, then reported failure", Op::Rename, to))
            }
        }
    }
}

/// Reads every object of a store into a sorted map (for snapshots / diffs).
pub async fn dump_store(store: &dyn ObjectStore) -> std::collections::BTreeMap<String, Vec<u8>> {
    let mut out = std::collections::BTreeMap::new();
    let metas: Vec<_> = store.list(None).collect().await;
    for m in metas {
        let m = m.expect("list");
        let b = store
            .get_opts(&m.location, GetOptions::default())
            .await
            .expect("get")
            .bytes()
            .await
            .expect("bytes");
        out.insert(m.location.to_string(), b.to_vec());
    }
    out
}
