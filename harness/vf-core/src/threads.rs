//! Thread schedule exploration (T6): a token-passing scheduler for real OS
//! threads running synchronous code instrumented with yield points.
//!
//! Exactly one controlled thread runs at a time. A thread gives the token back
//! at every yield point (`point`), between its operations (`op_begin`) and
//! when it finishes; the scheduler then picks the next thread with a
//! [`Chooser`](crate::sched::Chooser), so a choice sequence determines the
//! interleaving at yield-point granularity.
//!
//! Gate awareness: an operation that takes a mutation gate exclusively (index
//! compaction) is only offered while no other thread is in the middle of an
//! operation, and it has no yield points inside, so it can never block on —
//! or be blocked by — a paused thread. This removes only choices the real
//! gate would block anyway.

use crate::sched::Chooser;
use std::sync::{Arc, Condvar, Mutex};
use std::time::Duration;

#[derive(Default)]
struct TS {
    current: Option<usize>,
    at: Vec<Option<String>>,
    finished: Vec<bool>,
    mid_op: Vec<bool>,
    exclusive_next: Vec<bool>,
    at_op_begin: Vec<bool>,
    /// released but neither yielded nor finished within the bound: assumed to sit on a real lock
    blocked: Vec<bool>,
    gate_aware: bool,
    /// set when the scheduler gives up: every controlled thread then runs freely to its end
    abort: bool,
    blocked_events: u64,
    trace: Vec<(usize, String)>,
}

#[derive(Clone)]
pub struct ThreadSched {
    inner: Arc<(Mutex<TS>, Condvar)>,
}

#[derive(Clone)]
pub struct ThreadHandle {
    me: usize,
    inner: Arc<(Mutex<TS>, Condvar)>,
}

impl ThreadSched {
    pub fn new(n: usize) -> Self {
        let ts = TS {
            current: None,
            at: vec![None; n],
            finished: vec![false; n],
            mid_op: vec![false; n],
            exclusive_next: vec![false; n],
            at_op_begin: vec![false; n],
            blocked: vec![false; n],
            gate_aware: true,
            abort: false,
            blocked_events: 0,
            trace: vec![],
        };
        Self { inner: Arc::new((Mutex::new(ts), Condvar::new())) }
    }
    /// With gate awareness off, an exclusive operation is offered even while another thread is
    /// paused inside an operation. If the real gate blocks it, the scheduler notices that it
    /// neither yields nor finishes within a few milliseconds, marks it blocked and lets another
    /// thread run; the blocked thread continues on its own once the lock is free (control over
    /// that part of the schedule is lost, which can only hide an interleaving, never invent one).
    pub fn set_gate_aware(&self, on: bool) {
        self.inner.0.lock().unwrap().gate_aware = on;
    }
    pub fn blocked_events(&self) -> u64 {
        self.inner.0.lock().unwrap().blocked_events
    }
    pub fn handle(&self, me: usize) -> ThreadHandle {
        ThreadHandle { me, inner: self.inner.clone() }
    }
    /// Runs the schedule to completion. Returns the trace of (thread, tag)
    /// decisions, or Err("inconclusive: ...") on a stuck thread.
    pub fn run(&self, ch: &mut Chooser, max_steps: usize) -> Result<Vec<(usize, String)>, String> {
        let r = self.run_inner(ch, max_steps);
        if r.is_err() {
            let (m, cv) = &*self.inner;
            let mut g = m.lock().unwrap();
            g.abort = true;
            cv.notify_all();
        }
        r
    }
    fn run_inner(&self, ch: &mut Chooser, max_steps: usize) -> Result<Vec<(usize, String)>, String> {
        let (m, cv) = &*self.inner;
        let mut steps = 0;
        loop {
            let mut g = m.lock().unwrap();
            let mut waited = Duration::ZERO;
            loop {
                let ready = g.current.is_none() && (0..g.at.len()).all(|i| g.finished[i] || g.at[i].is_some() || g.blocked[i]);
                if ready && (g.finished.iter().all(|f| *f) || (0..g.at.len()).any(|i| !g.finished[i] && g.at[i].is_some())) {
                    break;
                }
                let step = Duration::from_millis(4);
                let (ng, to) = cv.wait_timeout(g, step).unwrap();
                g = ng;
                if to.timed_out() {
                    waited += step;
                    if let Some(c) = g.current {
                        if !g.gate_aware || waited >= Duration::from_secs(20) {
                            if waited >= Duration::from_secs(20) {
                                return Err(format!("inconclusive: controlled thread {c} neither yielded nor finished within 20 s"));
                            }
                            // assume the thread sits on a real lock held by a paused thread
                            g.blocked[c] = true;
                            g.blocked_events += 1;
                            g.current = None;
                        }
                    } else if waited >= Duration::from_secs(20) {
                        return Err("inconclusive: no controlled thread became runnable within 20 s".into());
                    }
                }
            }
            if g.finished.iter().all(|f| *f) {
                return Ok(std::mem::take(&mut g.trace));
            }
            let any_mid = |g: &TS, except: usize| (0..g.at.len()).any(|j| j != except && !g.finished[j] && g.mid_op[j]);
            // gate-aware: while an exclusive operation is paused at one of its own yield points it
            // holds the gate; every other thread would block, so only it is offered
            let excl_mid: Option<usize> = if g.gate_aware { (0..g.at.len()).find(|&i| !g.finished[i] && g.mid_op[i] && g.exclusive_next[i] && g.at[i].is_some()) } else { None };
            let cands: Vec<usize> = (0..g.at.len())
                .filter(|&i| !g.finished[i] && g.at[i].is_some())
                .filter(|&i| excl_mid.map(|e| e == i).unwrap_or(true))
                .filter(|&i| !(g.gate_aware && g.at_op_begin[i] && g.exclusive_next[i] && any_mid(&g, i)))
                .collect();
            if cands.is_empty() {
                return Err("inconclusive: no runnable controlled thread".into());
            }
            let t = cands[ch.choose(cands.len())];
            let tag = g.at[t].take().unwrap();
            if g.at_op_begin[t] {
                g.mid_op[t] = true;
                g.at_op_begin[t] = false;
            }
            g.trace.push((t, tag));
            g.current = Some(t);
            cv.notify_all();
            drop(g);
            steps += 1;
            if steps > max_steps {
                return Err("inconclusive: schedule exceeded the step bound".into());
            }
        }
    }
}

impl ThreadHandle {
    fn wait_turn(&self, tag: &str, op_begin: Option<bool>) {
        let (m, cv) = &*self.inner;
        let mut g = m.lock().unwrap();
        if g.abort {
            return;
        }
        g.blocked[self.me] = false;
        g.at[self.me] = Some(tag.to_string());
        if let Some(excl) = op_begin {
            g.mid_op[self.me] = false;
            g.at_op_begin[self.me] = true;
            g.exclusive_next[self.me] = excl;
        }
        if g.current == Some(self.me) {
            g.current = None;
        }
        cv.notify_all();
        while g.current != Some(self.me) && !g.abort {
            g = cv.wait(g).unwrap();
        }
    }
    /// A yield point inside an operation.
    pub fn point(&self, tag: &str) {
        self.wait_turn(tag, None);
    }
    /// Called before each operation (and once at thread start).
    pub fn op_begin(&self, tag: &str, exclusive: bool) {
        self.wait_turn(tag, Some(exclusive));
    }
    pub fn finish(&self) {
        let (m, cv) = &*self.inner;
        let mut g = m.lock().unwrap();
        g.finished[self.me] = true;
        g.blocked[self.me] = false;
        g.mid_op[self.me] = false;
        g.at[self.me] = None;
        if g.current == Some(self.me) {
            g.current = None;
        }
        cv.notify_all();
    }
}
