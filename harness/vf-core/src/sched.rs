//! Schedule exploration (T4): a parking `ObjectStore` whose calls are released
//! one at a time in an order chosen by a [`Chooser`], plus a stateless
//! depth-first enumerator over choice sequences.
//!
//! The explorer owns the schedule: on a `current_thread` runtime the tested
//! code has no source of `Pending` other than the parked backend calls and
//! tokio's FIFO locks, so a choice sequence determines the execution.

use async_trait::async_trait;
use bytes::Bytes;
use futures::stream::{BoxStream, StreamExt};
use object_store::path::Path;
use object_store::{
    CopyOptions, GetOptions, GetResult, ListResult, MultipartUpload, ObjectMeta, ObjectStore, ObjectStoreExt,
    PutMultipartOptions, PutOptions, PutPayload, PutResult, RenameOptions, Result, UploadPart,
};
use std::ops::Range;
use std::sync::{Arc, Mutex};
use tokio::sync::oneshot;

pub use crate::store::Op;

tokio::task_local! {
    /// Index of the concurrent operation the current task belongs to.
    pub static OP_ID: u32;
}

pub fn current_op() -> u32 {
    OP_ID.try_with(|v| *v).unwrap_or(u32::MAX)
}

#[derive(Clone, Copy, Debug, PartialEq, Eq, serde::Serialize, serde::Deserialize)]
pub enum Phase {
    /// the synthetic start point of an operation (nothing ran yet)
    Start,
    /// the backend call has not been forwarded yet
    Before,
    /// the backend call has landed; its result has not been delivered yet
    After,
}

#[derive(Clone, Debug, serde::Serialize, serde::Deserialize)]
pub struct ParkInfo {
    pub id: u64,
    pub task: u32,
    pub op: Op,
    pub path: String,
    pub phase: Phase,
}

struct Parked {
    info: ParkInfo,
    tx: oneshot::Sender<bool>,
}

#[derive(Default)]
struct HubState {
    enabled: bool,
    park_reads: bool,
    /// tasks whose read calls park (before and after landing) even when `park_reads` is off
    read_tasks: Vec<u32>,
    next_id: u64,
    parked: Vec<Parked>,
    released: u64,
}

/// Shared between the explorer and every [`ParkStore`] clone.
#[derive(Clone, Default)]
pub struct Hub(Arc<Mutex<HubState>>);

impl Hub {
    pub fn new() -> Self {
        Self::default()
    }
    /// While disabled calls pass straight through (setup / verification).
    pub fn set_enabled(&self, on: bool) {
        self.0.lock().unwrap().enabled = on;
    }
    pub fn set_park_reads(&self, on: bool) {
        self.0.lock().unwrap().park_reads = on;
    }
    /// Read calls of these tasks (OP_ID values) become decision points of their own: a reader's
    /// GET may land before a writer's PUT and be delivered to the reader after it.
    pub fn set_read_tasks(&self, tasks: Vec<u32>) {
        self.0.lock().unwrap().read_tasks = tasks;
    }
    pub fn parked(&self) -> Vec<ParkInfo> {
        let mut v: Vec<ParkInfo> = self.0.lock().unwrap().parked.iter().map(|p| p.info.clone()).collect();
        v.sort_by_key(|p| p.id);
        v
    }
    pub fn released(&self) -> u64 {
        self.0.lock().unwrap().released
    }
    /// Releases one parked call (`ok = false`: the call fails without landing
    /// when parked Before, or reports failure after landing when parked After).
    pub fn release(&self, id: u64, ok: bool) {
        let mut st = self.0.lock().unwrap();
        if let Some(i) = st.parked.iter().position(|p| p.info.id == id) {
            let p = st.parked.remove(i);
            st.released += 1;
            let _ = p.tx.send(ok);
        }
    }
    /// Releases everything (used to drain after a decision to stop exploring).
    pub fn release_all(&self, ok: bool) {
        let mut st = self.0.lock().unwrap();
        st.enabled = false;
        for p in st.parked.drain(..) {
            let _ = p.tx.send(ok);
        }
    }
    /// Parks the calling task until released. Returns the release verdict.
    pub async fn park(&self, op: Op, path: &str, phase: Phase) -> bool {
        let rx = {
            let mut st = self.0.lock().unwrap();
            if !st.enabled {
                return true;
            }
            if !op.is_mutation() && !st.park_reads && phase != Phase::Start && !st.read_tasks.contains(&current_op()) {
                return true;
            }
            let (tx, rx) = oneshot::channel();
            let id = st.next_id;
            st.next_id += 1;
            st.parked.push(Parked {
                info: ParkInfo { id, task: current_op(), op, path: path.to_string(), phase },
                tx,
            });
            rx
        };
        rx.await.unwrap_or(false)
    }
}

#[derive(Clone)]
pub struct ParkStore {
    inner: Arc<dyn ObjectStore>,
    hub: Hub,
}

impl ParkStore {
    pub fn new(inner: Arc<dyn ObjectStore>, hub: Hub) -> Self {
        Self { inner, hub }
    }
    fn injected(op: Op, path: &str, what: &str) -> object_store::Error {
        object_store::Error::Generic {
            store: "ParkStore",
            source: format!("injected: {what} ({op:?} {path})").into(),
        }
    }
}

impl std::fmt::Debug for ParkStore {
    fn fmt(&self, f: &mut std::fmt::Formatter<'_>) -> std::fmt::Result {
        write!(f, "ParkStore({:?})", self.inner)
    }
}
impl std::fmt::Display for ParkStore {
    fn fmt(&self, f: &mut std::fmt::Formatter<'_>) -> std::fmt::Result {
        write!(f, "ParkStore({})", self.inner)
    }
}

macro_rules! parked_call {
    ($self:ident, $op:expr, $path:expr, $call:expr) => {{
        let path = $path.to_string();
        if !$self.hub.park($op, &path, Phase::Before).await {
            return Err(ParkStore::injected($op, &path, "failed before landing"));
        }
        let r = $call.await;
        // (reads only park here when the hub parks reads: then "the read has returned its answer
        // but the caller has not acted on it yet" is a decision point of its own)
        if !$self.hub.park($op, &path, Phase::After).await {
            return Err(ParkStore::injected($op, &path, "landed, then reported failure"));
        }
        r
    }};
}

#[derive(Debug)]
struct ParkUpload {
    inner: Box<dyn MultipartUpload>,
    hub: Hub,
    path: String,
}

impl std::fmt::Debug for Hub {
    fn fmt(&self, f: &mut std::fmt::Formatter<'_>) -> std::fmt::Result {
        write!(f, "Hub")
    }
}

#[async_trait]
impl MultipartUpload for ParkUpload {
    fn put_part(&mut self, data: PutPayload) -> UploadPart {
        self.inner.put_part(data)
    }
    async fn complete(&mut self) -> Result<PutResult> {
        let op = Op::MultipartComplete;
        if !self.hub.park(op, &self.path, Phase::Before).await {
            return Err(ParkStore::injected(op, &self.path, "failed before landing"));
        }
        let r = self.inner.complete().await;
        if !self.hub.park(op, &self.path, Phase::After).await {
            return Err(ParkStore::injected(op, &self.path, "landed, then reported failure"));
        }
        r
    }
    async fn abort(&mut self) -> Result<()> {
        self.inner.abort().await
    }
}

#[async_trait]
impl ObjectStore for ParkStore {
    async fn put_opts(&self, location: &Path, payload: PutPayload, opts: PutOptions) -> Result<PutResult> {
        parked_call!(self, Op::Put, location, self.inner.put_opts(location, payload, opts))
    }
    async fn put_multipart_opts(&self, location: &Path, opts: PutMultipartOptions) -> Result<Box<dyn MultipartUpload>> {
        let inner = self.inner.put_multipart_opts(location, opts).await?;
        Ok(Box::new(ParkUpload { inner, hub: self.hub.clone(), path: location.to_string() }))
    }
    async fn get_opts(&self, location: &Path, options: GetOptions) -> Result<GetResult> {
        parked_call!(self, Op::Get, location, self.inner.get_opts(location, options))
    }
    async fn get_ranges(&self, location: &Path, ranges: &[Range<u64>]) -> Result<Vec<Bytes>> {
        parked_call!(self, Op::Get, location, self.inner.get_ranges(location, ranges))
    }
    fn delete_stream(&self, locations: BoxStream<'static, Result<Path>>) -> BoxStream<'static, Result<Path>> {
        let hub = self.hub.clone();
        let inner = self.inner.clone();
        locations
            .then(move |loc| {
                let hub = hub.clone();
                let inner = inner.clone();
                async move {
                    let p = loc?;
                    let path = p.to_string();
                    if !hub.park(Op::Delete, &path, Phase::Before).await {
                        return Err(ParkStore::injected(Op::Delete, &path, "failed before landing"));
                    }
                    let r = inner.delete(&p).await;
                    if !hub.park(Op::Delete, &path, Phase::After).await {
                        return Err(ParkStore::injected(Op::Delete, &path, "landed, then reported failure"));
                    }
                    r.map(|_| p)
                }
            })
            .boxed()
    }
    fn list(&self, prefix: Option<&Path>) -> BoxStream<'static, Result<ObjectMeta>> {
        let hub = self.hub.clone();
        let inner = self.inner.clone();
        let prefix = prefix.cloned();
        futures::stream::once(async move {
            let path = prefix.clone().unwrap_or_default().to_string();
            hub.park(Op::List, &path, Phase::Before).await;
            inner.list(prefix.as_ref())
        })
        .flatten()
        .boxed()
    }
    fn list_with_offset(&self, prefix: Option<&Path>, offset: &Path) -> BoxStream<'static, Result<ObjectMeta>> {
        let hub = self.hub.clone();
        let inner = self.inner.clone();
        let prefix = prefix.cloned();
        let offset = offset.clone();
        futures::stream::once(async move {
            let path = prefix.clone().unwrap_or_default().to_string();
            hub.park(Op::List, &path, Phase::Before).await;
            inner.list_with_offset(prefix.as_ref(), &offset)
        })
        .flatten()
        .boxed()
    }
    async fn list_with_delimiter(&self, prefix: Option<&Path>) -> Result<ListResult> {
        let path = prefix.cloned().unwrap_or_default().to_string();
        self.hub.park(Op::List, &path, Phase::Before).await;
        self.inner.list_with_delimiter(prefix).await
    }
    async fn copy_opts(&self, from: &Path, to: &Path, options: CopyOptions) -> Result<()> {
        parked_call!(self, Op::Copy, to, self.inner.copy_opts(from, to, options))
    }
    async fn rename_opts(&self, from: &Path, to: &Path, options: RenameOptions) -> Result<()> {
        parked_call!(self, Op::Rename, to, self.inner.rename_opts(from, to, options))
    }
}

/// Yields until the set of parked calls and the progress counter are stable
/// for `rounds` consecutive scheduler rounds.
pub async fn quiesce(hub: &Hub, progress: &dyn Fn() -> u64) {
    let mut stable = 0;
    let mut last = (hub.parked().len(), hub.released(), progress());
    let mut guard = 0;
    while stable < 4 && guard < 10_000 {
        tokio::task::yield_now().await;
        let now = (hub.parked().len(), hub.released(), progress());
        if now == last {
            stable += 1;
        } else {
            stable = 0;
            last = now;
        }
        guard += 1;
    }
}

/// A source of scheduling decisions: a fixed prefix (DFS) or a generated
/// sequence, then always the first option. Records (chosen, options).
#[derive(Clone, Debug, Default)]
pub struct Chooser {
    prefix: Vec<usize>,
    random: Option<Vec<u16>>,
    pos: usize,
    pub trace: Vec<(usize, usize)>,
}

impl Chooser {
    pub fn from_prefix(prefix: Vec<usize>) -> Self {
        Self { prefix, ..Default::default() }
    }
    pub fn from_random(seq: Vec<u16>) -> Self {
        Self { random: Some(seq), ..Default::default() }
    }
    pub fn choose(&mut self, n: usize) -> usize {
        assert!(n > 0);
        let c = if let Some(r) = &self.random {
            r.get(self.pos).map(|v| crate::pick_idx(*v, n)).unwrap_or(0)
        } else {
            self.prefix.get(self.pos).copied().unwrap_or(0).min(n - 1)
        };
        self.pos += 1;
        self.trace.push((c, n));
        c
    }
    pub fn choices(&self) -> Vec<usize> {
        self.trace.iter().map(|(c, _)| *c).collect()
    }
    /// Next DFS prefix after this run, or None when the space is exhausted.
    pub fn next_prefix(&self) -> Option<Vec<usize>> {
        let mut i = self.trace.len();
        while i > 0 {
            i -= 1;
            let (c, n) = self.trace[i];
            if c + 1 < n {
                let mut p: Vec<usize> = self.trace[..i].iter().map(|(c, _)| *c).collect();
                p.push(c + 1);
                return Some(p);
            }
        }
        None
    }
}

/// Enumerates schedules depth-first. `run` executes one schedule with the
/// given chooser and returns Err on a property failure. Returns
/// (schedules executed, exhausted?) or the first failure with its choices.
pub fn dfs<F>(max_runs: usize, mut run: F) -> std::result::Result<(usize, bool), (Vec<usize>, String)>
where
    F: FnMut(&mut Chooser) -> std::result::Result<(), String>,
{
    let mut prefix = vec![];
    let mut n = 0;
    loop {
        let mut ch = Chooser::from_prefix(prefix);
        if let Err(e) = run(&mut ch) {
            return Err((ch.choices(), e));
        }
        n += 1;
        match ch.next_prefix() {
            None => return Ok((n, true)),
            Some(p) => {
                if n >= max_runs {
                    return Ok((n, false));
                }
                prefix = p;
            }
        }
    }
}
