//! vf-core: the shared runner of the anda-db verification harness.
//!
//! One `Runner` per check process. A check is a sequence of *sub-checks*; each
//! sub-check is a proptest strategy (or an explicit enumeration) plus a
//! property closure with an explicit oracle. The runner owns seeds, worker
//! threads, classification counters, shrinking, replay files, known findings,
//! the watchdog and the evidence file.
//!
//! Exit codes: 0 = held on everything explored, 1 = violation (a line
//! `VIOLATION property=<id> replay=<path>` was printed), 2 = inconclusive.

pub mod sched;
pub mod store;
pub mod threads;

use proptest::strategy::{Strategy, ValueTree};
use proptest::test_runner::{Config, RngAlgorithm, TestCaseError, TestError, TestRng, TestRunner};
use serde::{Serialize, de::DeserializeOwned};
use serde_json::{Value, json};
use std::collections::{BTreeMap, HashSet};
use std::fmt::Debug;
use std::panic::{AssertUnwindSafe, catch_unwind};
use std::sync::atomic::{AtomicBool, AtomicU64, Ordering};
use std::sync::{Arc, Mutex};
use std::time::Instant;

pub const VERIF_ROOT: &str = "/verif";

#[derive(Clone, Copy, Debug, PartialEq, Eq)]
pub enum Tier {
    Quick,
    Thorough,
}

impl Tier {
    pub fn name(self) -> &'static str {
        match self {
            Tier::Quick => "quick",
            Tier::Thorough => "thorough",
        }
    }
    /// Picks the quick or the thorough value.
    pub fn pick<T>(self, quick: T, thorough: T) -> T {
        match self {
            Tier::Quick => quick,
            Tier::Thorough => thorough,
        }
    }
}

enum Mode {
    Run,
    Replay {
        path: String,
        sub: String,
        case: Value,
        done: bool,
    },
}

/// Per-case scratch pad handed to the property closure.
#[derive(Default)]
pub struct CaseCtx {
    /// Labels of this case (histogrammed in the evidence).
    pub labels: Vec<String>,
    /// Whether the case is non-trivial by the sub-check's stated rule.
    pub nontrivial: bool,
    /// Free-form counters added up over the run.
    pub counters: BTreeMap<String, u64>,
    /// When the closure returns `Err`, the structural signature of the failure
    /// (looked up in known_findings.json).
    pub signature: Option<String>,
    /// Replay mode: known findings are not tolerated, the case must pass.
    pub strict: bool,
    /// Optional distinctness key; defaults to the hash of the case's JSON.
    pub distinct_key: Option<u64>,
    /// Known-finding signatures that the case had to exclude by construction.
    pub excluded: Vec<String>,
}

impl CaseCtx {
    pub fn label(&mut self, l: impl Into<String>) {
        self.labels.push(l.into());
    }
    pub fn count(&mut self, k: &str, n: u64) {
        *self.counters.entry(k.to_string()).or_insert(0) += n;
    }
    pub fn fail_sig(&mut self, sig: impl Into<String>, msg: impl Into<String>) -> Result<(), String> {
        self.signature = Some(sig.into());
        Err(msg.into())
    }
}

#[derive(Default, Clone)]
struct SubStats {
    name: String,
    rule: String,
    evaluations: u64,
    nontrivial: HashSet<u64>,
    nontrivial_evals: u64,
    labels: BTreeMap<String, u64>,
    counters: BTreeMap<String, u64>,
    samples: Vec<Value>,
    first_case: Option<Value>,
    excluded_known: BTreeMap<String, u64>,
    exhaustive: Option<bool>,
    wall_s: f64,
}

#[derive(Clone, Debug, serde::Deserialize)]
pub struct KnownEntry {
    pub property: String,
    pub status: String, // "known" | "fixed"
    pub signature: String,
    pub what: String,
    #[serde(default)]
    pub commit: Option<String>,
}

#[derive(Clone, Debug, Default)]
pub struct KnownFindings {
    pub entries: Vec<KnownEntry>,
}

impl KnownFindings {
    pub fn load() -> Self {
        let p = format!("{VERIF_ROOT}/known_findings.json");
        let Ok(txt) = std::fs::read_to_string(&p) else {
            return Self::default();
        };
        let v: Value = serde_json::from_str(&txt).expect("known_findings.json must be valid JSON");
        let entries = v
            .get("findings")
            .cloned()
            .map(|f| serde_json::from_value(f).expect("known_findings.json: bad entry"))
            .unwrap_or_default();
        Self { entries }
    }
    /// A listed, unrepaired finding with this signature?
    pub fn known(&self, property: &str, sig: &str) -> Option<&KnownEntry> {
        self.entries
            .iter()
            .find(|e| e.property == property && e.status == "known" && e.signature == sig)
    }
}

pub struct Runner {
    pub property: String,
    pub tier: Tier,
    pub seed: u64,
    level: String,
    mode: Mode,
    subs: Vec<SubStats>,
    violations: Vec<(String, String)>, // (sub, replay path)
    inconclusive: Vec<String>,
    known_printed: Mutex<HashSet<String>>,
    pub known: KnownFindings,
    started: Instant,
    assumptions: Vec<String>,
    extra: BTreeMap<String, Value>,
    workers_override: Option<usize>,
    only_sub: Option<String>,
    watchdog: Arc<Watchdog>,
}

struct Watchdog {
    // per worker slot: start time in ms since runner start (0 = idle)
    slots: Vec<AtomicU64>,
    limit_ms: AtomicU64,
    origin: Instant,
    what: Mutex<String>,
}

pub fn fnv64(data: &[u8]) -> u64 {
    let mut h: u64 = 0xcbf29ce484222325;
    for b in data {
        h ^= *b as u64;
        h = h.wrapping_mul(0x100000001b3);
    }
    h
}

fn seed_bytes(seed: u64, property: &str, sub: &str, worker: u64) -> [u8; 32] {
    let mut out = [0u8; 32];
    let a = fnv64(format!("{seed}/{property}/{sub}/{worker}/a").as_bytes());
    let b = fnv64(format!("{seed}/{property}/{sub}/{worker}/b").as_bytes());
    let c = fnv64(format!("{seed}/{property}/{sub}/{worker}/c").as_bytes());
    let d = fnv64(format!("{seed}/{property}/{sub}/{worker}/d").as_bytes());
    out[0..8].copy_from_slice(&a.to_le_bytes());
    out[8..16].copy_from_slice(&b.to_le_bytes());
    out[16..24].copy_from_slice(&c.to_le_bytes());
    out[24..32].copy_from_slice(&d.to_le_bytes());
    out
}

/// Monotone index mapping (shrinks towards 0): `i` in 0..=65535 -> 0..len.
pub fn pick_idx(i: u16, len: usize) -> usize {
    if len == 0 {
        return 0;
    }
    ((i as usize) * len) >> 16
}

/// Runs a future to completion on a fresh current-thread runtime (with time).
pub fn block_on<F: std::future::Future>(f: F) -> F::Output {
    tokio::runtime::Builder::new_current_thread()
        .enable_time()
        .build()
        .expect("runtime")
        .block_on(f)
}

fn truncate_sample(v: &Value) -> Value {
    let s = v.to_string();
    if s.len() <= 3000 {
        v.clone()
    } else {
        let mut cut = 3000;
        while !s.is_char_boundary(cut) {
            cut -= 1;
        }
        json!({"truncated_json": format!("{}…", &s[..cut]), "full_len": s.len()})
    }
}

impl Runner {
    /// `args`: `<tier>` | `replay <file>`; env `VERIF_SEED`, `VERIF_TIER`,
    /// `VERIF_WORKERS`, `VERIF_SUB` (run only that sub-check).
    pub fn from_env(property: &str, level: &str) -> Runner {
        let args: Vec<String> = std::env::args().skip(1).collect();
        // drivers that serve several properties receive the id as first arg
        let args: Vec<String> = args.into_iter().filter(|a| a != property).collect();
        let mut tier = match std::env::var("VERIF_TIER").ok().as_deref() {
            Some("thorough") => Tier::Thorough,
            _ => Tier::Quick,
        };
        let mut mode = Mode::Run;
        match args.first().map(|s| s.as_str()) {
            Some("quick") => tier = Tier::Quick,
            Some("thorough") => tier = Tier::Thorough,
            Some("replay") => {
                let path = args.get(1).expect("replay <file>").clone();
                let txt = std::fs::read_to_string(&path).expect("replay file readable");
                let v: Value = serde_json::from_str(&txt).expect("replay file is JSON");
                let sub = v["sub"].as_str().expect("replay.sub").to_string();
                mode = Mode::Replay {
                    path,
                    sub,
                    case: v["case"].clone(),
                    done: false,
                };
            }
            _ => {}
        }
        let seed = std::env::var("VERIF_SEED")
            .ok()
            .and_then(|s| s.trim().parse::<i128>().ok())
            .map(|v| v as u64)
            .unwrap_or(20260926);
        let workers_override = std::env::var("VERIF_WORKERS").ok().and_then(|s| s.parse().ok());
        let only_sub = std::env::var("VERIF_SUB").ok().filter(|s| !s.is_empty());
        let watchdog = Arc::new(Watchdog {
            slots: (0..64).map(|_| AtomicU64::new(0)).collect(),
            limit_ms: AtomicU64::new(300_000),
            origin: Instant::now(),
            what: Mutex::new(String::new()),
        });
        {
            let wd = watchdog.clone();
            let prop = property.to_string();
            std::thread::spawn(move || {
                loop {
                    std::thread::sleep(std::time::Duration::from_millis(500));
                    let now = wd.origin.elapsed().as_millis() as u64;
                    let lim = wd.limit_ms.load(Ordering::Relaxed);
                    for s in &wd.slots {
                        let st = s.load(Ordering::Relaxed);
                        if st != 0 && now.saturating_sub(st) > lim {
                            println!(
                                "INCONCLUSIVE property={prop} reason=hang sub={} (a case ran for more than {} ms)",
                                wd.what.lock().unwrap(),
                                lim
                            );
                            std::process::exit(2);
                        }
                    }
                }
            });
        }
        // keep panics inside properties quiet; messages are captured by catch_unwind
        std::panic::set_hook(Box::new(|info| {
            if std::env::var("VERIF_PANIC_TRACE").is_ok() {
                eprintln!("[panic] {info}");
            }
        }));
        Runner {
            property: property.to_string(),
            tier,
            seed,
            level: level.to_string(),
            mode,
            subs: vec![],
            violations: vec![],
            inconclusive: vec![],
            known_printed: Mutex::new(HashSet::new()),
            known: KnownFindings::load(),
            started: Instant::now(),
            assumptions: vec![],
            extra: BTreeMap::new(),
            workers_override,
            only_sub,
            watchdog,
        }
    }

    pub fn is_replay(&self) -> bool {
        matches!(self.mode, Mode::Replay { .. })
    }
    pub fn assume(&mut self, s: &str) {
        self.assumptions.push(s.to_string());
    }
    pub fn extra(&mut self, k: &str, v: Value) {
        self.extra.insert(k.to_string(), v);
    }
    pub fn set_case_timeout_ms(&self, ms: u64) {
        self.watchdog.limit_ms.store(ms, Ordering::Relaxed);
    }
    pub fn workers(&self) -> usize {
        self.workers_override.unwrap_or(match self.tier {
            Tier::Quick => 8,
            Tier::Thorough => 16,
        })
    }
    pub fn inconclusive(&mut self, why: impl Into<String>) {
        self.inconclusive.push(why.into());
    }
    /// Prints the KNOWN-FINDING line for a listed finding (once per signature).
    pub fn report_known(&self, sig: &str) -> bool {
        if let Some(e) = self.known.known(&self.property, sig) {
            let mut p = self.known_printed.lock().unwrap();
            if p.insert(sig.to_string()) {
                println!("KNOWN-FINDING: property={} {}", self.property, e.what);
            }
            true
        } else {
            false
        }
    }

    fn skip_sub(&self, name: &str) -> bool {
        if !self.violations.is_empty() && !self.is_replay() {
            // a violation was already found: stop exploring, report it
            return true;
        }
        match &self.mode {
            Mode::Replay { sub, .. } => sub != name,
            Mode::Run => self.only_sub.as_deref().map(|s| s != name).unwrap_or(false),
        }
    }

    fn write_replay<C: Serialize>(&mut self, sub: &str, case: &C, msg: &str) -> String {
        let case_v = serde_json::to_value(case).unwrap_or(Value::Null);
        let body = json!({
            "property": self.property,
            "sub": sub,
            "seed": self.seed,
            "tier": self.tier.name(),
            "message": msg,
            "case": case_v,
        });
        let txt = serde_json::to_string_pretty(&body).unwrap();
        let h = fnv64(txt.as_bytes());
        let dir = match std::env::var("VERIF_OUT_DIR") {
            Ok(d) => format!("{d}/replays"),
            Err(_) => format!("{VERIF_ROOT}/replays"),
        };
        let _ = std::fs::create_dir_all(&dir);
        let path = format!("{dir}/{}-{}-{:016x}.json", self.property, sub, h);
        std::fs::write(&path, txt).expect("write replay file");
        path
    }

    fn replay_one<C, F>(&mut self, name: &str, f: &F)
    where
        C: Debug + Clone + Serialize + DeserializeOwned,
        F: Fn(&C, &mut CaseCtx) -> Result<(), String>,
    {
        let (path, case_v) = match &mut self.mode {
            Mode::Replay { path, case, done, .. } => {
                *done = true;
                (path.clone(), case.clone())
            }
            _ => unreachable!(),
        };
        let case: C = match serde_json::from_value(case_v) {
            Ok(c) => c,
            Err(e) => {
                println!("INCONCLUSIVE property={} reason=replay-file-does-not-decode ({e})", self.property);
                std::process::exit(2);
            }
        };
        let mut ctx = CaseCtx {
            strict: true,
            ..Default::default()
        };
        let r = catch_unwind(AssertUnwindSafe(|| f(&case, &mut ctx)));
        let r = match r {
            Ok(r) => r,
            Err(p) => Err(format!("panic: {}", panic_msg(&p))),
        };
        match r {
            Ok(()) => {
                println!("replay: property={} sub={name} case passes", self.property);
                std::process::exit(0);
            }
            Err(msg) => {
                println!("replay: property={} sub={name} FAILS: {msg}", self.property);
                // a listed finding reproduces: say which one, and do not call it a new violation
                if let Some(e) = ctx.signature.as_deref().and_then(|s| KnownFindings::load().known(&self.property, s).cloned()) {
                    println!("KNOWN-FINDING: property={} {}", self.property, e.what);
                    std::process::exit(0);
                }
                println!("VIOLATION property={} replay={}", self.property, path);
                std::process::exit(1);
            }
        }
    }

    /// A generated sub-check. `cases` = (quick, thorough) total case counts
    /// (split over the workers). `rule` states how cases are generated and what
    /// makes one non-trivial.
    pub fn sub<C, S, G, F>(&mut self, name: &str, rule: &str, cases: (u32, u32), strat: G, f: F)
    where
        C: Debug + Clone + Serialize + DeserializeOwned + Send + 'static,
        S: Strategy<Value = C>,
        G: Fn() -> S + Send + Sync,
        F: Fn(&C, &mut CaseCtx) -> Result<(), String> + Send + Sync,
    {
        if self.skip_sub(name) {
            return;
        }
        if self.is_replay() {
            return self.replay_one::<C, F>(name, &f);
        }
        let t0 = Instant::now();
        let total = self.tier.pick(cases.0, cases.1).max(1);
        let workers = self.workers().min(total as usize).max(1);
        let per = total.div_ceil(workers as u32);
        let stop = AtomicBool::new(false);
        let stats = Mutex::new(SubStats {
            name: name.to_string(),
            rule: rule.to_string(),
            ..Default::default()
        });
        let failures: Mutex<Vec<(usize, C, String)>> = Mutex::new(vec![]);
        *self.watchdog.what.lock().unwrap() = name.to_string();
        let this: &Runner = self;
        std::thread::scope(|scope| {
            for w in 0..workers {
                let strat = &strat;
                let f = &f;
                let stop = &stop;
                let stats = &stats;
                let failures = &failures;
                scope.spawn(move || {
                    let strat = strat();
                    let cfg = Config {
                        cases: per,
                        failure_persistence: None,
                        max_shrink_iters: 4000,
                        max_global_rejects: 1_000_000,
                        max_local_rejects: 1_000_000,
                        ..Config::default()
                    };
                    let rng = TestRng::from_seed(
                        RngAlgorithm::ChaCha,
                        &seed_bytes(this.seed, &this.property, name, w as u64),
                    );
                    let mut runner = TestRunner::new_with_rng(cfg, rng);
                    let mut local = SubStats::default();
                    let failed = std::cell::Cell::new(false);
                    let local_cell = std::cell::RefCell::new(&mut local);
                    let slot = &this.watchdog.slots[w % 64];
                    let res = runner.run(&strat, |case: C| {
                        if stop.load(Ordering::Relaxed) && !failed.get() {
                            return Ok(());
                        }
                        slot.store(this.watchdog.origin.elapsed().as_millis() as u64 + 1, Ordering::Relaxed);
                        let mut ctx = CaseCtx::default();
                        let r = catch_unwind(AssertUnwindSafe(|| f(&case, &mut ctx)));
                        slot.store(0, Ordering::Relaxed);
                        let r = match r {
                            Ok(r) => r,
                            Err(p) => Err(format!("panic: {}", panic_msg(&p))),
                        };
                        // "inconclusive: ..." = the harness lost control of a case (stuck schedule,
                        // deadlock of the explorer): never a violation; counted and reported
                        let r = match r {
                            Err(msg) if msg.starts_with("inconclusive:") => {
                                if !failed.get() {
                                    let mut l = local_cell.borrow_mut();
                                    *l.counters.entry("inconclusive_cases".into()).or_insert(0) += 1;
                                    if std::env::var("VERIF_DEBUG").is_ok() {
                                        eprintln!("[vf] {msg}");
                                    }
                                }
                                Ok(())
                            }
                            other => other,
                        };
                        // known finding? count and continue
                        let r = match r {
                            Err(msg) => {
                                let known = ctx
                                    .signature
                                    .as_deref()
                                    .map(|s| this.report_known(s))
                                    .unwrap_or(false);
                                if known {
                                    if !failed.get() {
                                        let mut l = local_cell.borrow_mut();
                                        *l.excluded_known
                                            .entry(ctx.signature.clone().unwrap())
                                            .or_insert(0) += 1;
                                    }
                                    Ok(())
                                } else {
                                    Err(msg)
                                }
                            }
                            ok => ok,
                        };
                        if !failed.get() {
                            let mut l = local_cell.borrow_mut();
                            l.evaluations += 1;
                            for lab in &ctx.labels {
                                *l.labels.entry(lab.clone()).or_insert(0) += 1;
                            }
                            for (k, v) in &ctx.counters {
                                *l.counters.entry(k.clone()).or_insert(0) += *v;
                            }
                            for s in &ctx.excluded {
                                *l.excluded_known.entry(s.clone()).or_insert(0) += 1;
                            }
                            if l.first_case.is_none() {
                                l.first_case = serde_json::to_value(&case).ok().map(|v| truncate_sample(&v));
                            }
                            if ctx.nontrivial {
                                l.nontrivial_evals += 1;
                                let key = ctx.distinct_key.unwrap_or_else(|| {
                                    fnv64(serde_json::to_string(&case).unwrap_or_default().as_bytes())
                                });
                                if l.nontrivial.insert(key) && l.samples.len() < 2 {
                                    if let Ok(v) = serde_json::to_value(&case) {
                                        l.samples.push(truncate_sample(&v));
                                    }
                                }
                            }
                        }
                        match r {
                            Ok(()) => Ok(()),
                            Err(msg) => {
                                failed.set(true);
                                stop.store(true, Ordering::Relaxed);
                                Err(TestCaseError::fail(msg))
                            }
                        }
                    });
                    drop(local_cell);
                    match res {
                        Ok(()) => {}
                        Err(TestError::Fail(reason, case)) => {
                            failures.lock().unwrap().push((w, case, reason.message().to_string()));
                        }
                        Err(TestError::Abort(reason)) => {
                            // too many rejects: generator problem, inconclusive

                            eprintln!("[vf] sub {name}: proptest aborted: {}", reason.message());
                            local.counters.insert("proptest_aborted".into(), 1);
                        }
                    }
                    let mut s = stats.lock().unwrap();
                    merge_stats(&mut s, local);
                });
            }
        });
        let mut st = stats.into_inner().unwrap();
        st.wall_s = t0.elapsed().as_secs_f64();
        let mut fails = failures.into_inner().unwrap();
        fails.sort_by_key(|x| x.0);
        if st.counters.contains_key("proptest_aborted") {
            self.inconclusive
                .push(format!("sub {name}: generator rejected too many cases"));
        }
        if let Some((_, case, msg)) = fails.into_iter().next() {
            let path = self.write_replay(name, &case, &msg);
            println!("[{}] sub {name}: FAILED: {msg}", self.property);
            println!("VIOLATION property={} replay={}", self.property, path);
            self.violations.push((name.to_string(), path));
        } else {
            eprintln!(
                "[{}] sub {name}: {} cases, {} distinct non-trivial, {:.1}s",
                self.property,
                st.evaluations,
                st.nontrivial.len(),
                st.wall_s
            );
        }
        self.subs.push(st);
    }

    /// An enumerated sub-check (no random generation, no shrinking): every case
    /// of `cases` is run. `exhaustive` says whether `cases` is the complete
    /// finite space named in `rule`.
    pub fn sub_enum<C, F>(&mut self, name: &str, rule: &str, exhaustive: bool, cases: Vec<C>, f: F)
    where
        C: Debug + Clone + Serialize + DeserializeOwned + Send + Sync + 'static,
        F: Fn(&C, &mut CaseCtx) -> Result<(), String> + Send + Sync,
    {
        if self.skip_sub(name) {
            return;
        }
        if self.is_replay() {
            return self.replay_one::<C, F>(name, &f);
        }
        let t0 = Instant::now();
        let workers = self.workers().min(cases.len().max(1));
        let next = AtomicU64::new(0);
        let stop = AtomicBool::new(false);
        let stats = Mutex::new(SubStats {
            name: name.to_string(),
            rule: rule.to_string(),
            exhaustive: Some(exhaustive),
            ..Default::default()
        });
        let failures: Mutex<Vec<(usize, String)>> = Mutex::new(vec![]);
        *self.watchdog.what.lock().unwrap() = name.to_string();
        let this: &Runner = self;
        let cases_ref = &cases;
        std::thread::scope(|scope| {
            for w in 0..workers {
                let f = &f;
                let next = &next;
                let stop = &stop;
                let stats = &stats;
                let failures = &failures;
                scope.spawn(move || {
                    let mut l = SubStats::default();
                    let slot = &this.watchdog.slots[w % 64];
                    loop {
                        if stop.load(Ordering::Relaxed) {
                            break;
                        }
                        let i = next.fetch_add(1, Ordering::Relaxed) as usize;
                        if i >= cases_ref.len() {
                            break;
                        }
                        let case = &cases_ref[i];
                        slot.store(this.watchdog.origin.elapsed().as_millis() as u64 + 1, Ordering::Relaxed);
                        let mut ctx = CaseCtx::default();
                        let r = catch_unwind(AssertUnwindSafe(|| f(case, &mut ctx)));
                        slot.store(0, Ordering::Relaxed);
                        let r = match r {
                            Ok(r) => r,
                            Err(p) => Err(format!("panic: {}", panic_msg(&p))),
                        };
                        l.evaluations += 1;
                        for lab in &ctx.labels {
                            *l.labels.entry(lab.clone()).or_insert(0) += 1;
                        }
                        for (k, v) in &ctx.counters {
                            *l.counters.entry(k.clone()).or_insert(0) += *v;
                        }
                        for s in &ctx.excluded {
                            *l.excluded_known.entry(s.clone()).or_insert(0) += 1;
                        }
                        if l.first_case.is_none() {
                            l.first_case = serde_json::to_value(case).ok().map(|v| truncate_sample(&v));
                        }
                        if ctx.nontrivial {
                            l.nontrivial_evals += 1;
                            let key = ctx.distinct_key.unwrap_or_else(|| {
                                fnv64(serde_json::to_string(case).unwrap_or_default().as_bytes())
                            });
                            if l.nontrivial.insert(key) && l.samples.len() < 2 {
                                if let Ok(v) = serde_json::to_value(case) {
                                    l.samples.push(truncate_sample(&v));
                                }
                            }
                        }
                        let r = match r {
                            Err(msg) if msg.starts_with("inconclusive:") => {
                                *l.counters.entry("inconclusive_cases".into()).or_insert(0) += 1;
                                if std::env::var("VERIF_DEBUG").is_ok() {
                                    eprintln!("[vf] case {i}: {msg}");
                                }
                                Ok(())
                            }
                            other => other,
                        };
                        if let Err(msg) = r {
                            let known = ctx
                                .signature
                                .as_deref()
                                .map(|s| this.report_known(s))
                                .unwrap_or(false);
                            if known {
                                *l.excluded_known.entry(ctx.signature.clone().unwrap()).or_insert(0) += 1;
                            } else {
                                stop.store(true, Ordering::Relaxed);
                                failures.lock().unwrap().push((i, msg));
                            }
                        }
                    }
                    let mut s = stats.lock().unwrap();
                    merge_stats(&mut s, l);
                });
            }
        });
        let mut st = stats.into_inner().unwrap();
        st.wall_s = t0.elapsed().as_secs_f64();
        if (st.evaluations as usize) < cases.len() {
            st.exhaustive = Some(false);
        }
        let mut fails = failures.into_inner().unwrap();
        fails.sort_by_key(|x| x.0);
        if let Some((i, msg)) = fails.into_iter().next() {
            let path = self.write_replay(name, &cases[i], &msg);
            println!("[{}] sub {name}: FAILED: {msg}", self.property);
            println!("VIOLATION property={} replay={}", self.property, path);
            self.violations.push((name.to_string(), path));
        } else {
            eprintln!(
                "[{}] sub {name}: {} cases (enumerated), {} distinct non-trivial, {:.1}s",
                self.property,
                st.evaluations,
                st.nontrivial.len(),
                st.wall_s
            );
        }
        self.subs.push(st);
    }

    /// Writes the evidence file and exits with the check's exit code.
    pub fn finish(mut self) -> ! {
        if let Mode::Replay { done, sub, .. } = &self.mode {
            if !*done {
                println!(
                    "INCONCLUSIVE property={} reason=replay-sub-not-found sub={sub}",
                    self.property
                );
                std::process::exit(2);
            }
        }
        let wall = self.started.elapsed().as_secs_f64();
        let mut evaluations = 0u64;
        let mut distinct = 0u64;
        let mut samples: Vec<Value> = vec![];
        let mut sub_map = serde_json::Map::new();
        let mut rules: Vec<String> = vec![];
        let mut excluded = serde_json::Map::new();
        for s in &self.subs {
            evaluations += s.evaluations;
            distinct += s.nontrivial.len() as u64;
            for smp in &s.samples {
                if samples.len() < 8 {
                    samples.push(json!({"sub": s.name, "case": smp}));
                }
            }
            if s.samples.is_empty() {
                if let Some(fc) = &s.first_case {
                    samples.push(json!({"sub": s.name, "case": fc, "note": "first case of the sub-check (no non-trivial case was seen)"}));
                }
            }
            rules.push(format!("[{}] {}", s.name, s.rule));
            let mut m = json!({
                "evaluations": s.evaluations,
                "distinct_nontrivial": s.nontrivial.len(),
                "nontrivial_evaluations": s.nontrivial_evals,
                "labels": s.labels,
                "counters": s.counters,
                "wall_s": (s.wall_s * 100.0).round() / 100.0,
            });
            if let Some(e) = s.exhaustive {
                m["exhaustive"] = json!(e);
            }
            if !s.excluded_known.is_empty() {
                m["excluded_known_findings"] = json!(s.excluded_known);
                for (k, v) in &s.excluded_known {
                    let e = excluded.entry(k.clone()).or_insert(json!(0));
                    *e = json!(e.as_u64().unwrap_or(0) + v);
                }
            }
            sub_map.insert(s.name.clone(), m);
            if let Some(n) = s.counters.get("inconclusive_cases") {
                if *n * 50 > s.evaluations.max(1) {
                    self.inconclusive.push(format!("sub {}: {} of {} cases were inconclusive (harness lost control)", s.name, n, s.evaluations));
                }
            }
            // vacuity guard: a sub-check that ran many cases and saw no
            // non-trivial one decided nothing
            if s.evaluations >= 50 && s.nontrivial.is_empty() && self.violations.is_empty() {
                self.inconclusive.push(format!(
                    "sub {}: generator degenerated (0 non-trivial cases out of {})",
                    s.name, s.evaluations
                ));
            }
        }
        let known_printed: Vec<String> = self.known_printed.lock().unwrap().iter().cloned().collect();
        let mut coverage = json!({
            "evaluations": evaluations,
            "distinct_nontrivial": distinct,
            "rule": rules.join(" | "),
            "samples": samples,
            "sub_checks": sub_map,
            "excluded_known_findings": excluded,
            "known_findings_reproduced": known_printed,
            "workers": self.workers(),
        });
        for (k, v) in &self.extra {
            coverage[k] = v.clone();
        }
        let ev = json!({
            "property_id": self.property,
            "tier": self.tier.name(),
            "seed": (self.seed & 0x7fff_ffff_ffff_ffff) as i64,
            "level": self.level,
            "coverage": coverage,
            "assumptions": self.assumptions,
            "wall_s": (wall * 100.0).round() / 100.0,
            "violations": self.violations.len(),
            "inconclusive": self.inconclusive,
        });
        let dir = match std::env::var("VERIF_OUT_DIR") {
            Ok(d) => format!("{d}/evidence"),
            Err(_) => format!("{VERIF_ROOT}/evidence"),
        };
        let _ = std::fs::create_dir_all(&dir);
        let path = std::env::var("VERIF_EVIDENCE_FILE").unwrap_or(format!("{dir}/{}.json", self.property));
        std::fs::write(&path, serde_json::to_string_pretty(&ev).unwrap()).expect("write evidence");
        if !self.violations.is_empty() {
            std::process::exit(1);
        }
        if !self.inconclusive.is_empty() {
            for w in &self.inconclusive {
                println!("INCONCLUSIVE property={} reason={}", self.property, w);
            }
            std::process::exit(2);
        }
        println!(
            "OK property={} tier={} seed={} evaluations={} distinct_nontrivial={} wall_s={:.1}",
            self.property,
            self.tier.name(),
            self.seed,
            evaluations,
            distinct,
            wall
        );
        std::process::exit(0);
    }
}

fn merge_stats(s: &mut SubStats, l: SubStats) {
    s.evaluations += l.evaluations;
    s.nontrivial_evals += l.nontrivial_evals;
    s.nontrivial.extend(l.nontrivial);
    for (k, v) in l.labels {
        *s.labels.entry(k).or_insert(0) += v;
    }
    for (k, v) in l.counters {
        *s.counters.entry(k).or_insert(0) += v;
    }
    for (k, v) in l.excluded_known {
        *s.excluded_known.entry(k).or_insert(0) += v;
    }
    for smp in l.samples {
        if s.samples.len() < 3 {
            s.samples.push(smp);
        }
    }
    if s.first_case.is_none() {
        s.first_case = l.first_case;
    }
}

pub fn panic_msg(p: &Box<dyn std::any::Any + Send>) -> String {
    if let Some(s) = p.downcast_ref::<&str>() {
        s.to_string()
    } else if let Some(s) = p.downcast_ref::<String>() {
        s.clone()
    } else {
        "<non-string panic>".to_string()
    }
}

/// Draws one value from a strategy with a fixed seed (for fixed samples).
pub fn sample_one<S: Strategy>(s: &S, seed: u64) -> S::Value {
    let rng = TestRng::from_seed(RngAlgorithm::ChaCha, &seed_bytes(seed, "sample", "one", 0));
    let mut r = TestRunner::new_with_rng(Config::default(), rng);
    s.new_tree(&mut r).expect("strategy").current()
}

// ---------------------------------------------------------------------------
// Coverage-guided fuzzing bridge: libFuzzer bytes -> proptest strategy -> the same oracle
// ---------------------------------------------------------------------------

/// Generates one case of `strat` from raw bytes (proptest's pass-through RNG consumes the
/// bytes as its random stream) and runs the property closure on it (see [`fuzz_case`]).
pub fn fuzz_one<C, S, F>(data: &[u8], property: &str, sub: &str, strat: &S, f: F)
where
    C: Debug + Serialize,
    S: Strategy<Value = C>,
    F: Fn(&C, &mut CaseCtx) -> Result<(), String>,
{
    // NOTE: upstream proptest's pass-through RNG answers zeros once the bytes are used up (and a
    // forked child gets half of what is left), on which rand 0.9's unbiased integer sampling spins
    // forever; the vf-fuzz workspace therefore builds against a patched copy
    // (harness/fuzz/vendor/proptest-1.11.0, two hunks marked VERIF PATCH) whose stream continues
    // with bytes that are a pure function of (input, position).
    let rng = TestRng::from_seed(RngAlgorithm::PassThrough, data);
    let mut runner = TestRunner::new_with_rng(Config { failure_persistence: None, ..Config::default() }, rng);
    let Ok(tree) = strat.new_tree(&mut runner) else {
        FUZZ.lock().unwrap().undecodable += 1;
        return;
    };
    let case = tree.current();
    fuzz_case(property, sub, &case, f);
}

#[derive(Default)]
struct FuzzStats {
    executions: u64,
    undecodable: u64,
    nontrivial_evals: u64,
    nontrivial: HashSet<u64>,
    distinct: HashSet<u64>,
    known_tolerated: BTreeMap<String, u64>,
    inconclusive: u64,
    labels: BTreeMap<String, u64>,
    samples: Vec<Value>,
}

static FUZZ: std::sync::LazyLock<Mutex<FuzzStats>> = std::sync::LazyLock::new(|| Mutex::new(FuzzStats::default()));

fn fuzz_dump_stats(st: &FuzzStats) {
    let Ok(path) = std::env::var("VF_FUZZ_STATS") else { return };
    let body = json!({
        "executions": st.executions,
        "undecodable_inputs": st.undecodable,
        "distinct_cases": st.distinct.len(),
        "nontrivial_evaluations": st.nontrivial_evals,
        "distinct_nontrivial": st.nontrivial.len(),
        "known_findings_tolerated": st.known_tolerated,
        "inconclusive": st.inconclusive,
        "labels": st.labels,
        "samples": st.samples,
    });
    let tmp = format!("{path}.tmp");
    if std::fs::write(&tmp, serde_json::to_string(&body).unwrap()).is_ok() {
        let _ = std::fs::rename(&tmp, &path);
    }
}

/// One fuzz iteration on an already decoded case, with the SAME closure the generated
/// sub-check `sub` of `property` runs. Counts executions / distinct / non-trivial cases
/// (dumped to $VF_FUZZ_STATS every 100 executions). A violation writes the JSON replay file
/// that `./check <id> replay <file>` accepts, prints the VIOLATION line and aborts (so that
/// libFuzzer also saves its own artifact). Known findings and `inconclusive:` results are
/// tolerated and counted, so that a campaign does not rediscover one failure forever.
pub fn fuzz_case<C, F>(property: &str, sub: &str, case: &C, f: F)
where
    C: Debug + Serialize,
    F: Fn(&C, &mut CaseCtx) -> Result<(), String>,
{
    static KNOWN: std::sync::OnceLock<KnownFindings> = std::sync::OnceLock::new();
    let known = KNOWN.get_or_init(KnownFindings::load);
    let mut ctx = CaseCtx::default();
    let r = catch_unwind(AssertUnwindSafe(|| f(case, &mut ctx)));
    let r = match r {
        Ok(r) => r,
        Err(p) => Err(format!("panic: {}", panic_msg(&p))),
    };
    let case_v = serde_json::to_value(case).unwrap_or(Value::Null);
    let key = ctx.distinct_key.unwrap_or_else(|| fnv64(case_v.to_string().as_bytes()));
    let mut st = FUZZ.lock().unwrap();
    st.executions += 1;
    st.distinct.insert(key);
    for l in &ctx.labels {
        *st.labels.entry(l.clone()).or_insert(0) += 1;
    }
    let mut violation = None;
    match r {
        Ok(()) => {
            if ctx.nontrivial {
                st.nontrivial_evals += 1;
                if st.nontrivial.insert(key) && st.samples.len() < 3 {
                    st.samples.push(case_v.clone());
                }
            }
        }
        Err(msg) if msg.starts_with("inconclusive:") => st.inconclusive += 1,
        Err(msg) => match ctx.signature.as_deref().filter(|s| known.known(property, s).is_some()) {
            Some(sig) => *st.known_tolerated.entry(sig.to_string()).or_insert(0) += 1,
            None => violation = Some(msg),
        },
    }
    if st.executions % 100 == 0 || st.executions == 1 || violation.is_some() {
        fuzz_dump_stats(&st);
    }
    drop(st);
    if let Some(msg) = violation {
        let body = json!({ "property": property, "sub": sub, "seed": 0, "tier": "thorough", "message": msg, "case": case_v, "found_by": "libFuzzer campaign" });
        let txt = serde_json::to_string_pretty(&body).unwrap();
        let dir = match std::env::var("VERIF_OUT_DIR") {
            Ok(d) => format!("{d}/replays"),
            Err(_) => format!("{VERIF_ROOT}/replays"),
        };
        let _ = std::fs::create_dir_all(&dir);
        let path = format!("{dir}/{property}-fuzz-{sub}-{:016x}.json", fnv64(txt.as_bytes()));
        let _ = std::fs::write(&path, txt);
        eprintln!("FUZZ-VIOLATION property={property} sub={sub}: {msg}");
        eprintln!("VIOLATION property={property} replay={path}");
        std::process::abort();
    }
}
