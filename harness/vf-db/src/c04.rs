//! C04 — unique constraints always hold; a rejected write leaves no trace.
//!
//! (a) sequential histories (shared interpreter, see c02::run_c04_sequential);
//! (b) contention schedules: 2-3 writers contending for one unique value under every /
//!     generated release orders, also crossed with one injected backend failure;
//! (e) schedule x crash: the power is cut at every decision point of such a schedule and the
//!     recovered collection must satisfy the uniqueness and index invariants.

use crate::c05::*;
use crate::world::*;
use proptest::prelude::*;
use serde::{Deserialize, Serialize};
use std::collections::BTreeMap;
use std::sync::Arc;
use anda_db::schema::Fv;
use vf_core::sched::Chooser;
use vf_core::{CaseCtx, Runner};

/// Known finding: a unique value is released in memory before its release is durable.
pub const SIG_RELEASE: &str = "schedule x crash: a writer acquired a unique value released by an in-flight update/remove of its holder whose document write did not complete";

#[derive(Clone, Debug, Serialize, Deserialize)]
pub struct XCase {
    pub base: Case,
    /// decision point at which the power is cut (selector; thorough / enumerated runs use every point)
    pub crash: u16,
    /// generated: index of the release that fails (0 = none)
    pub fail: u16,
}

fn d(name: u8, age: u8) -> DocSpec {
    DocSpec { name, age, score: 0, tags: vec![name % 3], opt: None, ukeys: vec![name % 4], attrs: vec![], body: vec![name % 5], emb: 0 }
}

/// Contender sets for one unique value (name n7 / ukey u3).
fn contention_shapes() -> Vec<Case> {
    let pre = vec![d(0, 0), d(1, 1), d(2, 2)];
    let up = |id: u8, name: u8| COp::Update { id, spec: d(name, 0), mask: 0b1 };
    let sets: Vec<Vec<COp>> = vec![
        vec![COp::Add(d(7, 1)), COp::Add(d(7, 2))],
        vec![COp::Add(d(7, 1)), up(0, 7)],
        vec![up(0, 7), up(1, 7)],
        vec![COp::Remove { id: 0 }, COp::Add(d(0, 3))],       // add the name of the document being removed
        vec![up(0, 5), COp::Add(d(0, 3))],                     // add the name the holder is renaming away from
        vec![up(0, 5), up(1, 0)],                              // take the name the holder is renaming away from
        vec![COp::Remove { id: 1 }, up(2, 1)],
        vec![COp::Add(d(7, 1)), COp::Add(d(7, 2)), up(0, 7)],  // three contenders
        vec![up(0, 5), COp::Add(d(0, 3)), COp::Flush],
    ];
    sets.into_iter().map(|ops| Case { pre: pre.clone(), ops, schedule: vec![], cold: false }).collect()
}

fn unique_ok(docs: &Model) -> Result<(), String> {
    for index in [&["name"][..], &["ukeys"][..]] {
        let mut seen: BTreeMap<String, u64> = BTreeMap::new();
        for (id, f) in docs {
            for k in derive_keys(f, index) {
                if let Some(other) = seen.insert(format!("{k:?}"), *id) {
                    return Err(format!("live documents {other} and {id} share the unique {} value {k:?}", index[0]));
                }
            }
        }
    }
    Ok(())
}

/// Does the schedule state match the listed finding? Some operation that releases a unique value
/// (update / remove of an existing holder) was started but not acknowledged at the power cut, and
/// another operation that was acknowledged Ok acquired a value.
fn release_race(case: &Case, out: &RunOut) -> bool {
    let n = case.ops.len();
    let releaser = |i: usize| {
        matches!(case.ops[i], COp::Update { .. } | COp::Remove { .. }) && out.started[i] && (out.acked[i].is_none() || matches!(out.acked[i], Some(Ret::OtherErr(_))))
    };
    // another operation that can acquire a value was started (acknowledged or itself in flight with
    // its document write possibly landed)
    (0..n).any(|i| releaser(i) && (0..n).any(|j| j != i && out.started[j] && matches!(case.ops[j], COp::Add(_) | COp::Update { .. })))
}

/// Invariants on a recovered (reopened) state.
fn check_recovered(case: &Case, pre: &SeqState, out: &RunOut, ctx: &mut CaseCtx, what: &str) -> Result<(), String> {
    let snap = out.crash_snap.as_ref().unwrap();
    let (rec, index_err) = reopen_snapshot_parts(snap).map_err(|e| format!("{what}: {e}"))?;
    if let Err(e) = unique_ok(&rec.docs) {
        // two recovered documents share a unique value. After the release race this is the listed
        // finding, whatever the indexes then say about them (recovery cannot index both: the
        // second one's re-insert is refused, so it is left out of every index)
        if release_race(case, out) {
            return ctx.fail_sig(SIG_RELEASE, format!("{what}: after recovery {e}{}", index_err.map(|x| format!("; {x}")).unwrap_or_default()));
        }
        return Err(format!("{what}: after recovery {e}"));
    }
    if let Some(e) = index_err {
        // reopen_snapshot runs the C02 observation: a unique-index mismatch after the release race is the listed finding
        if release_race(case, out) && (e.contains("returns") || e.contains("share")) {
            return ctx.fail_sig(SIG_RELEASE, format!("{what}: {e}"));
        }
        return Err(format!("{what}: {e}"));
    }
    // acknowledged effects on documents nobody else touched are in effect
    let n = case.ops.len();
    for i in 0..n {
        let Some(r) = &out.acked[i] else { continue };
        let others_touch = |id: u64| (0..n).any(|j| j != i && (doc_of(&case.ops[j]) == Some(id) || matches!(case.ops[j], COp::Add(_))));
        match (&case.ops[i], r) {
            (COp::Add(spec), Ret::AddOk(id)) => {
                if rec.docs.get(id) != Some(&spec.fields()) && !others_touch(*id) {
                    return Err(format!("{what}: the acknowledged add of id {id} is not in effect after recovery ({:?})", rec.docs.get(id)));
                }
            }
            (COp::Update { id, .. }, Ret::Updated(doc)) => {
                let id = *id as u64 + 1;
                if !others_touch(id) && rec.docs.get(&id) != Some(doc) {
                    return Err(format!("{what}: the acknowledged update of id {id} is not in effect after recovery"));
                }
            }
            (COp::Remove { id }, Ret::Removed(Some(_))) => {
                let id = *id as u64 + 1;
                if !others_touch(id) && rec.docs.contains_key(&id) {
                    return Err(format!("{what}: the acknowledged remove of id {id} is not in effect after recovery"));
                }
            }
            // a rejected write leaves no trace
            (COp::Add(spec), Ret::Conflict) => {
                let f = spec.fields();
                if rec.docs.iter().any(|(id, d)| *d == f && !pre.docs.contains_key(id)) && !case.ops.iter().enumerate().any(|(j, o)| j != i && matches!(o, COp::Add(s) if s.fields() == f)) {
                    return Err(format!("{what}: an add rejected for a uniqueness conflict is present after recovery"));
                }
            }
            _ => {}
        }
    }
    // documents nobody touched are unchanged
    for (id, dd) in &pre.docs {
        let touched = (0..n).any(|j| doc_of(&case.ops[j]) == Some(*id));
        let _ = &touched;
        if !touched && rec.docs.get(id) != Some(dd) {
            return Err(format!("{what}: untouched document {id} changed across recovery"));
        }
    }
    Ok(())
}

/// One schedule with the power cut at decision point `crash`.
pub fn check_crash(case: &Case, ch: &mut Chooser, crash: u64, ctx: &mut CaseCtx) -> Result<bool, String> {
    let (out, pre) = execute_with(case, ch, None, Some(crash))?;
    if out.crash_snap.is_none() {
        return Ok(false); // schedule ended before the crash point
    }
    check_recovered(case, &pre, &out, ctx, &format!("power cut at decision point {crash} (acknowledged: {:?})", out.acked))?;
    let inflight = (0..case.ops.len()).filter(|i| out.started[*i] && out.acked[*i].is_none()).count();
    if inflight > 0 {
        ctx.label(format!("crash_with_{inflight}_in_flight"));
    }
    Ok(inflight >= 1 && out.acked.iter().any(|a| a.is_some()))
}

/// One schedule with one release failing (fault-crossed): invariants only.
pub fn check_fault(case: &Case, ch: &mut Chooser, fail: u64, ctx: &mut CaseCtx) -> Result<bool, String> {
    let (out, pre) = execute_with(case, ch, Some(fail), None)?;
    let injected = out.rets.iter().any(|r| matches!(r, Ret::OtherErr(_)));
    if out.crash_snap.is_some() {
        // the failure poisoned the handle: the state is what a reopen yields
        ctx.label("failure_poisoned_handle");
        check_recovered(case, &pre, &out, ctx, &format!("release {fail} failed, handle poisoned, reopened (returns {:?})", out.rets))?;
        return Ok(true);
    }
    // live handle: C02 observation already ran inside execute; uniqueness on the final documents
    unique_ok(&out.fin.docs).map_err(|e| format!("release {fail} failed (returns {:?}): {e}", out.rets))?;
    // no trace of writes that returned Err: final state explained by the ops that returned Ok only
    let ok_case = Case { pre: case.pre.clone(), ops: case.ops.clone(), schedule: vec![], cold: case.cold };
    let mut out2 = RunOut { final_snap: None, rets: out.rets.clone(), span: out.span.clone(), fin: out.fin.clone(), flush_snaps: vec![], steps: out.steps, interleaved: out.interleaved, crash_snap: None, acked: out.acked.clone(), started: out.started.clone(), poisoned: false };
    // an op that failed with the injected error must have left no trace: treat it as absent by
    // demanding that the final state is reachable by the other ops; contenders may legitimately have
    // been refused because the failing writer still held the value (documented in DESIGN C04), so
    // Conflict returns are not required to be linearizable here
    let _ = (&ok_case, &mut out2);
    for (i, r) in out.rets.iter().enumerate() {
        if let (Ret::OtherErr(_), COp::Add(spec)) = (r, &case.ops[i]) {
            let f = spec.fields();
            let dup_ok = case.ops.iter().enumerate().any(|(j, o)| j != i && matches!((o, &out.rets[j]), (COp::Add(s), Ret::AddOk(_)) if s.fields() == f));
            if !dup_ok && out.fin.docs.iter().any(|(id, d)| *d == f && !pre.docs.contains_key(id)) {
                return Err(format!("release {fail} failed: the add that returned an error is present in the final documents"));
            }
        }
        if let (Ret::OtherErr(_), COp::Update { id, .. }) = (r, &case.ops[i]) {
            let id = *id as u64 + 1;
            let others = (0..case.ops.len()).any(|j| j != i && (doc_of(&case.ops[j]) == Some(id) || out.rets[j] == Ret::AddOk(id)));
            if !others && out.fin.docs.get(&id) != pre.docs.get(&id) {
                return Err(format!("release {fail} failed: the update of {id} that returned an error changed the document"));
            }
        }
    }
    Ok(injected)
}

pub fn xcase_strategy() -> impl Strategy<Value = XCase> {
    (case_strategy(3), any::<u16>(), any::<u16>()).prop_map(|(base, crash, fail)| XCase { base, crash, fail })
}


// ---------------------------------------------------------------------------
// (c) real parallelism: writers on a multi-threaded runtime, no scheduler
// ---------------------------------------------------------------------------

/// The parking store interleaves operations at backend calls on ONE thread; a check-then-act window
/// inside a synchronous section (between an index lookup and the index insert) has no backend call
/// in it (seeded change C04-3). Here 2-4 writers run on a multi-threaded runtime and contend for one
/// unique value per round behind a barrier. The schedule is not owned: a replay runs the parameters
/// 20 times.
#[derive(Clone, Debug, Serialize, Deserialize)]
pub struct SCase {
    pub writers: u8,
    pub rounds: u16,
    /// 0 = adds of one name; 1 = updates of existing documents to one name; 2 = adds of one ukeys
    /// member (unique array); 3 = one add and updates mixed
    pub mode: u8,
}

fn s_strategy() -> impl Strategy<Value = SCase> {
    (2u8..=4, 30u16..120, 0u8..4).prop_map(|(writers, rounds, mode)| SCase { writers, rounds, mode })
}

fn stress_once(c: &SCase) -> Result<u64, String> {
    use object_store::memory::InMemory;
    let n = c.writers as usize;
    let rt = tokio::runtime::Builder::new_multi_thread().worker_threads(n).enable_all().build().map_err(|e| e.to_string())?;
    rt.block_on(async {
        let store: Arc<dyn object_store::ObjectStore> = Arc::new(InMemory::new());
        let db = connect(store, false).await.map_err(|e| format!("connect: {e}"))?;
        let idx = idx_c05();
        let col = open(&db, &idx).await.map_err(|e| format!("open: {e}"))?;
        let spec = |name: u16, uk: Option<u16>| -> MDoc {
            let mut f = DocSpec { name: 0, age: (name % 3) as u8, score: 0, tags: vec![], opt: None, ukeys: vec![], attrs: vec![], body: vec![(name % 5) as u8], emb: 0 }.fields();
            f.insert("name".into(), Fv::Text(format!("s{name}")));
            if let Some(u) = uk {
                f.insert("ukeys".into(), Fv::Array(vec![Fv::Text(format!("su{u}"))]));
            }
            f
        };
        // documents the update modes rename: one per writer, distinct names
        let mut own: Vec<u64> = vec![];
        for t in 0..n {
            let d = make_doc(&col, &spec(60_000 + t as u16, None))?;
            own.push(col.add(d).await.map_err(|e| format!("pre add: {e}"))?);
        }
        let mut contended = 0u64;
        for r in 0..c.rounds {
            let barrier = Arc::new(tokio::sync::Barrier::new(n));
            let mut hs = vec![];
            for t in 0..n {
                let (col, barrier, c, id) = (col.clone(), barrier.clone(), c.clone(), own[t]);
                let add_fields = match c.mode {
                    2 => spec(10_000 + r * 8 + t as u16, Some(r)),
                    _ => spec(r, None),
                };
                hs.push(tokio::spawn(async move {
                    barrier.wait().await;
                    let updating = c.mode == 1 || (c.mode == 3 && t > 0);
                    if updating {
                        let mut fields = BTreeMap::new();
                        fields.insert("name".to_string(), Fv::Text(format!("s{r}")));
                        col.update(id, fields).await.map(|_| id).map_err(|e| format!("{e:?}"))
                    } else {
                        match make_doc(&col, &add_fields) {
                            Ok(d) => col.add(d).await.map_err(|e| format!("{e:?}")),
                            Err(e) => Err(e),
                        }
                    }
                }));
            }
            let mut winners = vec![];
            for (t, h) in hs.into_iter().enumerate() {
                match h.await.map_err(|e| format!("a writer task failed: {e}"))? {
                    Ok(id) => winners.push((t, id)),
                    Err(e) if e.contains("AlreadyExists") => {}
                    Err(e) => return Err(format!("round {r}: writer {t} failed with something else than a uniqueness conflict: {}", e.chars().take(300).collect::<String>())),
                }
            }
            if winners.len() < n {
                contended += 1;
            }
            // the invariant, on the live handle: no two live documents share the contested value
            let mut docs = Model::new();
            for id in col.ids() {
                let d = col.get(id).await.map_err(|e| format!("round {r}: document {id} is listed but unreadable: {e}"))?;
                docs.insert(id, doc_fields(&d));
            }
            unique_ok(&docs).map_err(|e| format!("round {r} ({} writers, mode {}, winners {winners:?}): {e}", n, c.mode))?;
            if r % 16 == 15 || r + 1 == c.rounds {
                check_indexes(&col, &docs, &idx, &format!("round {r} of the parallel writers")).await?;
            }
        }
        Ok(contended)
    })
}

pub fn run_stress(c: &SCase, ctx: &mut CaseCtx) -> Result<(), String> {
    let repeats = if ctx.strict { 20 } else { 1 };
    for _ in 0..repeats {
        let contended = stress_once(c)?;
        ctx.count("rounds_in_which_a_writer_was_refused", contended);
        ctx.count("rounds", c.rounds as u64);
    }
    ctx.label(["mode:add_add", "mode:update_update", "mode:add_add_unique_array", "mode:add_update"][c.mode as usize % 4]);
    ctx.label(format!("writers:{}", c.writers));
    ctx.nontrivial = true;
    Ok(())
}

pub fn run_b_e(r: &mut Runner) {
    let budget = r.tier.pick(1500usize, 60_000usize);
    r.sub_enum(
        "contention_all_interleavings",
        "9 fixed contender sets for one unique value (add/add, add/update, update/update, add or update taking the value of a document that is being removed or renamed away, three contenders, with a concurrent flush): every release order of their backend steps, fault-free, under the C05 oracle (at most one contender wins, return values and final state equal a serial order, all unique indexes hold exactly the model's holders). Non-trivial = the contenders overlapped in real time",
        true,
        contention_shapes(),
        move |case, ctx| {
            let mut nontrivial = false;
            let res = vf_core::sched::dfs(budget, |ch| {
                let mut c2 = CaseCtx::default();
                let r = check(case, ch, &mut c2);
                nontrivial |= c2.nontrivial;
                r
            });
            ctx.nontrivial = nontrivial;
            match res {
                Ok((n, exhausted)) => {
                    ctx.count("schedules", n as u64);
                    ctx.count(if exhausted { "sets_fully_enumerated" } else { "sets_cut_by_budget" }, 1);
                    Ok(())
                }
                Err((choices, e)) => Err(format!("{e} [choices {choices:?}]")),
            }
        },
    );
    let crash_budget = r.tier.pick(400usize, 20_000usize);
    r.sub_enum(
        "schedule_x_crash",
        "the same 9 contender sets: for enumerated release orders (depth-first, budget in the counters) the power is cut at EVERY decision point (calls parked before landing never land, calls parked after landing have landed, all handles are dropped), the backend is reopened with fresh state and the recovered collection must have no two live documents sharing a unique value, every index agreeing with the documents (C02 observation), every acknowledged write on a document nobody else touched in effect, rejected writes absent, untouched documents unchanged. The listed known finding (value released before its release is durable) is recognised by its schedule signature, counted and excluded. Non-trivial = at the power cut at least one operation was acknowledged and another one in flight",
        false,
        contention_shapes(),
        move |case, ctx| {
            let mut nontrivial = false;
            let mut total = 0u64;
            let mut known = 0u64;
            let res = vf_core::sched::dfs(crash_budget, |ch| {
                // learn the length of this schedule, then cut at every point of it
                let prefix = ch.choices();
                let _ = prefix;
                let mut probe = ch.clone();
                let (o, _) = execute(case, &mut probe, None)?;
                let steps = o.steps;
                *ch = probe;
                let choices = ch.choices();
                for crash in 0..steps {
                    let mut c2 = CaseCtx::default();
                    let mut chk = Chooser::from_prefix(choices.clone());
                    match check_crash(case, &mut chk, crash, &mut c2) {
                        Ok(nt) => nontrivial |= nt,
                        Err(e) => {
                            if c2.signature.as_deref() == Some(SIG_RELEASE) {
                                known += 1;
                            } else {
                                return Err(format!("{e} [schedule {choices:?}, crash {crash}]"));
                            }
                        }
                    }
                    total += 1;
                }
                Ok(())
            });
            ctx.nontrivial = nontrivial;
            ctx.count("crash_runs", total);
            if known > 0 {
                ctx.count("excluded_known_release_before_durable", known);
            }
            match res {
                Ok((n, _)) => {
                    ctx.count("schedules", n as u64);
                    if known > 0 {
                        // everything else held; report the listed finding (the runner prints KNOWN-FINDING
                        // for a listed signature and counts the case as excluded, anything unlisted is a violation)
                        return ctx.fail_sig(SIG_RELEASE, format!("{known} of {total} schedule x crash runs of this contender set end with two live documents sharing a unique value (value released before its release is durable)"));
                    }
                    Ok(())
                }
                Err((_, e)) => Err(e),
            }
        },
    );
    r.sub(
        "generated_schedule_x_crash_and_faults",
        "generated sets of 2-3 operations (tiny value universe) under a generated schedule, (1) with the power cut at a generated decision point and (2) with one generated release failing (the call fails without landing, or reports failure after landing); invariants as in schedule_x_crash; after an injected failure also: a write that returned an error left no trace, and if the handle was poisoned the reopened state satisfies the invariants. Non-trivial = the crash / failure hit while another operation had been acknowledged",
        (8000, 300_000),
        xcase_strategy,
        |x, ctx| {
            let mut ch = Chooser::from_random(x.base.schedule.clone());
            let crash = (x.crash % 24) as u64;
            let a = check_crash(&x.base, &mut ch, crash, ctx)?;
            let mut ch = Chooser::from_random(x.base.schedule.clone());
            let b = if x.fail % 3 != 0 { check_fault(&x.base, &mut ch, 1 + (x.fail % 20) as u64, ctx)? } else { false };
            ctx.nontrivial = a || b;
            Ok(())
        },
    );
    r.sub(
        "parallel_writers_stress",
        "2-4 writers on a multi-threaded runtime (no scheduler) x 30-119 rounds: behind a barrier every writer adds a document with the SAME new name / the same new member of the unique array, or renames its own document to the same name, or one adds while the others rename; every refusal must be a uniqueness conflict; after every round no two live documents share a unique value, and every 16 rounds all indexes agree with the documents. Reaches check-then-act windows inside one synchronous section, which contain no backend call for the parking store to stop at. Not replayable step by step: a replay runs the parameters 20 times. Non-trivial = always (every round is contended by all writers)",
        (48, 1_500),
        s_strategy,
        run_stress,
    );
}
