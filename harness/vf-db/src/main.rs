//! vf-db: collection-level checks (C01-C06).

use vf_core::Runner;
use vf_db::*;

fn main() {
    let prop = std::env::args().nth(1).unwrap_or_default();
    match prop.as_str() {
        "probe" => probe(),
        "C01" => {
            let mut r = Runner::from_env("C01", "fault_enumeration");
            c01::run(&mut r);
            r.finish();
        }
        "C03" => {
            let mut r = Runner::from_env("C03", "exploration");
            c03::run(&mut r);
            r.finish();
        }
        "C04" => {
            let mut r = Runner::from_env("C04", "exploration");
            c02::run_c04_sequential(&mut r);
            c04::run_b_e(&mut r);
            r.finish();
        }
        "C05" => {
            let mut r = Runner::from_env("C05", "exploration");
            c05::run(&mut r);
            r.finish();
        }
        "C06" => {
            let mut r = Runner::from_env("C06", "exploration");
            c06::run(&mut r);
            r.finish();
        }
        "C02" => {
            let mut r = Runner::from_env("C02", "exploration");
            c02::run_c02(&mut r);
            r.finish();
        }
        other => {
            eprintln!("usage: vf-db <C01..C06> <quick|thorough|replay FILE> (got {other:?})");
            std::process::exit(2);
        }
    }
    let _ = Runner::from_env;
}

fn probe() {
    use world::*;
    vf_core::block_on(async {
        install_clocks(1_700_000_000_000);
        let be = Backend::new(BackendKind::Meta);
        let db = connect(be.store(), false).await.unwrap();
        let idx = IndexSet::all();
        let col = open(&db, &idx).await.unwrap();
        let spec = DocSpec { name: 1, age: 2, score: -1, tags: vec![1, 1, 2], opt: None, ukeys: vec![3], attrs: vec![(1, 2)], body: vec![0, 1], emb: 9 };
        let f = spec.fields();
        let d = make_doc(&col, &f).unwrap();
        let id = col.add(d).await.unwrap();
        println!("added {id}");
        let got = col.get(id).await.unwrap();
        println!("read back == written: {}", doc_fields(&got) == f);
        println!("{:?}", doc_fields(&got));
        let mut model = Model::new();
        model.insert(id, f.clone());
        println!("check: {:?}", check_indexes(&col, &model, &idx, "probe").await);
        // duplicate unique
        let d2 = make_doc(&col, &f).unwrap();
        println!("dup add: {:?}", col.add(d2).await.map_err(|e| e.to_string()));
        println!("check after rejected: {:?}", check_indexes(&col, &model, &idx, "probe").await);
        println!("mutations so far: {}", be.ctl.mutation_count());
        col.flush(anda_db::unix_ms()).await.unwrap();
        println!("mutations after flush: {}", be.ctl.mutation_count());
        db.close().await.unwrap();
        let db = connect(be.store(), false).await.unwrap();
        let col = open(&db, &idx).await.unwrap();
        println!("check after reopen: {:?}", check_indexes(&col, &model, &idx, "probe").await);
    });
}
