fn main() {
    eprintln!("vf-db: not built yet");
    std::process::exit(2);
}
