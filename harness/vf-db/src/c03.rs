//! C03 — filters follow set algebra; a bounded page is an end of the full result.

use crate::world::*;
use anda_db::collection::Collection;
use anda_db::query::{Filter, Query, RangeQuery, Search};
use anda_db::schema::Fv;
use proptest::prelude::*;
use serde::{Deserialize, Serialize};
use std::collections::{BTreeMap, BTreeSet};
use vf_core::{CaseCtx, Runner};

/// index selector: 0 = _id, 1 = name, 2 = age, 3 = score, 4 = tags, 5 = opt, 6 = ukeys, 7 = attrs
const INDEXES: [&str; 8] = ["_id", "name", "age", "score", "tags", "opt", "ukeys", "attrs"];

#[derive(Clone, Debug, Serialize, Deserialize)]
pub enum RQ {
    Eq(u8),
    Gt(u8),
    Ge(u8),
    Lt(u8),
    Le(u8),
    Between(u8, u8),
    Include(Vec<u8>),
    Or(Vec<RQ>),
    And(Vec<RQ>),
    Not(Box<RQ>),
}

#[derive(Clone, Debug, Serialize, Deserialize)]
pub enum F {
    Field(u8, RQ),
    Or(Vec<F>),
    And(Vec<F>),
    Not(Box<F>),
}

fn rq_strategy() -> impl Strategy<Value = RQ> {
    let k = 0u8..16;
    let leaf = prop_oneof![
        3 => k.clone().prop_map(RQ::Eq),
        2 => k.clone().prop_map(RQ::Gt),
        2 => k.clone().prop_map(RQ::Ge),
        2 => k.clone().prop_map(RQ::Lt),
        2 => k.clone().prop_map(RQ::Le),
        2 => (k.clone(), k.clone()).prop_map(|(a, b)| RQ::Between(a, b)),
        2 => prop::collection::vec(k.clone(), 0..5).prop_map(RQ::Include),
    ];
    leaf.prop_recursive(3, 10, 3, |inner| {
        prop_oneof![
            12 => prop::collection::vec(inner.clone(), 0..4).prop_map(RQ::Or),
            // an empty And is answered with the empty set by the code; the statement does not define
            // the empty intersection, so it is generated rarely and only checked for self-consistency
            12 => prop::collection::vec(inner.clone(), 1..4).prop_map(RQ::And),
            10 => inner.clone().prop_map(|q| RQ::Not(Box::new(q))),
            1 => Just(RQ::And(vec![])),
        ]
    })
}

fn f_strategy() -> impl Strategy<Value = F> {
    let leaf = || (0u8..8, rq_strategy()).prop_map(|(i, q)| F::Field(i, q));
    let tree = leaf().prop_recursive(4, 14, 3, |inner| {
        prop_oneof![
            12 => prop::collection::vec(inner.clone(), 0..4).prop_map(F::Or),
            12 => prop::collection::vec(inner.clone(), 1..4).prop_map(F::And),
            9 => inner.clone().prop_map(|q| F::Not(Box::new(q))),
            1 => Just(F::And(vec![])),
        ]
    });
    prop_oneof![3 => leaf(), 7 => tree]
}

#[derive(Clone, Debug, Serialize, Deserialize)]
pub struct Case {
    pub docs: Vec<DocSpec>,
    pub removed: Vec<u16>,
    pub filters: Vec<F>,
    pub limits: Vec<u8>,
    /// searches: (text word, use vector, logical) combined with each filter
    pub searches: Vec<(Option<u8>, Option<u8>, bool)>,
    /// > 0: that many synthetic documents are added first, under an index set without the unique
    /// indexes (a collection larger than Collection::MAX_SEARCH_LIMIT; filters over the unique
    /// fields are redirected to `age` / `tags`)
    #[serde(default)]
    pub large: u16,
}

pub fn case_strategy() -> impl Strategy<Value = Case> {
    (
        prop::collection::vec(DocSpec::strategy(), 0..60),
        prop::collection::vec(any::<u16>(), 0..8),
        prop::collection::vec(f_strategy(), 6..14),
        prop::collection::vec(0u8..44, 4..7),
        prop::collection::vec((prop::option::of(0u8..10), prop::option::of(any::<u8>()), any::<bool>()), 0..3),
    )
        .prop_map(|(docs, removed, filters, limits, searches)| Case { docs, removed, filters, limits, searches, large: 0 })
}

/// Collections beyond the documented page bound: 1001-1300 synthetic documents plus generated ones.
pub fn large_case_strategy() -> impl Strategy<Value = Case> {
    (
        1001u16..1300,
        prop::collection::vec(DocSpec::strategy(), 0..20),
        prop::collection::vec(any::<u16>(), 0..8),
        prop::collection::vec(f_strategy(), 4..8),
        prop::collection::vec(0u8..44, 2..4),
    )
        .prop_map(|(large, docs, removed, filters, limits)| Case { docs, removed, filters: filters.iter().map(remap_large).collect(), limits, searches: vec![], large })
}

/// Without the unique indexes: filters over `name` go to `age`, over `ukeys` to `tags`.
fn remap_large(f: &F) -> F {
    match f {
        F::Field(i, q) => F::Field(
            match *i % 8 {
                1 => 2,
                6 => 4,
                x => x,
            },
            q.clone(),
        ),
        F::Or(v) => F::Or(v.iter().map(remap_large).collect()),
        F::And(v) => F::And(v.iter().map(remap_large).collect()),
        F::Not(x) => F::Not(Box::new(remap_large(x))),
    }
}

fn synthetic(i: u16) -> DocSpec {
    DocSpec {
        name: (i % 14) as u8,
        age: ((i / 3) % 5) as u8,
        score: ((i % 9) as i8) - 4,
        tags: vec![(i % 8) as u8, ((i / 8) % 8) as u8],
        opt: if i % 3 == 0 { None } else { Some((i % 7) as u8) },
        ukeys: vec![],
        attrs: vec![((i % 7) as u8, 1)],
        body: vec![(i % 10) as u8],
        emb: (i % 100) as u8,
    }
}

fn key_of(index: u8, k: u8) -> Fv {
    match index {
        0 => Fv::U64(k as u64 * 3),
        1 => Fv::Text(format!("n{}", k)),
        2 => Fv::U64((k % 7) as u64),
        3 => Fv::I64((k % 9) as i64 - 4),
        4 => Fv::Text(format!("t{}", k % 8)),
        5 => Fv::U64((k % 7) as u64),
        6 => Fv::Text(format!("u{}", k % 10)),
        _ => Fv::Text(format!("a{}", k % 7)),
    }
}

fn to_rq(index: u8, q: &RQ) -> RangeQuery<Fv> {
    match q {
        RQ::Eq(a) => RangeQuery::Eq(key_of(index, *a)),
        RQ::Gt(a) => RangeQuery::Gt(key_of(index, *a)),
        RQ::Ge(a) => RangeQuery::Ge(key_of(index, *a)),
        RQ::Lt(a) => RangeQuery::Lt(key_of(index, *a)),
        RQ::Le(a) => RangeQuery::Le(key_of(index, *a)),
        RQ::Between(a, b) => RangeQuery::Between(key_of(index, *a), key_of(index, *b)),
        RQ::Include(v) => RangeQuery::Include(v.iter().map(|a| key_of(index, *a)).collect()),
        RQ::Or(v) => RangeQuery::Or(v.iter().map(|q| Box::new(to_rq(index, q))).collect()),
        RQ::And(v) => RangeQuery::And(v.iter().map(|q| Box::new(to_rq(index, q))).collect()),
        RQ::Not(q) => RangeQuery::Not(Box::new(to_rq(index, q))),
    }
}

fn to_filter(f: &F) -> Filter {
    match f {
        F::Field(i, q) => Filter::Field((INDEXES[*i as usize % 8].to_string(), to_rq(*i % 8, q))),
        F::Or(v) => Filter::Or(v.iter().map(|x| Box::new(to_filter(x))).collect()),
        F::And(v) => Filter::And(v.iter().map(|x| Box::new(to_filter(x))).collect()),
        F::Not(x) => Filter::Not(Box::new(to_filter(x))),
    }
}

fn has_empty_and_rq(q: &RQ) -> bool {
    match q {
        RQ::And(v) => v.is_empty() || v.iter().any(has_empty_and_rq),
        RQ::Or(v) => v.iter().any(has_empty_and_rq),
        RQ::Not(x) => has_empty_and_rq(x),
        _ => false,
    }
}

fn has_empty_and(f: &F) -> bool {
    match f {
        F::Field(_, q) => has_empty_and_rq(q),
        F::And(v) => v.is_empty() || v.iter().any(has_empty_and),
        F::Or(v) => v.iter().any(has_empty_and),
        F::Not(x) => has_empty_and(x),
    }
}

/// total order of keys of one index (all keys of an index have one variant)
fn cmp_fv(a: &Fv, b: &Fv) -> std::cmp::Ordering {
    match (a, b) {
        (Fv::U64(x), Fv::U64(y)) => x.cmp(y),
        (Fv::I64(x), Fv::I64(y)) => x.cmp(y),
        (Fv::Text(x), Fv::Text(y)) => x.cmp(y),
        _ => format!("{a:?}").cmp(&format!("{b:?}")),
    }
}

/// Range-level set algebra over the indexed keys of one index.
fn eval_keys(index: u8, q: &RQ, keys: &Vec<Fv>) -> Vec<Fv> {
    use std::cmp::Ordering::*;
    let sel = |p: &dyn Fn(&Fv) -> bool| -> Vec<Fv> { keys.iter().filter(|k| p(k)).cloned().collect() };
    match q {
        RQ::Eq(a) => sel(&|k| cmp_fv(k, &key_of(index, *a)) == Equal),
        RQ::Gt(a) => sel(&|k| cmp_fv(k, &key_of(index, *a)) == Greater),
        RQ::Ge(a) => sel(&|k| cmp_fv(k, &key_of(index, *a)) != Less),
        RQ::Lt(a) => sel(&|k| cmp_fv(k, &key_of(index, *a)) == Less),
        RQ::Le(a) => sel(&|k| cmp_fv(k, &key_of(index, *a)) != Greater),
        RQ::Between(a, b) => sel(&|k| cmp_fv(k, &key_of(index, *a)) != Less && cmp_fv(k, &key_of(index, *b)) != Greater),
        RQ::Include(v) => sel(&|k| v.iter().any(|a| cmp_fv(k, &key_of(index, *a)) == Equal)),
        RQ::Or(v) => {
            let mut out: Vec<Fv> = vec![];
            for x in v {
                for k in eval_keys(index, x, keys) {
                    if !out.contains(&k) {
                        out.push(k);
                    }
                }
            }
            out
        }
        RQ::And(v) => {
            let mut it = v.iter();
            let Some(first) = it.next() else { return vec![] };
            let mut acc = eval_keys(index, first, keys);
            for x in it {
                let s = eval_keys(index, x, keys);
                acc.retain(|k| s.contains(k));
            }
            acc
        }
        RQ::Not(x) => {
            let s = eval_keys(index, x, keys);
            keys.iter().filter(|k| !s.contains(k)).cloned().collect()
        }
    }
}

fn doc_keys(index: u8, id: u64, f: &MDoc) -> Vec<Fv> {
    if index == 0 { vec![Fv::U64(id)] } else { derive_keys(f, &[INDEXES[index as usize]]) }
}

fn eval(f: &F, model: &Model) -> BTreeSet<u64> {
    match f {
        F::Field(i, q) => {
            let index = *i % 8;
            let mut keys: Vec<Fv> = vec![];
            for (id, d) in model {
                for k in doc_keys(index, *id, d) {
                    if !keys.contains(&k) {
                        keys.push(k);
                    }
                }
            }
            let hit = eval_keys(index, q, &keys);
            model.iter().filter(|(id, d)| doc_keys(index, **id, d).iter().any(|k| hit.contains(k))).map(|(id, _)| *id).collect()
        }
        F::Or(v) => v.iter().flat_map(|x| eval(x, model)).collect(),
        F::And(v) => {
            let mut it = v.iter();
            let Some(first) = it.next() else { return BTreeSet::new() };
            let mut acc = eval(first, model);
            for x in it {
                let s = eval(x, model);
                acc = acc.intersection(&s).cloned().collect();
            }
            acc
        }
        F::Not(x) => {
            let s = eval(x, model);
            model.keys().filter(|id| !s.contains(id)).cloned().collect()
        }
    }
}

fn root_label(f: &F) -> &'static str {
    match f {
        F::Field(0, _) => "root:_id",
        F::Field(..) => "root:bare_field",
        F::And(_) => "root:and",
        F::Or(_) => "root:or",
        F::Not(_) => "root:not",
    }
}

/// Signature of the repaired bare-Field paging defect.
const SIG_BARE: &str = "bare Field filter over a B-tree index, 0 < limit < |match|: page taken in key order";

async fn build(case: &Case) -> Result<(Sys2, Model), String> {
    install_clocks(1_700_000_000_000);
    let be = Backend::new(BackendKind::Plain);
    let db = connect(be.store(), false).await.map_err(|e| e.to_string())?;
    let idx = if case.large > 0 { IndexSet { name: false, ukeys: false, pair: false, ..IndexSet::all() } } else { IndexSet::all() };
    let col = open(&db, &idx).await.map_err(|e| e.to_string())?;
    let mut model = Model::new();
    let synth: Vec<DocSpec> = (0..case.large).map(synthetic).collect();
    for spec in synth.iter().chain(case.docs.iter()) {
        let f = spec.fields();
        if unique_conflict(&model, &idx, None, &f) {
            continue;
        }
        let d = make_doc(&col, &f)?;
        let id = col.add(d).await.map_err(|e| format!("add failed: {e}"))?;
        model.insert(id, f);
    }
    for r in &case.removed {
        if let Some(id) = crate::hist::live_id(&model, *r) {
            col.remove(id).await.map_err(|e| format!("remove failed: {e}"))?;
            model.remove(&id);
        }
    }
    Ok((Sys2 { _be: be, _db: db, col }, model))
}

pub struct Sys2 {
    _be: Backend,
    _db: anda_db::database::AndaDB,
    pub col: std::sync::Arc<Collection>,
}

pub fn run_case(case: &Case, ctx: &mut CaseCtx) -> Result<(), String> {
    vf_core::block_on(async {
        let (sys, model) = build(case).await?;
        let col = &sys.col;
        let n = model.len();
        let mut nontrivial = false;
        let mut large_hit = false;
        for (fi, f) in case.filters.iter().enumerate() {
            let filter = to_filter(f);
            if filter.validate_complexity().is_err() {
                continue;
            }
            let undefined = has_empty_and(f);
            let all = col.query_all_ids(filter.clone()).await.map_err(|e| format!("filter {fi} {f:?}: query_all_ids failed: {e}"))?;
            // ascending, no duplicates
            if all.windows(2).any(|w| w[0] >= w[1]) {
                return Err(format!("filter {fi} {f:?}: query_all_ids = {all:?} is not strictly ascending"));
            }
            let want: Vec<u64> = if undefined { all.clone() } else { eval(f, &model).into_iter().collect() };
            if all != want {
                let clip = |v: &Vec<u64>| if v.len() > 40 { format!("{} ids, first {:?} .. last {:?}", v.len(), &v[..5], &v[v.len() - 5..]) } else { format!("{v:?}") };
                return Err(format!("filter {fi} {f:?}: query_all_ids = {}, set-algebra reading over the live documents = {}", clip(&all), clip(&want)));
            }
            if case.large > 0 && all.len() > Collection::MAX_SEARCH_LIMIT {
                ctx.count("filters_matching_more_than_the_page_bound", 1);
                large_hit = true;
            }
            if undefined {
                ctx.count("filters_with_empty_and_self_consistency_only", 1);
            }
            ctx.label(root_label(f));
            // bounded pages: both ends, every generated limit
            let mut limits: Vec<Option<usize>> = case.limits.iter().map(|l| Some(*l as usize)).collect();
            limits.push(None);
            limits.push(Some(0));
            limits.push(Some(1));
            limits.push(Some(n + 1));
            limits.push(Some(Collection::MAX_SEARCH_LIMIT + 1));
            for l in limits {
                let eff = match l {
                    None => Collection::MAX_SEARCH_LIMIT,
                    Some(x) => x.min(Collection::MAX_SEARCH_LIMIT),
                };
                let first = col.query_ids(filter.clone(), l).await.map_err(|e| format!("filter {fi}: query_ids failed: {e}"))?;
                let last = col.query_last_ids(filter.clone(), l).await.map_err(|e| format!("filter {fi}: query_last_ids failed: {e}"))?;
                let wf: Vec<u64> = want.iter().take(eff).cloned().collect();
                let wl: Vec<u64> = want.iter().skip(want.len().saturating_sub(eff)).cloned().collect();
                let bare = matches!(f, F::Field(i, _) if *i % 8 != 0);
                if first != wf {
                    let msg = format!("filter {fi} {f:?}: query_ids(limit {l:?}) = {first:?}, the first {eff} of the full ascending result {want:?} are {wf:?}");
                    if bare && eff > 0 && eff < want.len() {
                        return ctx.fail_sig(SIG_BARE, msg);
                    }
                    return Err(msg);
                }
                if last != wl {
                    let msg = format!("filter {fi} {f:?}: query_last_ids(limit {l:?}) = {last:?}, the last {eff} of the full ascending result {want:?} are {wl:?}");
                    if bare && eff > 0 && eff < want.len() {
                        return ctx.fail_sig(SIG_BARE, msg);
                    }
                    return Err(msg);
                }
                if want.len() >= 2 && eff > 0 && eff < want.len() && !undefined {
                    // key order differs from id order on the matched set?
                    nontrivial = true;
                    ctx.count("bounded_pages_checked", 1);
                }
            }
            // equivalent rewrites return equal results from all three entry points
            if !undefined {
                let rewrites: Vec<(&str, Filter)> = vec![
                    ("And[f]", Filter::And(vec![Box::new(filter.clone())])),
                    ("Not(Not f)", Filter::Not(Box::new(Filter::Not(Box::new(filter.clone()))))),
                    ("Or[f, f]", Filter::Or(vec![Box::new(filter.clone()), Box::new(filter.clone())])),
                ];
                for (name, g) in rewrites {
                    if g.validate_complexity().is_err() {
                        continue;
                    }
                    let a = col.query_all_ids(g.clone()).await.map_err(|e| format!("rewrite {name} failed: {e}"))?;
                    if a != all {
                        return Err(format!("filter {fi} {f:?}: the equivalent {name} returns {a:?}, the filter itself {all:?}"));
                    }
                    for l in [1usize, 2, 3] {
                        let p = col.query_ids(g.clone(), Some(l)).await.map_err(|e| e.to_string())?;
                        let q = col.query_last_ids(g.clone(), Some(l)).await.map_err(|e| e.to_string())?;
                        let wf: Vec<u64> = want.iter().take(l).cloned().collect();
                        let wl: Vec<u64> = want.iter().skip(want.len().saturating_sub(l)).cloned().collect();
                        if p != wf || q != wl {
                            return Err(format!("filter {fi} {f:?}: the equivalent {name} pages differently: first {l} = {p:?} (expected {wf:?}), last {l} = {q:?} (expected {wl:?})"));
                        }
                    }
                }
            }
            // search restricted by the filter
            if !undefined && n > 0 {
                for (text, vecsel, logical) in &case.searches {
                    if text.is_none() && vecsel.is_none() {
                        continue;
                    }
                    let search = Search {
                        text: text.map(|w| WORDS[w as usize % WORDS.len()].to_string()),
                        vector: vecsel.map(emb_of),
                        logical_search: *logical,
                        ..Default::default()
                    };
                    // the complete candidate ranking (candidate breadth 10*(n+1) >= n)
                    let c = col
                        .search_ids(Query { search: Some(search.clone()), filter: None, limit: Some(n + 1) })
                        .await
                        .map_err(|e| format!("search {search:?} failed: {e}"))?;
                    let m: BTreeSet<u64> = want.iter().cloned().collect();
                    let lmin = n.div_ceil(10).max(1);
                    for l in [lmin, lmin + 1, n + 1] {
                        let got = col
                            .search_ids(Query { search: Some(search.clone()), filter: Some(filter.clone()), limit: Some(l) })
                            .await
                            .map_err(|e| format!("search {search:?} with filter {fi} failed: {e}"))?;
                        let exp: Vec<u64> = c.iter().filter(|id| m.contains(id)).take(l).cloned().collect();
                        if got != exp {
                            return Err(format!(
                                "search {search:?} with filter {fi} {f:?}, limit {l}: returned {got:?}; the relevance-ordered candidates {c:?} restricted to the filter's match set {want:?} give {exp:?}"
                            ));
                        }
                        if exp.len() >= 2 && exp.len() < c.len() {
                            ctx.count("filtered_searches_nontrivial", 1);
                        }
                    }
                }
            }
        }
        ctx.nontrivial = if case.large > 0 { large_hit } else { nontrivial };
        ctx.count("filters", case.filters.len() as u64);
        Ok(())
    })
}

fn regression_cases() -> Vec<Case> {
    // ages 50,10,30,20,40 for ids 1..5 -> keys uncorrelated with ids; bare Field vs And-wrapped
    let mk = |name: u8, age: u8| DocSpec { name, age, score: (name as i8 % 7) - 3, tags: vec![], opt: None, ukeys: vec![], attrs: vec![], body: vec![name % 10], emb: name };
    vec![Case {
        docs: vec![mk(5, 4), mk(1, 0), mk(3, 2), mk(2, 1), mk(4, 3)],
        removed: vec![],
        filters: vec![F::Field(2, RQ::Ge(0)), F::And(vec![F::Field(2, RQ::Ge(0))]), F::Field(1, RQ::Ge(0)), F::Field(3, RQ::Le(15))],
        limits: vec![1, 2, 3],
        searches: vec![],
        large: 0,
    }]
}

pub fn run(r: &mut Runner) {
    r.assume("range-level Not is the complement over the indexed keys, filter-level Not the complement over the collection (as the statement says); trees containing an empty And get the self-consistency oracle only (the statement does not define the empty intersection)");
    r.sub_enum(
        "regressions",
        "fixed input of the repaired defect: 5 documents whose indexed keys are not correlated with their ids, bare Field filter with limit 1..3 at both ends; non-trivial = always",
        true,
        regression_cases(),
        |c, ctx| {
            let r = run_case(c, ctx);
            ctx.nontrivial = true;
            r
        },
    );
    r.sub(
        "filter_trees",
        "generated collections (0-39 documents added in generated order, so ids are not correlated with keys; duplicates, arrays, map keys, Null/absent values; up to 8 removals leaving holes) x 6-13 generated filter trees (Filter::{Field, And, Or, Not} depth <= 4 over _id and 7 B-tree indexes incl. unique, array, optional and map-keyed ones; RangeQuery::{Eq, Gt, Ge, Lt, Le, Between incl. inverted, Include incl. duplicates and empty, And, Or, Not} depth <= 3) x limits {None, 0, 1, generated, n+1, MAX+1} x both entry points. Oracle: query_all_ids == the harness's own set-algebra evaluation (ascending, duplicate-free); query_ids / query_last_ids == the first / last min(limit, MAX) of it; And[f], Not(Not f), Or[f,f] return and page identically; search_ids(text and/or vector, filter, l) == the relevance-ordered complete candidate list restricted to the match set, first l. Non-trivial = a bounded page with 0 < limit < |match| and |match| >= 2",
        (12_000, 400_000),
        case_strategy,
        run_case,
    );
    r.sub(
        "large_collections",
        "collections LARGER than the documented page bound (Collection::MAX_SEARCH_LIMIT = 1000): 1001-1299 synthetic documents plus 0-19 generated ones and up to 8 removals, under the index set without the unique indexes, x 4-7 generated filter trees (filters over the unique fields redirected to age / tags) x limits {None, 0, 1, generated, n+1, MAX+1} x both entry points; same oracle: query_all_ids is the complete match set however large, a bounded or unbounded page is the first / last min(limit, MAX) of it. Non-trivial = some filter matched more than MAX documents",
        (12, 300),
        large_case_strategy,
        |c, ctx| {
            let r = run_case(c, ctx);
            r
        },
    );
}
