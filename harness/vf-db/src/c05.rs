//! C05 — concurrent writers serialize: nothing lost, nothing doubled, state converges.
//!
//! T4: 2-4 operations run as tasks on a single-threaded executor over a
//! ParkStore; every backend mutation parks before and after it lands and the
//! explorer releases parked calls in an enumerated (2 ops) or generated order.
//! Oracle: Wing-Gong search for a sequential order of the model that explains
//! every return value and the final state.

use crate::hist::{FIELDS, merged};
use crate::world::*;
use anda_db::collection::Collection;
use anda_db::error::DBError;
use anda_db::query::{Filter, RangeQuery};
use anda_db::schema::Fv;
use object_store::ObjectStore;
use object_store::memory::InMemory;
use proptest::prelude::*;
use serde::{Deserialize, Serialize};
use std::collections::{BTreeMap, BTreeSet};
use std::sync::Arc;
use std::sync::atomic::{AtomicU64, Ordering};
use vf_core::sched::{Chooser, Hub, OP_ID, ParkStore, Phase};
use vf_core::{CaseCtx, Runner};

#[derive(Clone, Debug, Serialize, Deserialize, PartialEq)]
pub enum COp {
    Add(DocSpec),
    Update { id: u8, spec: DocSpec, mask: u16 },
    Remove { id: u8 },
    SaveExt { k: u8, v: u8 },
    RemoveExt { k: u8 },
    /// the synchronous `set_extension` ("persisted on the next flush()"): takes no gate lease, so
    /// it can land while a flush is in flight
    SetExt { k: u8, v: u8 },
    Flush,
    Get { id: u8 },
    QueryAge { age: u8 },
}

#[derive(Clone, Debug, Serialize, Deserialize)]
pub struct Case {
    pub pre: Vec<DocSpec>,
    pub ops: Vec<COp>,
    pub schedule: Vec<u16>,
    /// the operations run on a handle reopened after the pre-population (cold read cache), and
    /// the backend reads of the reader operations (Get / QueryAge) are decision points of their
    /// own: a read may land before a writer's put and be delivered after it
    #[serde(default)]
    pub cold: bool,
}

pub fn idx_c05() -> IndexSet {
    IndexSet { name: true, age: true, score: false, tags: true, opt: false, ukeys: true, attrs: false, pair: false, body: true, emb: false }
}

fn small_spec() -> impl Strategy<Value = DocSpec> {
    (0u8..5, 0u8..3, prop::collection::vec(0u8..3, 0..3), prop::collection::vec(0u8..3, 0..2), prop::collection::vec(0u8..5, 1..3)).prop_map(|(name, age, tags, ukeys, body)| DocSpec {
        name,
        age,
        score: 0,
        tags,
        opt: None,
        ukeys,
        attrs: vec![],
        body,
        emb: 0,
    })
}

fn cop_strategy() -> impl Strategy<Value = COp> {
    prop_oneof![
        5 => small_spec().prop_map(COp::Add),
        6 => (0u8..4, small_spec(), 1u16..512).prop_map(|(id, spec, mask)| COp::Update { id, spec, mask }),
        4 => (0u8..4).prop_map(|id| COp::Remove { id }),
        1 => (0u8..2, any::<u8>()).prop_map(|(k, v)| COp::SaveExt { k, v }),
        1 => (0u8..2).prop_map(|k| COp::RemoveExt { k }),
        2 => (0u8..2, any::<u8>()).prop_map(|(k, v)| COp::SetExt { k, v }),
        2 => Just(COp::Flush),
        2 => (0u8..4).prop_map(|id| COp::Get { id }),
        1 => (0u8..3).prop_map(|age| COp::QueryAge { age }),
    ]
}

pub fn case_strategy(max_ops: usize) -> impl Strategy<Value = Case> {
    (prop::collection::vec(small_spec(), 1..4), prop::collection::vec(cop_strategy(), 2..=max_ops), prop::collection::vec(any::<u16>(), 0..160), any::<bool>()).prop_map(|(pre, ops, schedule, cold)| Case { pre, ops, schedule, cold })
}

/// What an operation returned.
#[derive(Clone, Debug, PartialEq)]
pub enum Ret {
    AddOk(u64),
    Updated(MDoc),
    Removed(Option<MDoc>),
    ExtOld(Option<Fv>),
    Unit,
    Got(Option<MDoc>),
    Ids(Vec<u64>),
    Conflict,
    NotFound,
    OtherErr(String),
}

fn classify_err(e: DBError) -> Ret {
    match e {
        DBError::AlreadyExists { .. } => Ret::Conflict,
        DBError::NotFound { .. } => Ret::NotFound,
        other => {
            let s = format!("{other:?}");
            if s.contains("AlreadyExists") { Ret::Conflict } else { Ret::OtherErr(s.chars().take(200).collect()) }
        }
    }
}

pub async fn run_op(col: &Collection, op: &COp) -> Ret {
    match op {
        COp::Add(spec) => match make_doc(col, &spec.fields()) {
            Ok(d) => match col.add(d).await {
                Ok(id) => Ret::AddOk(id),
                Err(e) => classify_err(e),
            },
            Err(e) => Ret::OtherErr(e),
        },
        COp::Update { id, spec, mask } => {
            let all = spec.fields();
            let mut changed = BTreeMap::new();
            for (i, f) in FIELDS.iter().enumerate() {
                if mask & (1 << i) != 0 {
                    changed.insert(f.to_string(), all[*f].clone());
                }
            }
            match col.update(*id as u64 + 1, changed).await {
                Ok(d) => Ret::Updated(doc_fields(&d)),
                Err(e) => classify_err(e),
            }
        }
        COp::Remove { id } => match col.remove(*id as u64 + 1).await {
            Ok(d) => Ret::Removed(d.map(|d| doc_fields(&d))),
            Err(e) => classify_err(e),
        },
        COp::SaveExt { k, v } => match col.save_extension(format!("k{k}"), Fv::U64(*v as u64)).await {
            Ok(()) => Ret::Unit,
            Err(e) => classify_err(e),
        },
        COp::SetExt { k, v } => {
            col.set_extension(format!("k{k}"), Fv::U64(*v as u64));
            Ret::Unit
        }
        COp::RemoveExt { k } => match col.remove_extension(&format!("k{k}")).await {
            Ok(old) => Ret::ExtOld(old),
            Err(e) => classify_err(e),
        },
        COp::Flush => match col.flush(anda_db::unix_ms()).await {
            Ok(_) => Ret::Unit,
            Err(e) => classify_err(e),
        },
        COp::Get { id } => match col.get(*id as u64 + 1).await {
            Ok(d) => Ret::Got(Some(doc_fields(&d))),
            Err(DBError::NotFound { .. }) => Ret::Got(None),
            Err(e) => classify_err(e),
        },
        COp::QueryAge { age } => match col.query_all_ids(Filter::Field(("age".into(), RangeQuery::Eq(Fv::U64(*age as u64))))).await {
            Ok(v) => Ret::Ids(v),
            Err(e) => classify_err(e),
        },
    }
}

#[derive(Clone, Default, PartialEq, Debug)]
pub struct SeqState {
    pub docs: Model,
    pub exts: BTreeMap<String, Fv>,
}

pub fn is_mutation(op: &COp) -> bool {
    !matches!(op, COp::Get { .. } | COp::QueryAge { .. })
}

/// Applies `op` to the sequential model; returns what the model says it returns.
/// For a successful add the id is taken from the real return value (the allocator is free).
pub fn model_apply(st: &mut SeqState, idx: &IndexSet, op: &COp, real: &Ret) -> Ret {
    match op {
        COp::Add(spec) => {
            let f = spec.fields();
            if unique_conflict(&st.docs, idx, None, &f) {
                Ret::Conflict
            } else if let Ret::AddOk(id) = real {
                if st.docs.contains_key(id) {
                    return Ret::OtherErr("id of a live document".into());
                }
                st.docs.insert(*id, f);
                Ret::AddOk(*id)
            } else {
                Ret::AddOk(0)
            }
        }
        COp::Update { id, spec, mask } => {
            let id = *id as u64 + 1;
            match st.docs.get(&id) {
                None => Ret::NotFound,
                Some(old) => {
                    let (new, _) = merged(old, spec, *mask);
                    if unique_conflict(&st.docs, idx, Some(id), &new) {
                        Ret::Conflict
                    } else {
                        st.docs.insert(id, new.clone());
                        Ret::Updated(new)
                    }
                }
            }
        }
        COp::Remove { id } => Ret::Removed(st.docs.remove(&(*id as u64 + 1))),
        COp::SaveExt { k, v } => {
            st.exts.insert(format!("k{k}"), Fv::U64(*v as u64));
            Ret::Unit
        }
        COp::SetExt { k, v } => {
            st.exts.insert(format!("k{k}"), Fv::U64(*v as u64));
            Ret::Unit
        }
        COp::RemoveExt { k } => Ret::ExtOld(st.exts.remove(&format!("k{k}"))),
        COp::Flush => Ret::Unit,
        COp::Get { .. } | COp::QueryAge { .. } => Ret::Unit,
    }
}

pub fn doc_of(op: &COp) -> Option<u64> {
    match op {
        COp::Update { id, .. } | COp::Remove { id } | COp::Get { id } => Some(*id as u64 + 1),
        _ => None,
    }
}

fn permutations(n: usize) -> Vec<Vec<usize>> {
    fn rec(cur: &mut Vec<usize>, used: &mut Vec<bool>, out: &mut Vec<Vec<usize>>) {
        if cur.len() == used.len() {
            out.push(cur.clone());
            return;
        }
        for i in 0..used.len() {
            if !used[i] {
                used[i] = true;
                cur.push(i);
                rec(cur, used, out);
                cur.pop();
                used[i] = false;
            }
        }
    }
    let mut out = vec![];
    rec(&mut vec![], &mut vec![false; n], &mut out);
    out
}

#[derive(Clone)]
pub struct RunOut {
    /// the backend as it is after a flush issued when every call had returned (fault-free runs)
    pub final_snap: Option<BTreeMap<String, Vec<u8>>>,
    pub rets: Vec<Ret>,
    /// (invocation step, response step) of each op
    pub span: Vec<(u64, u64)>,
    pub fin: SeqState,
    /// backend snapshots taken the moment a flush returned Ok
    pub flush_snaps: Vec<BTreeMap<String, Vec<u8>>>,
    pub steps: u64,
    pub interleaved: bool,
    /// crash mode: backend contents at the power cut, acknowledged returns, started flags
    pub crash_snap: Option<BTreeMap<String, Vec<u8>>>,
    pub acked: Vec<Option<Ret>>,
    pub started: Vec<bool>,
    pub poisoned: bool,
}

/// Executes one schedule.
pub fn execute(case: &Case, ch: &mut Chooser, fail_release: Option<u64>) -> Result<(RunOut, SeqState), String> {
    execute_with(case, ch, fail_release, None)
}

/// Like `execute`; with `crash_at = Some(s)` the power is cut at decision point `s`: the backend is
/// snapshotted as it is (calls parked *before* landing have not landed, calls parked *after* have),
/// every task is dropped, and the snapshot is returned in `RunOut::crash_snap` together with the
/// returns of the operations that had been acknowledged (`None` = in flight or not started).
pub fn execute_with(case: &Case, ch: &mut Chooser, fail_release: Option<u64>, crash_at: Option<u64>) -> Result<(RunOut, SeqState), String> {
    install_clocks(1_700_000_000_000);
    let rt = tokio::runtime::Builder::new_current_thread().enable_time().build().unwrap();
    let local = tokio::task::LocalSet::new();
    local.block_on(&rt, async {
        let mem = Arc::new(InMemory::new());
        let hub = Hub::new();
        let store: Arc<dyn ObjectStore> = Arc::new(ParkStore::new(mem.clone(), hub.clone()));
        let idx = idx_c05();
        let store2 = store.clone();
        let db = connect(store, false).await.map_err(|e| format!("connect: {e}"))?;
        let col = open(&db, &idx).await.map_err(|e| format!("open: {e}"))?;
        let mut pre = SeqState::default();
        for spec in &case.pre {
            let f = spec.fields();
            if unique_conflict(&pre.docs, &idx, None, &f) {
                continue;
            }
            let id = col.add(make_doc(&col, &f)?).await.map_err(|e| format!("pre add: {e}"))?;
            pre.docs.insert(id, f);
        }
        col.flush(anda_db::unix_ms()).await.map_err(|e| format!("pre flush: {e}"))?;
        let (db, col) = if case.cold {
            drop(col);
            db.close().await.map_err(|e| format!("pre close: {e}"))?;
            let db2 = connect(store2.clone(), false).await.map_err(|e| format!("reconnect: {e}"))?;
            let col2 = open(&db2, &idx).await.map_err(|e| format!("reopen: {e}"))?;
            hub.set_read_tasks(case.ops.iter().enumerate().filter(|(_, o)| !is_mutation(o)).map(|(i, _)| i as u32).collect());
            (db2, col2)
        } else {
            (db, col)
        };
        let _ = &db;
        hub.set_enabled(true);
        let n = case.ops.len();
        let done = Arc::new(AtomicU64::new(0));
        let results: Arc<std::sync::Mutex<Vec<Option<Ret>>>> = Arc::new(std::sync::Mutex::new(vec![None; n]));
        let resp_step: Arc<std::sync::Mutex<Vec<u64>>> = Arc::new(std::sync::Mutex::new(vec![0; n]));
        let snaps: Arc<std::sync::Mutex<Vec<BTreeMap<String, Vec<u8>>>>> = Arc::new(std::sync::Mutex::new(vec![]));
        let step = Arc::new(AtomicU64::new(0));
        let mut handles = vec![];
        for (i, op) in case.ops.iter().cloned().enumerate() {
            let (col, hub2, done, results, resp_step, snaps, step, mem) = (col.clone(), hub.clone(), done.clone(), results.clone(), resp_step.clone(), snaps.clone(), step.clone(), mem.clone());
            handles.push(tokio::task::spawn_local(OP_ID.scope(i as u32, async move {
                hub2.park(vf_core::store::Op::Get, "start", Phase::Start).await;
                let r = run_op(&col, &op).await;
                if op == COp::Flush && r == Ret::Unit {
                    let s = vf_core::store::dump_store(mem.as_ref()).await;
                    snaps.lock().unwrap().push(s);
                }
                results.lock().unwrap()[i] = Some(r);
                resp_step.lock().unwrap()[i] = step.load(Ordering::SeqCst);
                done.fetch_add(1, Ordering::SeqCst);
            })));
        }
        let progress = {
            let done = done.clone();
            move || done.load(Ordering::SeqCst)
        };
        let mut inv_step = vec![0u64; n];
        let mut interleaved = false;
        let mut last_task: Option<u32> = None;
        let mut seen_tasks: BTreeSet<u32> = BTreeSet::new();
        loop {
            vf_core::sched::quiesce(&hub, &progress).await;
            let p = hub.parked();
            if p.is_empty() {
                if progress() >= n as u64 {
                    break;
                }
                hub.release_all(true);
                for h in &handles {
                    h.abort();
                }
                return Err("inconclusive: nothing is parked but operations are unfinished (deadlock of the explorer)".into());
            }
            if crash_at == Some(step.load(Ordering::SeqCst)) {
                let snap = vf_core::store::dump_store(mem.as_ref()).await;
                let acked: Vec<Option<Ret>> = results.lock().unwrap().clone();
                let started: Vec<bool> = inv_step.iter().map(|s| *s > 0).collect();
                for h in &handles {
                    h.abort();
                }
                hub.release_all(false);
                for h in handles {
                    let _ = h.await;
                }
                let rets = acked.iter().map(|r| r.clone().unwrap_or(Ret::Unit)).collect();
                let steps = step.load(Ordering::SeqCst);
                return Ok((RunOut { final_snap: None, rets, span: vec![], fin: SeqState::default(), flush_snaps: vec![], steps, interleaved, crash_snap: Some(snap), acked, started, poisoned: false }, pre));
            }
            let c = ch.choose(p.len());
            let s = step.fetch_add(1, Ordering::SeqCst) + 1;
            if p[c].phase == Phase::Start {
                inv_step[p[c].task as usize] = s;
            } else {
                // steps of two different ops alternate: they actually interleaved
                if let Some(t) = last_task {
                    if t != p[c].task && seen_tasks.contains(&p[c].task) && results.lock().unwrap()[t as usize].is_none() {
                        interleaved = true;
                    }
                }
                seen_tasks.insert(p[c].task);
                last_task = Some(p[c].task);
            }
            let ok = fail_release.map(|f| f != s).unwrap_or(true);
            hub.release(p[c].id, ok);
            if s > 5000 {
                hub.release_all(true);
                return Err("inconclusive: schedule did not terminate within 5000 steps".into());
            }
        }
        for h in handles {
            let _ = h.await;
        }
        hub.set_enabled(false);
        // final state (a handle poisoned by an injected failure rejects reads: the caller reopens
        // the backend contents instead)
        if col.is_poisoned() {
            let snap = vf_core::store::dump_store(mem.as_ref()).await;
            let rets: Vec<Ret> = results.lock().unwrap().iter().map(|r| r.clone().unwrap()).collect();
            let resp = resp_step.lock().unwrap().clone();
            let span = (0..n).map(|i| (inv_step[i], resp[i])).collect();
            let acked = rets.iter().cloned().map(Some).collect();
            return Ok((RunOut { final_snap: None, rets, span, fin: SeqState::default(), flush_snaps: vec![], steps: step.load(Ordering::SeqCst), interleaved, crash_snap: Some(snap), acked, started: vec![true; n], poisoned: true }, pre));
        }
        let mut fin = SeqState::default();
        for id in col.ids() {
            match col.get(id).await {
                Ok(d) => {
                    fin.docs.insert(id, doc_fields(&d));
                }
                Err(e) => return Err(format!("after the run document {id} is listed but unreadable: {e}")),
            }
        }
        for k in 0..2u8 {
            if let Some(v) = col.get_extension(&format!("k{k}")) {
                fin.exts.insert(format!("k{k}"), v);
            }
        }
        // every index agrees with the final documents (unless the handle was poisoned by an injected failure)
        if !col.is_poisoned() {
            check_indexes(&col, &fin.docs, &idx, "after the concurrent run").await?;
        }
        let rets: Vec<Ret> = results.lock().unwrap().iter().map(|r| r.clone().unwrap()).collect();
        let resp = resp_step.lock().unwrap().clone();
        let span = (0..n).map(|i| (inv_step[i], resp[i])).collect();
        let flush_snaps = snaps.lock().unwrap().clone();
        let acked = rets.iter().cloned().map(Some).collect();
        let poisoned = col.is_poisoned();
        // a flush issued now - every call has returned - must persist the whole effect
        let mut final_snap = None;
        if !poisoned && fail_release.is_none() {
            col.flush(anda_db::unix_ms()).await.map_err(|e| format!("the flush after the run failed: {e}"))?;
            final_snap = Some(vf_core::store::dump_store(mem.as_ref()).await);
        }
        Ok((RunOut { final_snap, rets, span, fin, flush_snaps, steps: step.load(Ordering::SeqCst), interleaved, crash_snap: None, acked, started: vec![true; n], poisoned }, pre))
    })
}

/// Wing-Gong: is there an order of the mutating ops, consistent with the real-time order of
/// operations on the same document, whose sequential execution reproduces every return value and
/// the final state? Returns the orders that do.
pub fn linearize(case: &Case, pre: &SeqState, out: &RunOut) -> Vec<(Vec<usize>, Vec<SeqState>)> {
    let idx = idx_c05();
    let muts: Vec<usize> = (0..case.ops.len()).filter(|i| is_mutation(&case.ops[*i])).collect();
    let mut good = vec![];
    'perm: for perm in permutations(muts.len()) {
        let order: Vec<usize> = perm.iter().map(|p| muts[*p]).collect();
        // real-time order per document: if a finished before b started and both touch the same document, a precedes b
        for (pa, a) in order.iter().enumerate() {
            for b in order.iter().skip(pa + 1) {
                // b is placed after a: illegal if b responded before a was invoked (same document)
                if out.span[*b].1 < out.span[*a].0 && doc_of(&case.ops[*a]).is_some() && doc_of(&case.ops[*a]) == doc_of(&case.ops[*b]) {
                    continue 'perm;
                }
            }
        }
        let mut st = pre.clone();
        let mut states = vec![st.clone()];
        for i in &order {
            let want = model_apply(&mut st, &idx, &case.ops[*i], &out.rets[*i]);
            if want != out.rets[*i] {
                continue 'perm;
            }
            states.push(st.clone());
        }
        if st == out.fin {
            good.push((order, states));
        }
    }
    good
}

/// Signature of the second listed finding of the parallel runs.
pub const SIG_PAR_SPURIOUS: &str = "parallel: a writer is refused for a uniqueness conflict with a value that an overlapping writer holds only transiently (that writer is itself refused, or has not committed)";

fn unique_values(d: &MDoc) -> Vec<String> {
    let mut v = vec![];
    for index in [&["name"][..], &["ukeys"][..]] {
        for k in derive_keys(d, index) {
            v.push(format!("{}={k:?}", index[0]));
        }
    }
    v
}

/// The unique values operation `i` tries to hold (adds: its document; updates: the merged document
/// over every version its target can have had in this run - the pre-existing one, the document an
/// add of this very run was acknowledged for under that id, and what other updates returned).
fn attempted_unique_values(case: &Case, pre: &SeqState, out: &RunOut, i: usize) -> Vec<String> {
    match &case.ops[i] {
        COp::Add(spec) => unique_values(&spec.fields()),
        COp::Update { id, spec, mask } => {
            let id = *id as u64 + 1;
            let mut olds: Vec<MDoc> = pre.docs.get(&id).cloned().into_iter().collect();
            for (j, oj) in case.ops.iter().enumerate() {
                match (oj, out.rets.get(j)) {
                    (COp::Add(a), Some(Ret::AddOk(got))) if *got == id => olds.push(a.fields()),
                    (COp::Update { id: other, .. }, Some(Ret::Updated(doc))) if j != i && *other as u64 + 1 == id => olds.push(doc.clone()),
                    _ => {}
                }
            }
            let mut v = vec![];
            for old in &olds {
                for k in unique_values(&merged(old, spec, *mask).0) {
                    if !v.contains(&k) {
                        v.push(k);
                    }
                }
            }
            v
        }
        _ => vec![],
    }
}

/// Like `linearize`, except that a `Conflict` return the order does not produce is accepted (as an
/// operation without effect) when another operation that overlaps it in real time tries to hold one
/// of the same unique values - the listed finding SIG_PAR_SPURIOUS. Used only to ATTRIBUTE a failure
/// of the strict search.
pub fn linearize_allowing_transient_conflicts(case: &Case, pre: &SeqState, out: &RunOut) -> bool {
    let idx = idx_c05();
    let muts: Vec<usize> = (0..case.ops.len()).filter(|i| is_mutation(&case.ops[*i])).collect();
    let overlap = |a: usize, b: usize| out.span[a].0 < out.span[b].1 && out.span[b].0 < out.span[a].1;
    let transient = |i: usize| {
        let mine = attempted_unique_values(case, pre, out, i);
        (0..case.ops.len()).any(|j| j != i && overlap(i, j) && attempted_unique_values(case, pre, out, j).iter().any(|k| mine.contains(k)))
    };
    'perm: for perm in permutations(muts.len()) {
        let order: Vec<usize> = perm.iter().map(|p| muts[*p]).collect();
        for (pa, a) in order.iter().enumerate() {
            for b in order.iter().skip(pa + 1) {
                if out.span[*b].1 < out.span[*a].0 && doc_of(&case.ops[*a]).is_some() && doc_of(&case.ops[*a]) == doc_of(&case.ops[*b]) {
                    continue 'perm;
                }
            }
        }
        let mut st = pre.clone();
        for i in &order {
            let before = st.clone();
            let want = model_apply(&mut st, &idx, &case.ops[*i], &out.rets[*i]);
            if want != out.rets[*i] {
                if out.rets[*i] == Ret::Conflict && matches!(want, Ret::AddOk(_) | Ret::Updated(_)) && transient(*i) {
                    st = before;
                    continue;
                }
                continue 'perm;
            }
        }
        if st == out.fin {
            return true;
        }
    }
    false
}

pub fn check(case: &Case, ch: &mut Chooser, ctx: &mut CaseCtx) -> Result<(), String> {
    let (out, pre) = execute(case, ch, None)?;
    judge(case, &out, &pre, ctx)
}

/// The operations of `case` on a multi-threaded runtime (one worker per operation), released
/// together by a barrier, over a plain in-memory store: real parallelism instead of an owned
/// schedule. Invocation / response order is taken from a shared logical clock.
pub fn execute_parallel(case: &Case) -> Result<(RunOut, SeqState), String> {
    let n = case.ops.len();
    let rt = tokio::runtime::Builder::new_multi_thread().worker_threads(n.max(2)).enable_all().build().map_err(|e| e.to_string())?;
    rt.block_on(async {
        let mem = Arc::new(InMemory::new());
        let store: Arc<dyn ObjectStore> = mem.clone();
        let idx = idx_c05();
        let db = connect(store, false).await.map_err(|e| format!("connect: {e}"))?;
        let col = open(&db, &idx).await.map_err(|e| format!("open: {e}"))?;
        let mut pre = SeqState::default();
        for spec in &case.pre {
            let f = spec.fields();
            if unique_conflict(&pre.docs, &idx, None, &f) {
                continue;
            }
            let id = col.add(make_doc(&col, &f)?).await.map_err(|e| format!("pre add: {e}"))?;
            pre.docs.insert(id, f);
        }
        col.flush(anda_db::unix_ms()).await.map_err(|e| format!("pre flush: {e}"))?;
        let clock = Arc::new(AtomicU64::new(1));
        let barrier = Arc::new(tokio::sync::Barrier::new(n));
        let mut hs = vec![];
        for op in case.ops.iter().cloned() {
            let (col, clock, barrier) = (col.clone(), clock.clone(), barrier.clone());
            hs.push(tokio::spawn(async move {
                barrier.wait().await;
                let inv = clock.fetch_add(1, Ordering::SeqCst);
                let r = run_op(&col, &op).await;
                let resp = clock.fetch_add(1, Ordering::SeqCst);
                (r, inv, resp)
            }));
        }
        let mut rets = vec![];
        let mut span = vec![];
        for h in hs {
            let (r, inv, resp) = h.await.map_err(|e| format!("an operation task failed: {e}"))?;
            rets.push(r);
            span.push((inv, resp));
        }
        let acked: Vec<Option<Ret>> = rets.iter().cloned().map(Some).collect();
        if col.is_poisoned() {
            // reported by the caller (which knows the listed finding this can be)
            return Ok((RunOut { final_snap: None, rets, span, fin: SeqState::default(), flush_snaps: vec![], steps: 0, interleaved: false, crash_snap: None, acked, started: vec![true; n], poisoned: true }, pre));
        }
        let mut fin = SeqState::default();
        for id in col.ids() {
            match col.get(id).await {
                Ok(d) => {
                    fin.docs.insert(id, doc_fields(&d));
                }
                Err(e) => return Err(format!("after the run document {id} is listed but unreadable: {e}")),
            }
        }
        for k in 0..2u8 {
            if let Some(v) = col.get_extension(&format!("k{k}")) {
                fin.exts.insert(format!("k{k}"), v);
            }
        }
        let index_err = check_indexes(&col, &fin.docs, &idx, "after the parallel run").await.err();
        col.flush(anda_db::unix_ms()).await.map_err(|e| format!("the flush after the parallel run failed: {e}"))?;
        let final_snap = Some(vf_core::store::dump_store(mem.as_ref()).await);
        let mut out = RunOut { final_snap, rets, span, fin, flush_snaps: vec![], steps: 0, interleaved: false, crash_snap: None, acked, started: vec![true; n], poisoned: false };
        if let Some(e) = index_err {
            out.rets.push(Ret::OtherErr(format!("INDEX: {e}")));
        }
        Ok((out, pre))
    })
}

/// Signature of the listed finding as it shows under real parallelism (same root cause as the
/// listed C04 finding: a unique value is released before the release is final).
pub const SIG_PAR_RELEASE: &str = "parallel: an update that is rejected (or cut) released a unique value of its document inside its index phase and a concurrent writer acquired it";

/// Does the run match that finding? Some update that did NOT succeed would have dropped a unique
/// value of its (pre-existing) document, and another operation that succeeded ended up holding it.
pub fn rejected_update_released(case: &Case, pre: &SeqState, out: &RunOut) -> bool {
    let uniq = |d: &MDoc| -> Vec<String> {
        let mut v = vec![];
        for index in [&["name"][..], &["ukeys"][..]] {
            for k in derive_keys(d, index) {
                v.push(format!("{}={k:?}", index[0]));
            }
        }
        v
    };
    for (i, op) in case.ops.iter().enumerate() {
        let COp::Update { id, spec, mask } = op else { continue };
        if !matches!(out.rets.get(i), Some(Ret::Conflict) | Some(Ret::OtherErr(_))) {
            continue;
        }
        // every version the target can have had in this run: the pre-existing document, the one an
        // add of this run was acknowledged for under that id, what other updates of it returned
        let did = *id as u64 + 1;
        let mut olds: Vec<MDoc> = pre.docs.get(&did).cloned().into_iter().collect();
        for (j, oj) in case.ops.iter().enumerate() {
            match (oj, out.rets.get(j)) {
                (COp::Add(a), Some(Ret::AddOk(got))) if *got == did => olds.push(a.fields()),
                (COp::Update { id: other, .. }, Some(Ret::Updated(doc))) if j != i && *other as u64 + 1 == did => olds.push(doc.clone()),
                _ => {}
            }
        }
        let mut dropped: Vec<String> = vec![];
        for old in &olds {
            let kept = uniq(&merged(old, spec, *mask).0);
            dropped.extend(uniq(old).into_iter().filter(|k| !kept.contains(k)));
        }
        if dropped.is_empty() {
            continue;
        }
        for (j, oj) in case.ops.iter().enumerate() {
            if j == i {
                continue;
            }
            let holds = match (oj, out.rets.get(j)) {
                (COp::Add(spec), Some(Ret::AddOk(_))) => uniq(&spec.fields()),
                (COp::Update { .. }, Some(Ret::Updated(doc))) => uniq(doc),
                _ => vec![],
            };
            if holds.iter().any(|k| dropped.contains(k)) {
                return true;
            }
        }
    }
    false
}

/// The operation sets in which the two listed findings of the parallel runs were first seen.
fn parallel_finding_cases() -> Vec<Case> {
    let d = |name: u8, ukeys: Vec<u8>| DocSpec { name, age: 1, score: 0, tags: vec![], opt: None, ukeys, attrs: vec![], body: vec![1], emb: 0 };
    vec![
        // pre {1: n4}, {2: n2, ukeys [u1]}; three adds that want u1 || update(2, name -> n4 (taken), ukeys -> [])
        Case {
            pre: vec![d(4, vec![]), d(2, vec![1])],
            ops: vec![COp::Update { id: 1, spec: d(4, vec![]), mask: 0b100001 }, COp::Add(d(0, vec![1])), COp::Add(d(1, vec![1])), COp::Add(d(3, vec![1]))],
            schedule: vec![],
            cold: false,
        },
        // pre {1: n2}; three adds{n2 (taken), [u2]} || add{n4, [u2]}
        Case {
            pre: vec![d(2, vec![])],
            ops: vec![COp::Add(d(4, vec![2])), COp::Add(d(2, vec![2])), COp::Add(d(2, vec![2, 3])), COp::Add(d(2, vec![2, 4]))],
            schedule: vec![],
            cold: false,
        },
    ]
}

/// One parallel execution of `case` and its verdict.
pub fn run_parallel_once(case: &Case, ctx: &mut CaseCtx) -> Result<(), String> {
    let (mut out, pre) = execute_parallel(case)?;
    let index_err = match out.rets.last() {
        Some(Ret::OtherErr(e)) if e.starts_with("INDEX: ") && out.rets.len() == case.ops.len() + 1 => {
            let e = e.clone();
            out.rets.pop();
            Some(e)
        }
        _ => None,
    };
    let verdict = if out.poisoned {
        Err(format!("the handle is poisoned after a fault-free parallel run (returns {:?})", out.rets))
    } else if let Some(e) = index_err {
        Err(e)
    } else {
        judge(case, &out, &pre, ctx)
    };
    // the poisoned outcome of the same finding: a rejected update that rewrites a unique field could
    // not restore what it had released because ANOTHER overlapping writer (successful or itself
    // refused, on a document that may have been added in this very run) held it at that moment
    let poisoned_by_rejected_update = out.poisoned && {
        let overlap = |a: usize, b: usize| out.span[a].0 < out.span[b].1 && out.span[b].0 < out.span[a].1;
        (0..case.ops.len()).any(|i| {
            let rewrites_unique = match &case.ops[i] {
                COp::Update { mask, .. } => crate::hist::FIELDS.iter().enumerate().any(|(b, f)| mask & (1 << b) != 0 && (*f == "name" || *f == "ukeys")),
                _ => false,
            };
            rewrites_unique
                && matches!(out.rets[i], Ret::Conflict | Ret::OtherErr(_))
                && (0..case.ops.len()).any(|j| j != i && overlap(i, j) && matches!(case.ops[j], COp::Add(_) | COp::Update { .. }))
        })
    };
    match verdict {
        Ok(()) => Ok(()),
        Err(e) if poisoned_by_rejected_update => ctx.fail_sig(SIG_PAR_RELEASE, e),
        Err(e) if rejected_update_released(case, &pre, &out) => ctx.fail_sig(SIG_PAR_RELEASE, e),
        Err(e) if !out.poisoned && e.starts_with("no sequential order") && linearize_allowing_transient_conflicts(case, &pre, &out) => ctx.fail_sig(SIG_PAR_SPURIOUS, e),
        Err(e) => Err(e),
    }
}

/// The oracle over one finished run (owned schedule or real parallelism).
pub fn judge(case: &Case, out: &RunOut, pre: &SeqState, ctx: &mut CaseCtx) -> Result<(), String> {
    let out = out.clone();
    let pre = pre.clone();
    // no unexpected errors
    for (i, r) in out.rets.iter().enumerate() {
        if let Ret::OtherErr(e) = r {
            return Err(format!("op {i} {:?} failed although no fault was injected: {e}", case.ops[i]));
        }
    }
    // distinct ids for successful adds
    let mut ids = BTreeSet::new();
    for r in &out.rets {
        if let Ret::AddOk(id) = r {
            if !ids.insert(*id) || pre.docs.contains_key(id) {
                return Err(format!("two successful adds (or an add and an existing document) share id {id}"));
            }
        }
    }
    let good = linearize(case, &pre, &out);
    if good.is_empty() {
        return Err(format!(
            "no sequential order of the operations explains the run: returns {:?}, final documents {:?}, final extensions {:?} (spans {:?})",
            out.rets, out.fin.docs, out.fin.exts, out.span
        ));
    }
    // reads overlapping writers: whole documents that some call wrote
    for (i, op) in case.ops.iter().enumerate() {
        if let (COp::Get { id }, Ret::Got(g)) = (op, &out.rets[i]) {
            let id = *id as u64 + 1;
            let mut cands: Vec<Option<MDoc>> = vec![pre.docs.get(&id).cloned()];
            for r in &out.rets {
                match r {
                    Ret::Updated(d) => cands.push(Some(d.clone())),
                    Ret::Removed(Some(_)) => cands.push(None),
                    _ => {}
                }
            }
            for (j, o) in case.ops.iter().enumerate() {
                if let (COp::Add(spec), Ret::AddOk(nid)) = (o, &out.rets[j]) {
                    if *nid == id {
                        cands.push(Some(spec.fields()));
                        cands.push(None);
                    }
                }
            }
            if !cands.contains(g) {
                return Err(format!("op {i} get({id}) returned {g:?}, which no call wrote (possible values: {cands:?})"));
            }
        }
        if let (COp::QueryAge { .. }, Ret::Ids(v)) = (op, &out.rets[i]) {
            if v.windows(2).any(|w| w[0] >= w[1]) {
                return Err(format!("op {i} query returned {v:?}, not strictly ascending"));
            }
        }
    }
    // what a concurrent flush persisted is the state after some prefix of a valid order
    for (si, snap) in out.flush_snaps.iter().enumerate() {
        let rec = reopen_snapshot(snap)?;
        let ok = good.iter().any(|(_, states)| states.iter().any(|s| s.docs == rec.docs));
        if !ok {
            return Err(format!(
                "reopening the storage as it was when flush #{si} returned yields documents {:?}, which is not the state after any prefix of an order that explains the run",
                rec.docs
            ));
        }
        ctx.label("flush_snapshot_reopened");
    }
    // a flush issued when every call had returned persists the whole effect ("persisted on the next
    // flush()"): reopening the backend as it is then yields the final documents and extensions
    if let Some(snap) = &out.final_snap {
        let (rec, ix) = reopen_snapshot_parts(snap)?;
        if let Some(e) = ix {
            return Err(format!("after a flush issued when every call had returned: {e}"));
        }
        if rec.docs != out.fin.docs || rec.exts != out.fin.exts {
            return Err(format!(
                "a flush issued when every call had returned does not persist their effect: the live handle has documents {:?} / extensions {:?}, reopening the storage yields documents {:?} / extensions {:?}",
                out.fin.docs.keys().collect::<Vec<_>>(),
                out.fin.exts,
                rec.docs.keys().collect::<Vec<_>>(),
                rec.exts
            ));
        }
        ctx.count("final_flush_reopened", 1);
    }
    ctx.count("decision_points", out.steps);
    let share = {
        let docs: Vec<Option<u64>> = case.ops.iter().map(doc_of).collect();
        (0..docs.len()).any(|a| (a + 1..docs.len()).any(|b| (docs[a].is_some() && docs[a] == docs[b]) || (docs[a].is_none() && docs[b].is_none())))
    };
    // two operations overlapped in real time (both invoked before either responded) and they touch
    // the same document, or both touch collection-level state (adds / extensions / flush)
    let n = case.ops.len();
    let overlap = (0..n).any(|a| (a + 1..n).any(|b| out.span[a].0 < out.span[b].1 && out.span[b].0 < out.span[a].1));
    ctx.nontrivial = overlap && share;
    if overlap {
        ctx.label("operations_overlapped");
    }
    if out.interleaved {
        ctx.label("steps_interleaved");
    }
    Ok(())
}

pub fn reopen_snapshot(snap: &BTreeMap<String, Vec<u8>>) -> Result<SeqState, String> {
    let (st, idx) = reopen_snapshot_parts(snap)?;
    match idx {
        Some(e) => Err(e),
        None => Ok(st),
    }
}

/// The recovered documents, and separately the outcome of the index observation over them
/// (callers that classify a failure need the documents even when the indexes disagree).
pub fn reopen_snapshot_parts(snap: &BTreeMap<String, Vec<u8>>) -> Result<(SeqState, Option<String>), String> {
    use object_store::{ObjectStoreExt, PutPayload, path::Path};
    vf_core::block_on(async {
        let mem = Arc::new(InMemory::new());
        for (p, b) in snap {
            mem.put(&Path::from(p.as_str()), PutPayload::from(b.clone())).await.unwrap();
        }
        let db = connect(mem, false).await.map_err(|e| format!("flush snapshot does not reopen: {e}"))?;
        let idx = idx_c05();
        let col = open(&db, &idx).await.map_err(|e| format!("flush snapshot: collection does not reopen: {e}"))?;
        let mut st = SeqState::default();
        for id in col.ids() {
            let d = col.get(id).await.map_err(|e| format!("flush snapshot: document {id} unreadable: {e}"))?;
            st.docs.insert(id, doc_fields(&d));
        }
        for k in 0..2u8 {
            if let Some(v) = col.get_extension(&format!("k{k}")) {
                st.exts.insert(format!("k{k}"), v);
            }
        }
        let ix = check_indexes(&col, &st.docs, &idx, "flush snapshot reopened").await.err();
        Ok((st, ix))
    })
}

pub fn run_generated(case: &Case, ctx: &mut CaseCtx) -> Result<(), String> {
    let mut ch = Chooser::from_random(case.schedule.clone());
    check(case, &mut ch, ctx)
}

/// Fixed two-operation shapes; every interleaving of their backend steps is enumerated.
fn pair_shapes() -> Vec<Case> {
    let d = |name: u8, age: u8| DocSpec { name, age, score: 0, tags: vec![name % 3], opt: None, ukeys: vec![], attrs: vec![], body: vec![name % 5], emb: 0 };
    let pre = vec![d(0, 0), d(1, 1), d(2, 2)];
    let up = |id: u8, name: u8, age: u8| COp::Update { id, spec: d(name, age), mask: 0b11 };
    let upage = |id: u8, age: u8| COp::Update { id, spec: d(0, age), mask: 0b10 };
    let pairs: Vec<(COp, COp)> = vec![
        (upage(0, 5), upage(0, 6)),            // same document update/update
        (upage(0, 5), COp::Remove { id: 0 }),  // update/remove same document
        (COp::Remove { id: 0 }, COp::Remove { id: 0 }),
        (up(0, 7, 1), up(1, 7, 2)),            // two renames contending for one unique value
        (COp::Add(d(7, 1)), COp::Add(d(7, 2))), // two adds of one unique value
        (COp::Add(d(8, 1)), COp::Add(d(9, 2))),
        (COp::Add(d(8, 1)), COp::Flush),
        (upage(1, 4), COp::Flush),
        (COp::Remove { id: 2 }, COp::Flush),
        (COp::SaveExt { k: 0, v: 1 }, COp::SaveExt { k: 0, v: 2 }),
        (COp::SaveExt { k: 0, v: 1 }, COp::Flush),
        (COp::SaveExt { k: 1, v: 3 }, COp::RemoveExt { k: 1 }),
        (COp::SetExt { k: 0, v: 7 }, COp::Flush), // a synchronous extension write landing inside a flush
        (COp::SetExt { k: 1, v: 7 }, COp::SaveExt { k: 0, v: 2 }),
        (upage(0, 5), COp::Get { id: 0 }),
        (COp::Remove { id: 1 }, COp::Get { id: 1 }),
        (up(0, 1, 0), COp::Remove { id: 1 }),  // take the name the removed document holds
        (COp::Remove { id: 0 }, COp::Add(d(0, 3))), // add the name the removed document holds
        (upage(2, 0), COp::QueryAge { age: 0 }),
    ];
    let mut out: Vec<Case> = pairs.iter().cloned().map(|(a, b)| Case { pre: pre.clone(), ops: vec![a, b], schedule: vec![], cold: false }).collect();
    // the reader sets again on a reopened handle (cold cache) with the reader's backend reads as
    // decision points (seeded change C05-2: a read that lands before a writer's put and is
    // delivered after it must not be cached as current)
    for (a, b) in pairs {
        if !is_mutation(&a) || !is_mutation(&b) {
            out.push(Case { pre: pre.clone(), ops: vec![a, b], schedule: vec![], cold: true });
        }
    }
    out
}

pub fn run(r: &mut Runner) {
    r.assume("schedules are owned by the harness at the granularity of backend calls on a single-threaded executor (T4); interleavings inside one synchronous section on different cores are only touched by the multi-threaded stress sub-check");
    let budget = r.tier.pick(4000usize, 100_000usize);
    r.sub_enum(
        "pairs_all_interleavings",
        "19 fixed two-operation sets over a pre-populated, flushed collection (same-document update/update, update/remove, remove/remove, contended unique renames and adds, add / update / remove / extension racing flush, extension pairs, readers overlapping writers, taking a value whose holder is being removed), the three reader sets a second time on a reopened handle (cold read cache) with the reader's own backend reads as decision points: EVERY release order of their backend mutations (each parks before and after landing, plus a start park per op) is enumerated depth-first. Oracle: Wing-Gong search - some order of the mutating ops, consistent with real-time order per document, reproduces every return value (distinct ids, updates built on earlier ones, exactly one of concurrent removes returns the document, NotFound / AlreadyExists where the order says so) and the final documents and extensions; all indexes agree with the final documents; reads return whole documents some call wrote; the storage as it was when a concurrent flush returned reopens to the state after a prefix of such an order. Non-trivial = the two ops overlapped in real time (both invoked before either responded) and they touch the same document or the same collection-level state",
        true,
        pair_shapes(),
        move |case, ctx| {
            let mut nontrivial = false;
            let mut labels: Vec<String> = vec![];
            let res = vf_core::sched::dfs(budget, |ch| {
                let mut c2 = CaseCtx::default();
                let r = check(case, ch, &mut c2);
                nontrivial |= c2.nontrivial;
                for l in c2.labels {
                    if !labels.contains(&l) {
                        labels.push(l);
                    }
                }
                r
            });
            ctx.nontrivial = nontrivial;
            for l in labels {
                ctx.label(l);
            }
            match res {
                Ok((n, exhausted)) => {
                    ctx.count("schedules", n as u64);
                    ctx.count(if exhausted { "sets_fully_enumerated" } else { "sets_cut_by_budget" }, 1);
                    Ok(())
                }
                Err((choices, e)) => Err(format!("{e} [choices {choices:?}]")),
            }
        },
    );
    r.sub(
        "generated_sets",
        "generated sets of 2-4 operations (add, update of generated field subsets, remove, save/remove extension, flush, get, indexed query) over 1-3 pre-populated documents with a tiny value universe (so same-document and same-unique-value races are the common case), released by a generated schedule, half of them on a reopened handle (cold read cache) with the readers' backend reads as decision points; same oracle",
        (60_000, 1_500_000),
        || case_strategy(4),
        run_generated,
    );
    r.sub_enum(
        "parallel_listed_findings",
        "the two reproductions of the listed findings of the parallel runs (a rejected update released a unique value a concurrent writer took; a writer refused for a value another writer held only transiently), each repeated up to 1500 times on the multi-threaded runtime until it shows; non-trivial = the finding showed",
        true,
        parallel_finding_cases(),
        |case, ctx| {
            for _ in 0..1500 {
                run_parallel_once(case, ctx)?;
            }
            Ok(())
        },
    );
    r.sub(
        "parallel_sets_stress",
        "the generated sets of 2-4 operations again, on a multi-threaded runtime (one worker per operation, all released by a barrier, plain in-memory store, no scheduler): real parallelism reaches interleavings INSIDE a synchronous section, which contain no backend call for the parking store to stop at; invocation / response order from a shared logical clock; same Wing-Gong oracle, indexes agree with the final documents, the handle is not poisoned. Not replayable step by step: a replay runs the case 50 times. Non-trivial = two operations overlapped in real time and touch the same document or the same collection-level state",
        (6_000, 200_000),
        || case_strategy(4),
        |case, ctx| {
            let repeats = if ctx.strict { 50 } else { 1 };
            for _ in 0..repeats {
                run_parallel_once(case, ctx)?;
            }
            Ok(())
        },
    );
}
