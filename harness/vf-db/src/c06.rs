//! C06 — closed, deleted, poisoned or read-only handles never write; cancel = crash.
//!
//! (a) lifecycle x operation matrix on a retained `Arc<Collection>` over a logging store;
//! (b) a lifecycle transition racing in-flight operations under enumerated / generated schedules;
//! (c) every mutating API dropped after every poll count k (T5).

use crate::c05::{COp, Ret, run_op};
use crate::hist::*;
use crate::world::*;
use anda_db::collection::Collection;
use anda_db::database::AndaDB;
use anda_db::error::CollectionState;
use anda_db::schema::Fv;
use async_trait::async_trait;
use bytes::Bytes;
use futures::stream::BoxStream;
use object_store::memory::InMemory;
use object_store::path::Path;
use object_store::{
    CopyOptions, GetOptions, GetResult, ListResult, MultipartUpload, ObjectMeta, ObjectStore, PutMultipartOptions, PutOptions, PutPayload, PutResult, RenameOptions, Result as OsResult,
};
use proptest::prelude::*;
use serde::{Deserialize, Serialize};
use std::collections::BTreeMap;
use std::future::Future;
use std::pin::Pin;
use std::sync::Arc;
use std::sync::atomic::{AtomicU64, Ordering};
use std::task::{Context, Poll};
use vf_core::sched::{Chooser, Hub, OP_ID, ParkStore, Phase};
use vf_core::store::{Ctl, CtlStore};
use vf_core::{CaseCtx, Runner};

#[derive(Clone, Copy, Debug, PartialEq, Eq, Serialize, Deserialize)]
pub enum Transition {
    CollectionReadOnly,
    DatabaseReadOnly,
    CollectionClose,
    CloseCollection,
    DeleteCollection,
    DatabaseClose,
    PoisonByCancelledAdd,
    PoisonByFailedFlush,
}

const TRANSITIONS: [Transition; 8] = [
    Transition::CollectionReadOnly,
    Transition::DatabaseReadOnly,
    Transition::CollectionClose,
    Transition::CloseCollection,
    Transition::DeleteCollection,
    Transition::DatabaseClose,
    Transition::PoisonByCancelledAdd,
    Transition::PoisonByFailedFlush,
];

#[derive(Clone, Copy, Debug, PartialEq, Eq, Serialize, Deserialize)]
pub enum Api {
    Add,
    Update,
    Remove,
    Flush,
    SaveExt,
    RemoveExt,
    CompactBtree,
    CompactBm25,
    Reconcile,
    Close,
    ReenableThenAdd,
}

const APIS: [Api; 11] = [Api::Add, Api::Update, Api::Remove, Api::Flush, Api::SaveExt, Api::RemoveExt, Api::CompactBtree, Api::CompactBm25, Api::Reconcile, Api::Close, Api::ReenableThenAdd];

#[derive(Clone, Debug, Serialize, Deserialize)]
pub struct MCase {
    pub transition: Transition,
    pub api: Api,
    /// documents present before the transition (and unflushed extra work, so that a close has something to flush)
    pub pre: Vec<DocSpec>,
    pub unflushed: Vec<DocSpec>,
}

fn fresh_spec(n: u8) -> DocSpec {
    DocSpec { name: 100 + n, age: n % 5, score: (n % 120) as i8, tags: vec![n % 3], opt: None, ukeys: vec![], attrs: vec![], body: vec![n % 10], emb: n }
}

async fn call_api(col: &Collection, api: Api, salt: u8) -> Result<(), String> {
    let r: Result<(), anda_db::error::DBError> = match api {
        Api::Add => col.add(make_doc(col, &fresh_spec(50 + salt).fields())?).await.map(|_| ()),
        Api::Update => col.update(1, BTreeMap::from([("age".to_string(), Fv::U64(3 + salt as u64))])).await.map(|_| ()),
        Api::Remove => col.remove(1).await.map(|_| ()),
        Api::Flush => col.flush(anda_db::unix_ms()).await.map(|_| ()),
        Api::SaveExt => col.save_extension("k0".into(), Fv::U64(77)).await,
        Api::RemoveExt => col.remove_extension("k9").await.map(|_| ()),
        Api::CompactBtree => col.compact_btree_index(&["age"]).await,
        Api::CompactBm25 => col.compact_bm25_index(&["body"]).await,
        Api::Reconcile => col.reconcile_storage().await.map(|_| ()),
        Api::Close => col.close().await,
        Api::ReenableThenAdd => {
            col.set_read_only(false);
            col.add(make_doc(col, &fresh_spec(60 + salt).fields())?).await.map(|_| ())
        }
    };
    r.map_err(|e| format!("{e:?}"))
}

struct Env {
    mem: Arc<InMemory>,
    ctl: Ctl,
    db: AndaDB,
    col: Arc<Collection>,
    model: Model,
}

async fn setup(pre: &[DocSpec], unflushed: &[DocSpec], store_wrap: impl Fn(Arc<dyn ObjectStore>) -> Arc<dyn ObjectStore>) -> Result<Env, String> {
    install_clocks(1_700_000_000_000);
    let mem = Arc::new(InMemory::new());
    let ctl = Ctl::new();
    ctl.set_logging(true);
    let base: Arc<dyn ObjectStore> = Arc::new(CtlStore::new(mem.clone(), ctl.clone()));
    let store = store_wrap(base);
    let db = connect(store, false).await.map_err(|e| e.to_string())?;
    let idx = IndexSet::all();
    let col = open(&db, &idx).await.map_err(|e| e.to_string())?;
    let mut model = Model::new();
    // document 1 always exists (the update / remove target)
    let mut all: Vec<DocSpec> = vec![fresh_spec(0)];
    all.extend(pre.iter().cloned());
    for s in &all {
        let f = s.fields();
        if unique_conflict(&model, &idx, None, &f) {
            continue;
        }
        let id = col.add(make_doc(&col, &f)?).await.map_err(|e| e.to_string())?;
        model.insert(id, f);
    }
    col.flush(anda_db::unix_ms()).await.map_err(|e| e.to_string())?;
    for s in unflushed {
        let f = s.fields();
        if unique_conflict(&model, &idx, None, &f) {
            continue;
        }
        let id = col.add(make_doc(&col, &f)?).await.map_err(|e| e.to_string())?;
        model.insert(id, f);
    }
    Ok(Env { mem, ctl, db, col, model })
}

fn writes_under_collection(log: &[(vf_core::store::Op, String)], from: usize) -> Vec<String> {
    log.iter().skip(from).filter(|(op, p)| op.is_mutation() && p.starts_with("vdb/docs/")).map(|(op, p)| format!("{op:?} {p}")).collect()
}

/// A future wrapper that is polled `k` times and then dropped.
async fn drop_after<F: Future>(fut: F, k: usize) -> Option<F::Output> {
    let mut fut = Box::pin(fut);
    let mut polls = 0;
    std::future::poll_fn(|cx: &mut Context<'_>| {
        if polls >= k {
            return Poll::Ready(None);
        }
        polls += 1;
        match fut.as_mut().poll(cx) {
            Poll::Ready(v) => Poll::Ready(Some(v)),
            Poll::Pending => {
                cx.waker().wake_by_ref();
                Poll::Pending
            }
        }
    })
    .await
}

/// A store whose every call yields once before and once after it lands, so that a mutating future
/// has a suspension point around each backend step.
#[derive(Debug)]
struct YieldStore {
    inner: Arc<dyn ObjectStore>,
}
impl std::fmt::Display for YieldStore {
    fn fmt(&self, f: &mut std::fmt::Formatter<'_>) -> std::fmt::Result {
        write!(f, "YieldStore")
    }
}
#[async_trait]
impl ObjectStore for YieldStore {
    async fn put_opts(&self, location: &Path, payload: PutPayload, opts: PutOptions) -> OsResult<PutResult> {
        tokio::task::yield_now().await;
        let r = self.inner.put_opts(location, payload, opts).await;
        tokio::task::yield_now().await;
        r
    }
    async fn put_multipart_opts(&self, location: &Path, opts: PutMultipartOptions) -> OsResult<Box<dyn MultipartUpload>> {
        self.inner.put_multipart_opts(location, opts).await
    }
    async fn get_opts(&self, location: &Path, options: GetOptions) -> OsResult<GetResult> {
        tokio::task::yield_now().await;
        self.inner.get_opts(location, options).await
    }
    async fn get_ranges(&self, location: &Path, ranges: &[std::ops::Range<u64>]) -> OsResult<Vec<Bytes>> {
        self.inner.get_ranges(location, ranges).await
    }
    fn delete_stream(&self, locations: BoxStream<'static, OsResult<Path>>) -> BoxStream<'static, OsResult<Path>> {
        self.inner.delete_stream(locations)
    }
    fn list(&self, prefix: Option<&Path>) -> BoxStream<'static, OsResult<ObjectMeta>> {
        self.inner.list(prefix)
    }
    fn list_with_offset(&self, prefix: Option<&Path>, offset: &Path) -> BoxStream<'static, OsResult<ObjectMeta>> {
        self.inner.list_with_offset(prefix, offset)
    }
    async fn list_with_delimiter(&self, prefix: Option<&Path>) -> OsResult<ListResult> {
        self.inner.list_with_delimiter(prefix).await
    }
    async fn copy_opts(&self, from: &Path, to: &Path, options: CopyOptions) -> OsResult<()> {
        tokio::task::yield_now().await;
        let r = self.inner.copy_opts(from, to, options).await;
        tokio::task::yield_now().await;
        r
    }
    async fn rename_opts(&self, from: &Path, to: &Path, options: RenameOptions) -> OsResult<()> {
        tokio::task::yield_now().await;
        let r = self.inner.rename_opts(from, to, options).await;
        tokio::task::yield_now().await;
        r
    }
}

fn yielding(base: Arc<dyn ObjectStore>) -> Arc<dyn ObjectStore> {
    Arc::new(YieldStore { inner: base })
}

async fn do_transition(env: &Env, t: Transition) -> Result<(), String> {
    match t {
        Transition::CollectionReadOnly => env.col.set_read_only(true),
        Transition::DatabaseReadOnly => env.db.set_read_only(true),
        Transition::CollectionClose => env.col.close().await.map_err(|e| format!("close failed: {e}"))?,
        Transition::CloseCollection => env.db.close_collection("docs").await.map_err(|e| format!("close_collection failed: {e}"))?,
        Transition::DeleteCollection => env.db.delete_collection("docs").await.map_err(|e| format!("delete_collection failed: {e}"))?,
        Transition::DatabaseClose => env.db.close().await.map_err(|e| format!("db.close failed: {e}"))?,
        Transition::PoisonByCancelledAdd => {
            // drop an add after its first backend suspension point
            let d = make_doc(&env.col, &fresh_spec(90).fields())?;
            for k in 1..40 {
                if env.col.is_poisoned() {
                    break;
                }
                let d2 = d.clone();
                let r = drop_after(env.col.add(d2), k).await;
                if std::env::var("VERIF_DEBUG").is_ok() {
                    eprintln!("[c06] cancelled add k={k}: completed={:?} poisoned={}", r.as_ref().map(|x| x.is_ok()), env.col.is_poisoned());
                }
                if r.is_some() {
                    // completed before the drop: try to cancel the next one earlier is pointless; use a removal of it
                    break;
                }
            }
            if !env.col.is_poisoned() {
                return Err("inconclusive: could not poison the handle by cancelling an add".into());
            }
        }
        Transition::PoisonByFailedFlush => {
            // make some work pending, then fail a backend call inside flush
            let _ = env.col.add(make_doc(&env.col, &fresh_spec(91).fields())?).await;
            env.ctl.fail_at(env.ctl.mutation_count() + 1);
            let r = env.col.flush(anda_db::unix_ms()).await;
            if r.is_ok() || !env.col.is_poisoned() {
                return Err("inconclusive: the failing flush did not poison the handle".into());
            }
        }
    }
    Ok(())
}

pub fn run_matrix_case(case: &MCase, ctx: &mut CaseCtx) -> Result<(), String> {
    vf_core::block_on(async {
        let env = setup(&case.pre, &case.unflushed, yielding).await?;
        // logical state when the transition begins (for the read-only content check)
        let state_at_flag = env.model.clone();
        do_transition(&env, case.transition).await?;
        let mark = env.ctl.log_len();
        let what = format!("after {:?}, {:?} on the retained handle", case.transition, case.api);
        let r = call_api(&env.col, case.api, 1).await;
        // a second call of the same API as well (e.g. a second close)
        let r2 = call_api(&env.col, case.api, 2).await;
        let log = env.ctl.log();
        let writes = writes_under_collection(&log, mark);
        let read_only = matches!(case.transition, Transition::CollectionReadOnly | Transition::DatabaseReadOnly);
        let is_close = case.api == Api::Close;
        if read_only && is_close {
            // documented: close = switch to read-only, then flush pending state; its flush may write.
            // The content check: a fresh reopen yields exactly the logical state the handle had when the flag was set.
            r.map_err(|e| format!("{what}: close failed: {e}"))?;
        } else if read_only && case.api == Api::ReenableThenAdd && case.transition == Transition::CollectionReadOnly {
            // set_read_only(false) on an ACTIVE handle legitimately re-enables writes: nothing to assert
            ctx.label("reenable_active_handle");
            return Ok(());
        } else {
            if r.is_ok() && !(is_close && !read_only) {
                return Err(format!("{what}: the call returned Ok"));
            }
            if r2.is_ok() && !(is_close && !read_only) {
                return Err(format!("{what}: the second call returned Ok"));
            }
            if !writes.is_empty() {
                return Err(format!("{what}: wrote {writes:?}"));
            }
        }
        // state of the handle: closed / deleted / poisoned cannot be made writable again
        if !read_only {
            env.col.set_read_only(false);
            let d = make_doc(&env.col, &fresh_spec(70).fields());
            if let Ok(d) = d {
                if env.col.add(d).await.is_ok() {
                    return Err(format!("{what}: after set_read_only(false) the retired handle accepted a write"));
                }
            }
            let w2 = writes_under_collection(&env.ctl.log(), mark);
            if !w2.is_empty() {
                return Err(format!("{what}: after set_read_only(false) the retired handle wrote {w2:?}"));
            }
            match env.col.state() {
                CollectionState::Active => return Err(format!("{what}: handle state is Active")),
                _ => {}
            }
        }
        if case.transition == Transition::DeleteCollection {
            // nothing remains under the prefix, and nothing comes back
            let left: Vec<String> = vf_core::store::dump_store(env.mem.as_ref()).await.into_keys().filter(|k| k.starts_with("vdb/docs/")).collect();
            if !left.is_empty() {
                return Err(format!("{what}: objects under the deleted collection's prefix: {left:?}"));
            }
        } else {
            // reopening yields the logical state of the transition point (nothing issued after it leaked)
            let store: Arc<dyn ObjectStore> = Arc::new(CtlStore::new(env.mem.clone(), Ctl::new()));
            let db2 = connect(store, false).await.map_err(|e| format!("{what}: reopen failed: {e}"))?;
            let col2 = open(&db2, &IndexSet::all()).await.map_err(|e| format!("{what}: reopen failed: {e}"))?;
            let mut want = state_at_flag.clone();
            // the poison transitions themselves may have added a document (their own in-flight op)
            let rec_ids = col2.ids();
            for id in &rec_ids {
                if !want.contains_key(id) && matches!(case.transition, Transition::PoisonByCancelledAdd | Transition::PoisonByFailedFlush) {
                    if let Ok(d) = col2.get(*id).await {
                        want.insert(*id, doc_fields(&d));
                    }
                }
            }
            check_indexes(&col2, &want, &IndexSet::all(), &format!("{what}: reopened")).await?;
        }
        ctx.nontrivial = true;
        ctx.label(format!("{:?}", case.transition));
        Ok(())
    })
}

fn matrix_cases() -> Vec<MCase> {
    let mut v = vec![];
    for t in TRANSITIONS {
        for a in APIS {
            v.push(MCase { transition: t, api: a, pre: vec![fresh_spec(1), fresh_spec(2)], unflushed: vec![fresh_spec(3)] });
        }
    }
    v
}

fn mcase_strategy() -> impl Strategy<Value = MCase> {
    (
        prop::sample::select(&TRANSITIONS[..]),
        prop::sample::select(&APIS[..]),
        prop::collection::vec(DocSpec::strategy(), 0..6),
        prop::collection::vec(DocSpec::strategy(), 0..3),
    )
        .prop_map(|(transition, api, pre, unflushed)| MCase { transition, api, pre, unflushed })
}

// ---------------------------------------------------------------------------
// (c) cancellation: every mutating API dropped after every poll count
// ---------------------------------------------------------------------------

#[derive(Clone, Debug, Serialize, Deserialize)]
pub struct CCase {
    pub api: Api,
    pub k: u8,
    pub pre: Vec<DocSpec>,
    pub unflushed: Vec<DocSpec>,
}

pub fn run_cancel_case(case: &CCase, ctx: &mut CaseCtx) -> Result<(), String> {
    vf_core::block_on(async {
        let env = setup(&case.pre, &case.unflushed, yielding).await?;
        let pre_model = env.model.clone();
        let k = case.k as usize;
        let what = format!("{:?} dropped after {k} polls", case.api);
        let done = drop_after(call_api(&env.col, case.api, 1), k).await;
        let started_backend = env.ctl.log_len();
        let _ = started_backend;
        let idx = IndexSet::all();
        match &done {
            Some(_) => {
                ctx.label("completed_before_the_drop");
            }
            None => {
                // dropped: either poisoned, or active with no partial effect
                if !env.col.is_poisoned() {
                    if env.col.state() != CollectionState::Active && case.api != Api::Close {
                        return Err(format!("{what}: handle is in state {:?}, neither poisoned nor active", env.col.state()));
                    }
                    if env.col.state() == CollectionState::Active {
                        check_indexes(&env.col, &pre_model, &idx, &format!("{what}: handle stayed active")).await.map_err(|e| format!("{e} (a dropped call left a partial effect on an active handle)"))?;
                        ctx.label("dropped_active_unchanged");
                    }
                } else {
                    ctx.label("dropped_poisoned");
                }
            }
        }
        // reopening yields the pre- or the post-state of that op
        let store: Arc<dyn ObjectStore> = Arc::new(CtlStore::new(env.mem.clone(), Ctl::new()));
        let db2 = connect(store, false).await.map_err(|e| format!("{what}: reopen failed: {e}"))?;
        let col2 = open(&db2, &idx).await.map_err(|e| format!("{what}: reopen failed: {e}"))?;
        let mut rec = Model::new();
        for id in col2.ids() {
            rec.insert(id, doc_fields(&col2.get(id).await.map_err(|e| format!("{what}: document {id} unreadable after reopen: {e}"))?));
        }
        let mut post = pre_model.clone();
        match case.api {
            Api::Add => {
                let f = fresh_spec(51).fields();
                if let Some((id, _)) = rec.iter().find(|(id, d)| !pre_model.contains_key(id) && **d == f) {
                    post.insert(*id, f);
                }
            }
            Api::Update => {
                if let Some(d) = post.get_mut(&1) {
                    d.insert("age".into(), Fv::U64(4));
                }
            }
            Api::Remove => {
                post.remove(&1);
            }
            _ => {}
        }
        if rec != pre_model && rec != post {
            return Err(format!("{what}: after reopen the documents are neither the pre- nor the post-state of the operation"));
        }
        if done.as_ref().map(|r| r.is_ok()).unwrap_or(false) && rec != post {
            return Err(format!("{what}: the call completed with Ok but its effect is gone after reopen"));
        }
        check_indexes(&col2, &rec, &idx, &format!("{what}: reopened")).await?;
        ctx.nontrivial = done.is_none() && env.ctl.log_len() > 0;
        ctx.label(format!("{:?}", case.api));
        Ok(())
    })
}

fn cancel_cases() -> Vec<CCase> {
    let mut v = vec![];
    for api in [Api::Add, Api::Update, Api::Remove, Api::Flush, Api::SaveExt, Api::RemoveExt, Api::CompactBtree, Api::CompactBm25, Api::Reconcile, Api::Close] {
        for k in 0..48u8 {
            v.push(CCase { api, k, pre: vec![fresh_spec(1), fresh_spec(2)], unflushed: vec![fresh_spec(3)] });
        }
    }
    v
}


// ---------------------------------------------------------------------------
// (a2) the database-level transitions themselves, dropped after every poll count
// ---------------------------------------------------------------------------

/// `delete_collection`, `close_collection` and `AndaDB::close` are mutating calls too (the property
/// lists them): dropped at a suspension point they must leave no partial effect or retire the
/// retained handle. The observable partial effect of a half-done delete / close is a handle that is
/// still Active while the database no longer knows the collection: a write it acknowledges lands
/// under a prefix no restart will find (seeded change C06-3).
#[derive(Clone, Debug, Serialize, Deserialize)]
pub struct TCCase {
    pub transition: Transition,
    pub k: u8,
    pub pre: Vec<DocSpec>,
    pub unflushed: Vec<DocSpec>,
}

fn tcancel_cases() -> Vec<TCCase> {
    let mut v = vec![];
    for transition in [Transition::DeleteCollection, Transition::CloseCollection, Transition::DatabaseClose] {
        for k in 0..64u8 {
            v.push(TCCase { transition, k, pre: vec![fresh_spec(1), fresh_spec(2)], unflushed: vec![fresh_spec(3)] });
        }
    }
    v
}

pub fn run_tcancel_case(case: &TCCase, ctx: &mut CaseCtx) -> Result<(), String> {
    vf_core::block_on(async {
        let env = setup(&case.pre, &case.unflushed, yielding).await?;
        let k = case.k as usize;
        let what = format!("{:?} dropped after {k} polls", case.transition);
        let idx = IndexSet::all();
        let done = {
            let db = &env.db;
            let t = case.transition;
            let fut = async move {
                match t {
                    Transition::DeleteCollection => db.delete_collection("docs").await.map_err(|e| e.to_string()),
                    Transition::CloseCollection => db.close_collection("docs").await.map_err(|e| e.to_string()),
                    _ => db.close().await.map_err(|e| e.to_string()),
                }
            };
            drop_after(fut, k).await
        };
        if done.is_some() {
            ctx.label("completed_before_the_drop");
        }
        // what the retained handle still acknowledges
        let marker = fresh_spec(77).fields();
        let added = match make_doc(&env.col, &marker) {
            Ok(d) => env.col.add(d).await.ok(),
            Err(_) => None,
        };
        let flushed = if added.is_some() { env.col.flush(anda_db::unix_ms()).await.is_ok() } else { false };
        ctx.label(format!("{:?}:{}", case.transition, if added.is_some() { "retained_handle_still_accepts" } else { "retained_handle_refuses" }));
        // restart over the same storage
        let store: Arc<dyn ObjectStore> = Arc::new(CtlStore::new(env.mem.clone(), Ctl::new()));
        let db2 = connect(store, false).await.map_err(|e| format!("{what}: the database does not reopen: {e}"))?;
        let listed = db2.open_collection("docs".to_string(), async |_c: &mut Collection| Ok(())).await;
        match (added, flushed, listed) {
            (Some(id), true, Ok(col2)) => {
                // acknowledged add + flush on the retained handle: the restart must find it
                match col2.get(id).await {
                    Ok(d) if doc_fields(&d) == marker => {}
                    other => return Err(format!("{what}: the retained handle acknowledged add -> {id} and a flush afterwards, after a restart document {id} is {:?}", other.map(|d| doc_fields(&d)).map_err(|e| e.to_string()))),
                }
                let mut rec = Model::new();
                for i in col2.ids() {
                    rec.insert(i, doc_fields(&col2.get(i).await.map_err(|e| format!("{what}: document {i} unreadable after restart: {e}"))?));
                }
                check_indexes(&col2, &rec, &idx, &format!("{what}: restarted")).await?;
            }
            (Some(id), true, Err(e)) => {
                return Err(format!(
                    "{what}: the retained handle stayed {:?} and acknowledged add -> {id} and a flush, but after a restart the database has no collection 'docs' any more ({e}): the acknowledged write went to a prefix nothing will find",
                    env.col.state()
                ));
            }
            (_, _, Ok(col2)) => {
                // the handle refused (or its flush failed): whatever survives must be consistent
                let mut rec = Model::new();
                for i in col2.ids() {
                    rec.insert(i, doc_fields(&col2.get(i).await.map_err(|e| format!("{what}: document {i} unreadable after restart: {e}"))?));
                }
                check_indexes(&col2, &rec, &idx, &format!("{what}: restarted")).await?;
            }
            (_, _, Err(_)) => {
                // the collection is gone: legitimate only for a delete that got far enough
                if case.transition != Transition::DeleteCollection {
                    return Err(format!("{what}: after a restart the collection does not open although it was never deleted"));
                }
                ctx.label("deleted_for_good");
            }
        }
        ctx.nontrivial = done.is_none() && env.ctl.log_len() > 0;
        Ok(())
    })
}


// ---------------------------------------------------------------------------
// (a3) the database becomes read-only while a handle is being constructed
// ---------------------------------------------------------------------------

/// "read-only ... through its database": the database-level flag is set while a collection handle is
/// still being opened / created - inside its open callback, i.e. after the constructor has looked
/// at the flag and before the handle is registered with the database (seeded change C06-4). The
/// handle that comes out must be read-only like every other one.
#[derive(Clone, Debug, Serialize, Deserialize)]
pub struct OCase {
    /// false: an existing collection is reopened; true: a new collection is created
    pub create: bool,
    pub api: Api,
}

fn open_race_cases() -> Vec<OCase> {
    let mut v = vec![];
    for create in [false, true] {
        for api in [Api::Add, Api::Update, Api::Remove, Api::Flush, Api::SaveExt, Api::RemoveExt, Api::CompactBtree, Api::CompactBm25, Api::Reconcile] {
            v.push(OCase { create, api });
        }
    }
    v
}

pub fn run_open_race_case(case: &OCase, ctx: &mut CaseCtx) -> Result<(), String> {
    vf_core::block_on(async {
        let env = setup(&[fresh_spec(1), fresh_spec(2)], &[fresh_spec(3)], yielding).await?;
        let idx = IndexSet::all();
        let name = if case.create { "docs2" } else { "docs" };
        if !case.create {
            env.db.close_collection("docs").await.map_err(|e| format!("close_collection failed: {e}"))?;
        }
        let db = &env.db;
        let idx2 = idx.clone();
        let h = db
            .open_or_create_collection(schema(), anda_db::collection::CollectionConfig { name: name.into(), description: "d".into() }, async move |c: &mut Collection| {
                for (fields, on) in idx2.btrees() {
                    if on {
                        c.create_btree_index_nx(fields).await?;
                    }
                }
                c.create_bm25_index_nx(&["body"]).await?;
                // the transition: while this handle is still being constructed
                db.set_read_only(true);
                Ok(())
            })
            .await;
        let h = match h {
            Ok(h) => h,
            Err(_) => {
                // the open / create itself noticed the flag (its own post-callback flush is refused):
                // no handle came out, nothing to retain
                ctx.label(if case.create { "create_refused_by_the_flag" } else { "open_refused_by_the_flag" });
                ctx.nontrivial = true;
                return Ok(());
            }
        };
        let prefix = format!("vdb/{name}/");
        let mark = env.ctl.log_len();
        let what = format!("the database was set read-only inside the {} callback of {name:?}; {:?} on the handle that came out", if case.create { "create" } else { "open" }, case.api);
        let r = call_api(&h, case.api, 1).await;
        let r2 = call_api(&h, case.api, 2).await;
        let writes: Vec<String> = env.ctl.log().iter().skip(mark).filter(|(op, p)| op.is_mutation() && p.starts_with(&prefix)).map(|(op, p)| format!("{op:?} {p}")).collect();
        if r.is_ok() || r2.is_ok() {
            return Err(format!("{what}: the call returned Ok although the database is read-only (is_read_only = {})", db.is_read_only()));
        }
        if !writes.is_empty() {
            return Err(format!("{what}: wrote {writes:?}"));
        }
        ctx.label(if case.create { "created_while_flag_set" } else { "reopened_while_flag_set" });
        ctx.nontrivial = true;
        Ok(())
    })
}

// ---------------------------------------------------------------------------
// (b) a transition racing in-flight operations
// ---------------------------------------------------------------------------

#[derive(Clone, Debug, Serialize, Deserialize)]
pub struct RCase {
    pub transition: Transition,
    pub ops: Vec<COp>,
    pub schedule: Vec<u16>,
}

fn race_transitions() -> [Transition; 4] {
    [Transition::CollectionClose, Transition::CloseCollection, Transition::DeleteCollection, Transition::DatabaseClose]
}

pub fn run_race(case: &RCase, ch: &mut Chooser, ctx: &mut CaseCtx) -> Result<(), String> {
    install_clocks(1_700_000_000_000);
    let rt = tokio::runtime::Builder::new_current_thread().enable_time().build().unwrap();
    let local = tokio::task::LocalSet::new();
    local.block_on(&rt, async {
        let mem = Arc::new(InMemory::new());
        let ctl = Ctl::new();
        ctl.set_logging(true);
        let hub = Hub::new();
        let logged: Arc<dyn ObjectStore> = Arc::new(CtlStore::new(mem.clone(), ctl.clone()));
        let store: Arc<dyn ObjectStore> = Arc::new(ParkStore::new(logged, hub.clone()));
        let db = connect(store, false).await.map_err(|e| e.to_string())?;
        let idx = crate::c05::idx_c05();
        let col = open(&db, &idx).await.map_err(|e| e.to_string())?;
        for n in 0..3u8 {
            let s = DocSpec { name: n, age: n, score: 0, tags: vec![n % 3], opt: None, ukeys: vec![], attrs: vec![], body: vec![n % 5], emb: 0 };
            col.add(make_doc(&col, &s.fields())?).await.map_err(|e| e.to_string())?;
        }
        col.flush(anda_db::unix_ms()).await.map_err(|e| e.to_string())?;
        hub.set_enabled(true);
        let n = case.ops.len();
        let done = Arc::new(AtomicU64::new(0));
        let returned_mark: Arc<std::sync::Mutex<Option<usize>>> = Arc::new(std::sync::Mutex::new(None));
        let rets: Arc<std::sync::Mutex<Vec<Option<Ret>>>> = Arc::new(std::sync::Mutex::new(vec![None; n]));
        let mut handles = vec![];
        for (i, op) in case.ops.iter().cloned().enumerate() {
            let (col, hub2, done, rets) = (col.clone(), hub.clone(), done.clone(), rets.clone());
            handles.push(tokio::task::spawn_local(OP_ID.scope(i as u32, async move {
                hub2.park(vf_core::store::Op::Get, "start", Phase::Start).await;
                let r = run_op(&col, &op).await;
                rets.lock().unwrap()[i] = Some(r);
                done.fetch_add(1, Ordering::SeqCst);
            })));
        }
        {
            let (col, db, hub2, done, ctl2, mark, t) = (col.clone(), db.clone(), hub.clone(), done.clone(), ctl.clone(), returned_mark.clone(), case.transition);
            handles.push(tokio::task::spawn_local(OP_ID.scope(99, async move {
                hub2.park(vf_core::store::Op::Get, "start", Phase::Start).await;
                let r = match t {
                    Transition::CollectionClose => col.close().await.map_err(|e| e.to_string()),
                    Transition::CloseCollection => db.close_collection("docs").await.map_err(|e| e.to_string()),
                    Transition::DeleteCollection => db.delete_collection("docs").await.map_err(|e| e.to_string()),
                    _ => db.close().await.map_err(|e| e.to_string()),
                };
                if r.is_ok() {
                    *mark.lock().unwrap() = Some(ctl2.log_len());
                }
                done.fetch_add(1, Ordering::SeqCst);
            })));
        }
        let total = (n + 1) as u64;
        let progress = {
            let done = done.clone();
            move || done.load(Ordering::SeqCst)
        };
        let mut steps = 0u64;
        let mut queued = false;
        loop {
            vf_core::sched::quiesce(&hub, &progress).await;
            let p = hub.parked();
            if p.is_empty() {
                if progress() >= total {
                    break;
                }
                hub.release_all(true);
                for h in &handles {
                    h.abort();
                }
                return Err("inconclusive: nothing is parked but tasks are unfinished".into());
            }
            // classification: the transition has started while an operation is parked in flight
            if p.iter().any(|x| x.task != 99 && x.phase != Phase::Start) && !p.iter().any(|x| x.task == 99 && x.phase == Phase::Start) && returned_mark.lock().unwrap().is_none() {
                queued = true;
            }
            let c = ch.choose(p.len());
            hub.release(p[c].id, true);
            steps += 1;
            if steps > 4000 {
                hub.release_all(true);
                return Err("inconclusive: schedule did not terminate".into());
            }
        }
        for h in handles {
            let _ = h.await;
        }
        hub.set_enabled(false);
        let mark = *returned_mark.lock().unwrap();
        let Some(mark) = mark else {
            // the transition itself failed (e.g. an operation poisoned the handle first): nothing to assert here
            ctx.label("transition_failed");
            return Ok(());
        };
        // after the transition returned, no call on the retained handle writes - including the ones
        // that were in flight or queued when it began
        let writes = writes_under_collection(&ctl.log(), mark);
        let late: Vec<String> = if case.transition == Transition::DeleteCollection { writes.clone() } else { writes.iter().filter(|w| !w.starts_with("Delete")).cloned().collect() };
        if !late.is_empty() {
            return Err(format!("after {:?} returned, writes under the collection reached the store: {late:?} (operation returns {:?})", case.transition, rets.lock().unwrap()));
        }
        // retained handle afterwards: silent
        let mark2 = ctl.log_len();
        for api in [Api::Add, Api::Update, Api::Flush, Api::SaveExt] {
            if call_api(&col, api, 5).await.is_ok() {
                return Err(format!("after {:?} returned, {api:?} on the retained handle succeeded", case.transition));
            }
        }
        let w = writes_under_collection(&ctl.log(), mark2);
        if !w.is_empty() {
            return Err(format!("after {:?} returned, the retained handle wrote {w:?}", case.transition));
        }
        if case.transition == Transition::DeleteCollection {
            let left: Vec<String> = vf_core::store::dump_store(mem.as_ref()).await.into_keys().filter(|k| k.starts_with("vdb/docs/")).collect();
            if !left.is_empty() {
                return Err(format!("after delete_collection returned, objects remain under its prefix: {left:?}"));
            }
        } else {
            // operations that returned Ok before / during the transition are durable: reopen and compare
            let store: Arc<dyn ObjectStore> = Arc::new(CtlStore::new(mem.clone(), Ctl::new()));
            let db2 = connect(store, false).await.map_err(|e| format!("reopen failed: {e}"))?;
            let col2 = open(&db2, &idx).await.map_err(|e| format!("reopen failed: {e}"))?;
            let mut rec = Model::new();
            for id in col2.ids() {
                rec.insert(id, doc_fields(&col2.get(id).await.map_err(|e| format!("document {id} unreadable after reopen: {e}"))?));
            }
            check_indexes(&col2, &rec, &idx, "reopened after the transition").await?;
            for (i, r) in rets.lock().unwrap().iter().enumerate() {
                if let (Some(Ret::AddOk(id)), COp::Add(spec)) = (r, &case.ops[i]) {
                    let touched = case.ops.iter().any(|o| crate::c05::doc_of(o) == Some(*id));
                    if !touched && rec.get(id) != Some(&spec.fields()) {
                        return Err(format!("an add acknowledged as id {id} is gone after the transition and a reopen"));
                    }
                }
            }
        }
        ctx.nontrivial = queued;
        if queued {
            ctx.label("operation_in_flight_when_transition_began");
        }
        ctx.label(format!("{:?}", case.transition));
        ctx.count("decision_points", steps);
        Ok(())
    })
}

/// Read-only flag vs queued operations: the flag is set (synchronously) at a decision point chosen by
/// the schedule; an operation that had not yet issued any backend call at that moment (not started,
/// or queued behind a flush holding the gate) must never write afterwards.
pub fn run_read_only_race(case: &RCase, ch: &mut Chooser, ctx: &mut CaseCtx) -> Result<(), String> {
    install_clocks(1_700_000_000_000);
    let rt = tokio::runtime::Builder::new_current_thread().enable_time().build().unwrap();
    let local = tokio::task::LocalSet::new();
    local.block_on(&rt, async {
        let mem = Arc::new(InMemory::new());
        let hub = Hub::new();
        let store: Arc<dyn ObjectStore> = Arc::new(ParkStore::new(mem.clone(), hub.clone()));
        let db = connect(store, false).await.map_err(|e| e.to_string())?;
        let idx = crate::c05::idx_c05();
        let col = open(&db, &idx).await.map_err(|e| e.to_string())?;
        for n in 0..3u8 {
            let s = DocSpec { name: n, age: n, score: 0, tags: vec![n % 3], opt: None, ukeys: vec![], attrs: vec![], body: vec![n % 5], emb: 0 };
            col.add(make_doc(&col, &s.fields())?).await.map_err(|e| e.to_string())?;
        }
        col.flush(anda_db::unix_ms()).await.map_err(|e| e.to_string())?;
        // pending work so that a concurrent flush really holds the gate across backend calls
        let s = DocSpec { name: 9, age: 1, score: 0, tags: vec![], opt: None, ukeys: vec![], attrs: vec![], body: vec![1], emb: 0 };
        col.add(make_doc(&col, &s.fields())?).await.map_err(|e| e.to_string())?;
        hub.set_enabled(true);
        let n = case.ops.len();
        let done = Arc::new(AtomicU64::new(0));
        let rets: Arc<std::sync::Mutex<Vec<Option<Ret>>>> = Arc::new(std::sync::Mutex::new(vec![None; n]));
        let mut handles = vec![];
        for (i, op) in case.ops.iter().cloned().enumerate() {
            let (col, hub2, done, rets) = (col.clone(), hub.clone(), done.clone(), rets.clone());
            handles.push(tokio::task::spawn_local(OP_ID.scope(i as u32, async move {
                hub2.park(vf_core::store::Op::Get, "start", Phase::Start).await;
                let r = run_op(&col, &op).await;
                rets.lock().unwrap()[i] = Some(r);
                done.fetch_add(1, Ordering::SeqCst);
            })));
        }
        let progress = {
            let done = done.clone();
            move || done.load(Ordering::SeqCst)
        };
        let mut fired = false;
        let mut wrote_before: Vec<bool> = vec![false; n]; // issued a backend mutation before the flag
        let mut must_stay_silent: Vec<bool> = vec![false; n];
        let mut queued_seen = false;
        let mut started: Vec<bool> = vec![false; n];
        let mut steps = 0u64;
        loop {
            vf_core::sched::quiesce(&hub, &progress).await;
            let p = hub.parked();
            for x in &p {
                if x.phase != Phase::Start && x.op.is_mutation() && (x.task as usize) < n {
                    if !fired {
                        wrote_before[x.task as usize] = true;
                    } else if must_stay_silent[x.task as usize] {
                        hub.release_all(true);
                        for h in &handles {
                            h.abort();
                        }
                        return Err(format!(
                            "{:?} was set while op {} {:?} had not issued any backend call (queued or not started); afterwards it wrote {:?} {}",
                            case.transition, x.task, case.ops[x.task as usize], x.op, x.path
                        ));
                    }
                }
            }
            if p.is_empty() {
                if progress() >= n as u64 {
                    break;
                }
                hub.release_all(true);
                return Err("inconclusive: nothing is parked but tasks are unfinished".into());
            }
            // options: release one parked call, or (once) set the flag now
            let nopt = p.len() + if fired { 0 } else { 1 };
            let c = ch.choose(nopt);
            if c == p.len() {
                fired = true;
                match case.transition {
                    Transition::DatabaseReadOnly => db.set_read_only(true),
                    _ => col.set_read_only(true),
                }
                for i in 0..n {
                    let finished = rets.lock().unwrap()[i].is_some();
                    if !finished && !wrote_before[i] && !matches!(case.ops[i], COp::Flush) {
                        must_stay_silent[i] = true;
                        if started[i] {
                            queued_seen = true; // started, no backend call yet: blocked on the gate
                        }
                    }
                }
            } else {
                if p[c].phase == Phase::Start && (p[c].task as usize) < n {
                    started[p[c].task as usize] = true;
                }
                hub.release(p[c].id, true);
            }
            steps += 1;
            if steps > 4000 {
                hub.release_all(true);
                return Err("inconclusive: schedule did not terminate".into());
            }
        }
        for h in handles {
            let _ = h.await;
        }
        // every op that had to stay silent returned an error
        for i in 0..n {
            if must_stay_silent[i] && is_mut_op(&case.ops[i]) {
                if let Some(r) = &rets.lock().unwrap()[i] {
                    if matches!(r, Ret::AddOk(_) | Ret::Updated(_) | Ret::Removed(Some(_)) | Ret::Unit | Ret::ExtOld(_)) {
                        return Err(format!("{:?} was set before op {i} {:?} issued any backend call, yet it returned {r:?}", case.transition, case.ops[i]));
                    }
                }
            }
        }
        ctx.nontrivial = fired && queued_seen;
        if queued_seen {
            ctx.label("operation_queued_behind_flush_when_flag_set");
        }
        ctx.label(format!("{:?}", case.transition));
        Ok(())
    })
}

fn is_mut_op(op: &COp) -> bool {
    crate::c05::is_mutation(op) && !matches!(op, COp::Flush)
}

fn read_only_race_cases() -> Vec<RCase> {
    let d = |name: u8, age: u8| DocSpec { name, age, score: 0, tags: vec![], opt: None, ukeys: vec![], attrs: vec![], body: vec![name % 5], emb: 0 };
    let ops: Vec<COp> = vec![COp::Add(d(8, 1)), COp::Update { id: 0, spec: d(0, 4), mask: 0b10 }, COp::Remove { id: 1 }, COp::SaveExt { k: 0, v: 1 }];
    let mut v = vec![];
    for t in [Transition::CollectionReadOnly, Transition::DatabaseReadOnly] {
        for o in &ops {
            v.push(RCase { transition: t, ops: vec![COp::Flush, o.clone()], schedule: vec![] });
        }
    }
    v
}

/// A mutating call is cancelled (its task dropped) while a close is already queued behind it: the
/// cancellation poisons the handle, so the queued close must not write.
pub fn run_cancel_vs_queued_close(case: &RCase, ch: &mut Chooser, ctx: &mut CaseCtx) -> Result<(), String> {
    install_clocks(1_700_000_000_000);
    let rt = tokio::runtime::Builder::new_current_thread().enable_time().build().unwrap();
    let local = tokio::task::LocalSet::new();
    local.block_on(&rt, async {
        let mem = Arc::new(InMemory::new());
        let ctl = Ctl::new();
        ctl.set_logging(true);
        let hub = Hub::new();
        let logged: Arc<dyn ObjectStore> = Arc::new(CtlStore::new(mem.clone(), ctl.clone()));
        let store: Arc<dyn ObjectStore> = Arc::new(ParkStore::new(logged, hub.clone()));
        let db = connect(store, false).await.map_err(|e| e.to_string())?;
        let idx = crate::c05::idx_c05();
        let col = open(&db, &idx).await.map_err(|e| e.to_string())?;
        let mut pre = Model::new();
        for n in 0..3u8 {
            let s = DocSpec { name: n, age: n, score: 0, tags: vec![n % 3], opt: None, ukeys: vec![], attrs: vec![], body: vec![n % 5], emb: 0 };
            let id = col.add(make_doc(&col, &s.fields())?).await.map_err(|e| e.to_string())?;
            pre.insert(id, s.fields());
        }
        col.flush(anda_db::unix_ms()).await.map_err(|e| e.to_string())?;
        hub.set_enabled(true);
        let op = case.ops[0].clone();
        let done = Arc::new(AtomicU64::new(0));
        let op_ret: Arc<std::sync::Mutex<Option<Ret>>> = Arc::new(std::sync::Mutex::new(None));
        let tr_ret: Arc<std::sync::Mutex<Option<Result<(), String>>>> = Arc::new(std::sync::Mutex::new(None));
        let op_handle = {
            let (col, hub2, done, op_ret, op) = (col.clone(), hub.clone(), done.clone(), op_ret.clone(), op.clone());
            tokio::task::spawn_local(OP_ID.scope(0, async move {
                hub2.park(vf_core::store::Op::Get, "start", Phase::Start).await;
                let r = run_op(&col, &op).await;
                *op_ret.lock().unwrap() = Some(r);
                done.fetch_add(1, Ordering::SeqCst);
            }))
        };
        let tr_handle = {
            let (col, db, hub2, done, tr_ret, t) = (col.clone(), db.clone(), hub.clone(), done.clone(), tr_ret.clone(), case.transition);
            tokio::task::spawn_local(OP_ID.scope(99, async move {
                hub2.park(vf_core::store::Op::Get, "start", Phase::Start).await;
                let r = match t {
                    Transition::CollectionClose => col.close().await.map_err(|e| e.to_string()),
                    Transition::CloseCollection => db.close_collection("docs").await.map_err(|e| e.to_string()),
                    _ => db.close().await.map_err(|e| e.to_string()),
                };
                *tr_ret.lock().unwrap() = Some(r);
                done.fetch_add(1, Ordering::SeqCst);
            }))
        };
        let progress = {
            let done = done.clone();
            move || done.load(Ordering::SeqCst)
        };
        let mut aborted_at: Option<usize> = None;
        let mut poisoned_at_abort = false;
        let mut close_started = false;
        let mut close_was_queued = false;
        let mut steps = 0u64;
        loop {
            vf_core::sched::quiesce(&hub, &progress).await;
            let p = hub.parked();
            let op_finished = op_ret.lock().unwrap().is_some();
            let expected_done = if aborted_at.is_some() && !op_finished { 1 } else { 2 };
            if p.is_empty() {
                if progress() >= expected_done {
                    break;
                }
                hub.release_all(true);
                op_handle.abort();
                tr_handle.abort();
                return Err("inconclusive: nothing is parked but tasks are unfinished".into());
            }
            // the op is in flight when it is parked inside a backend call
            let op_inflight = p.iter().any(|x| x.task == 0 && x.phase != Phase::Start);
            let can_abort = aborted_at.is_none() && op_inflight;
            let nopt = p.len() + if can_abort { 1 } else { 0 };
            let c = ch.choose(nopt);
            if c == p.len() {
                // drop the mutating future right where it is
                op_handle.abort();
                // its parked call never returns to it
                for x in p.iter().filter(|x| x.task == 0) {
                    hub.release(x.id, false);
                }
                vf_core::sched::quiesce(&hub, &progress).await;
                aborted_at = Some(ctl.log_len());
                poisoned_at_abort = col.is_poisoned();
                close_was_queued = close_started && tr_ret.lock().unwrap().is_none();
            } else {
                if p[c].task == 99 && p[c].phase == Phase::Start {
                    close_started = true;
                }
                hub.release(p[c].id, true);
            }
            steps += 1;
            if steps > 4000 {
                hub.release_all(true);
                return Err("inconclusive: schedule did not terminate".into());
            }
        }
        let _ = tr_handle.await;
        hub.set_enabled(false);
        let Some(mark) = aborted_at else {
            ctx.label("op_never_cancelled");
            return Ok(());
        };
        if !poisoned_at_abort {
            // the drop happened at a point where nothing had been started: fine, nothing to assert
            ctx.label("cancelled_without_poison");
            return Ok(());
        }
        let writes: Vec<String> = writes_under_collection(&ctl.log(), mark);
        if !writes.is_empty() {
            return Err(format!(
                "{:?} was cancelled in flight (handle poisoned) while {:?} was {}; afterwards the handle wrote {writes:?} (transition returned {:?}, state {:?})",
                op,
                case.transition,
                if close_was_queued { "already queued" } else { "not yet started" },
                tr_ret.lock().unwrap(),
                col.state()
            ));
        }
        if col.state() != CollectionState::Poisoned {
            return Err(format!("after a cancelled {:?} and {:?} the handle state is {:?}, not Poisoned", op, case.transition, col.state()));
        }
        // cancel = crash: a reopen yields the pre- or the post-state with consistent indexes
        let store: Arc<dyn ObjectStore> = Arc::new(CtlStore::new(mem.clone(), Ctl::new()));
        let db2 = connect(store, false).await.map_err(|e| format!("reopen failed: {e}"))?;
        let col2 = open(&db2, &idx).await.map_err(|e| format!("reopen failed: {e}"))?;
        let mut rec = Model::new();
        for id in col2.ids() {
            rec.insert(id, doc_fields(&col2.get(id).await.map_err(|e| format!("document {id} unreadable after reopen: {e}"))?));
        }
        check_indexes(&col2, &rec, &idx, "reopened after the cancellation").await?;
        for (id, d) in &pre {
            let touched = crate::c05::doc_of(&op) == Some(*id);
            if !touched && rec.get(id) != Some(d) {
                return Err(format!("untouched document {id} changed across cancellation and reopen"));
            }
        }
        ctx.nontrivial = close_was_queued;
        if close_was_queued {
            ctx.label("close_queued_when_op_was_cancelled");
        }
        ctx.label(format!("{:?}", case.transition));
        Ok(())
    })
}

fn cancel_vs_close_cases() -> Vec<RCase> {
    let d = |name: u8, age: u8| DocSpec { name, age, score: 0, tags: vec![], opt: None, ukeys: vec![], attrs: vec![], body: vec![name % 5], emb: 0 };
    let ops: Vec<COp> = vec![COp::Add(d(8, 1)), COp::Update { id: 0, spec: d(0, 4), mask: 0b10 }, COp::Remove { id: 1 }, COp::SaveExt { k: 0, v: 1 }];
    let mut v = vec![];
    for t in [Transition::CollectionClose, Transition::CloseCollection, Transition::DatabaseClose] {
        for o in &ops {
            v.push(RCase { transition: t, ops: vec![o.clone()], schedule: vec![] });
        }
    }
    v
}

fn race_cases() -> Vec<RCase> {
    let d = |name: u8, age: u8| DocSpec { name, age, score: 0, tags: vec![], opt: None, ukeys: vec![], attrs: vec![], body: vec![name % 5], emb: 0 };
    let ops: Vec<COp> = vec![COp::Add(d(8, 1)), COp::Update { id: 0, spec: d(0, 4), mask: 0b10 }, COp::Remove { id: 1 }, COp::SaveExt { k: 0, v: 1 }, COp::Flush];
    let mut v = vec![];
    for t in race_transitions() {
        for o in &ops {
            v.push(RCase { transition: t, ops: vec![o.clone()], schedule: vec![] });
        }
    }
    v
}

fn rcase_strategy() -> impl Strategy<Value = RCase> {
    (prop::sample::select(race_transitions().to_vec()), crate::c05::case_strategy(3), prop::collection::vec(any::<u16>(), 0..120)).prop_map(|(transition, c, schedule)| RCase { transition, ops: c.ops, schedule })
}

// ---------------------------------------------------------------------------
// (d) a poisoned handle is reopened while operations admitted earlier are still in flight
// ---------------------------------------------------------------------------

/// "cancel = crash ... reopening then yields a state satisfying C01 and C02" - also when the
/// cancelled call was not alone on the handle: 1-2 mutations admitted BEFORE the poisoning are
/// still inside a backend call (or queued behind one of them) when the collection is reopened on
/// the same `AndaDB`. The documented behaviour (database.rs, retiring-handle handling in open):
/// the open waits for the operations already admitted on the poisoned handle to drain, drops the
/// handle and lets the fresh load run the recovery path (seeded change C06-5 loads at once).
#[derive(Clone, Debug, Serialize, Deserialize)]
pub struct ICase {
    /// flushed pre-population (ids 1..)
    pub pre: Vec<DocSpec>,
    /// documents added after the flush (the poisoned handle never checkpoints them)
    pub unflushed: Vec<DocSpec>,
    /// 1-2 mutations that are admitted first and held inside a backend call chosen by the schedule
    pub inflight: Vec<COp>,
    /// the mutation whose cancellation (or injected backend failure) poisons the handle
    pub poisoner: COp,
    /// the reopen goes through `open_collection` (true) or `open_or_create_collection` (false)
    pub plain_open: bool,
    pub schedule: Vec<u16>,
}

const T_POISONER: u32 = 50;
const T_REOPEN: u32 = 99;

fn op_name(op: &COp) -> String {
    match op {
        COp::Add(_) => "add".into(),
        COp::Update { id, .. } => format!("update({})", *id as u64 + 1),
        COp::Remove { id } => format!("remove({})", *id as u64 + 1),
        COp::SaveExt { .. } => "save_extension".into(),
        other => format!("{other:?}"),
    }
}

fn op_kind(op: &COp) -> &'static str {
    match op {
        COp::Add(_) => "add",
        COp::Update { .. } => "update",
        COp::Remove { .. } => "remove",
        COp::SaveExt { .. } => "save_extension",
        _ => "other",
    }
}

fn point_name(x: &vf_core::sched::ParkInfo) -> String {
    let tail = x.path.strip_prefix("vdb/docs/").unwrap_or(&x.path);
    format!("{} its {:?} of {tail} {}", if x.phase == Phase::Before { "before" } else { "after" }, x.op, if x.phase == Phase::Before { "lands" } else { "landed" })
}

fn point_class(x: &vf_core::sched::ParkInfo) -> String {
    let what = if x.path.contains("/data/") {
        "document"
    } else if x.path.contains("mutation_intents/") {
        "intent"
    } else {
        "other"
    };
    format!("{:?}_{what}_{:?}", x.op, x.phase)
}

pub fn run_inflight_reopen(case: &ICase, ch: &mut Chooser, ctx: &mut CaseCtx) -> Result<(), String> {
    install_clocks(1_700_000_000_000);
    let rt = tokio::runtime::Builder::new_current_thread().enable_time().build().unwrap();
    let local = tokio::task::LocalSet::new();
    local.block_on(&rt, async {
        let mem = Arc::new(InMemory::new());
        let ctl = Ctl::new();
        ctl.set_logging(true);
        let hub = Hub::new();
        let logged: Arc<dyn ObjectStore> = Arc::new(CtlStore::new(mem.clone(), ctl.clone()));
        let store: Arc<dyn ObjectStore> = Arc::new(ParkStore::new(logged, hub.clone()));
        let db = connect(store, false).await.map_err(|e| e.to_string())?;
        let idx = crate::c05::idx_c05();
        let col = open(&db, &idx).await.map_err(|e| e.to_string())?;
        let mut pre = Model::new();
        for s in &case.pre {
            let f = s.fields();
            if unique_conflict(&pre, &idx, None, &f) {
                continue;
            }
            let id = col.add(make_doc(&col, &f)?).await.map_err(|e| e.to_string())?;
            pre.insert(id, f);
        }
        col.flush(anda_db::unix_ms()).await.map_err(|e| e.to_string())?;
        for s in &case.unflushed {
            let f = s.fields();
            if unique_conflict(&pre, &idx, None, &f) {
                continue;
            }
            let id = col.add(make_doc(&col, &f)?).await.map_err(|e| e.to_string())?;
            pre.insert(id, f);
        }
        let n = case.inflight.len();
        // the backend reads of the operations are decision points too (an update can be held between
        // its document read and its intent); the reopen parks on its writes only
        hub.set_read_tasks((0..n as u32).chain([T_POISONER]).collect());
        hub.set_enabled(true);
        let done = Arc::new(AtomicU64::new(0));
        let progress = {
            let done = done.clone();
            move || done.load(Ordering::SeqCst)
        };
        let rets: Arc<std::sync::Mutex<Vec<Option<Ret>>>> = Arc::new(std::sync::Mutex::new(vec![None; n]));
        let mut steps = 0u64;

        // stage 1: the in-flight operations, one after the other, each run up to a hold point
        let mut handles = vec![];
        let mut held: Vec<Option<vf_core::sched::ParkInfo>> = vec![None; n];
        let mut queued = vec![false; n];
        for i in 0..n {
            let (col2, done2, rets2, op) = (col.clone(), done.clone(), rets.clone(), case.inflight[i].clone());
            handles.push(tokio::task::spawn_local(OP_ID.scope(i as u32, async move {
                let r = run_op(&col2, &op).await;
                rets2.lock().unwrap()[i] = Some(r);
                done2.fetch_add(1, Ordering::SeqCst);
            })));
            loop {
                vf_core::sched::quiesce(&hub, &progress).await;
                if rets.lock().unwrap()[i].is_some() {
                    break;
                }
                let mine: Vec<_> = hub.parked().into_iter().filter(|x| x.task == i as u32).collect();
                if mine.is_empty() {
                    // admitted, no backend call of its own: it waits for a lock an earlier held operation owns
                    queued[i] = true;
                    break;
                }
                if ch.choose(2) == 1 {
                    held[i] = Some(mine[0].clone());
                    break;
                }
                hub.release(mine[0].id, true);
                steps += 1;
                if steps > 4000 {
                    hub.release_all(true);
                    return Err("inconclusive: schedule did not terminate".into());
                }
            }
        }

        // stage 2: the poisoner; at each of its backend calls: let it pass, drop the future, or (once) fail the call
        let b_ret: Arc<std::sync::Mutex<Option<Ret>>> = Arc::new(std::sync::Mutex::new(None));
        let b_handle = {
            let (col2, done2, b_ret2, op) = (col.clone(), done.clone(), b_ret.clone(), case.poisoner.clone());
            tokio::task::spawn_local(OP_ID.scope(T_POISONER, async move {
                let r = run_op(&col2, &op).await;
                *b_ret2.lock().unwrap() = Some(r);
                done2.fetch_add(1, Ordering::SeqCst);
            }))
        };
        let mut how: Option<String> = None;
        let mut faulted = false;
        loop {
            vf_core::sched::quiesce(&hub, &progress).await;
            if b_ret.lock().unwrap().is_some() {
                break;
            }
            let mine: Vec<_> = hub.parked().into_iter().filter(|x| x.task == T_POISONER).collect();
            let c = if mine.is_empty() { 1 } else { ch.choose(if faulted { 2 } else { 3 }) };
            match c {
                0 => hub.release(mine[0].id, true),
                1 => {
                    b_handle.abort();
                    for x in &mine {
                        hub.release(x.id, false);
                    }
                    vf_core::sched::quiesce(&hub, &progress).await;
                    how = Some(match mine.first() {
                        Some(x) => format!("{} was cancelled (future dropped) {}", op_name(&case.poisoner), point_name(x)),
                        None => format!("{} was cancelled (future dropped) while it waited behind an in-flight operation", op_name(&case.poisoner)),
                    });
                    ctx.label("poisoner_cancelled");
                    break;
                }
                _ => {
                    faulted = true;
                    how = Some(format!("{} failed: the backend reported a failure {}", op_name(&case.poisoner), point_name(&mine[0])));
                    ctx.label("poisoner_backend_failure");
                    hub.release(mine[0].id, false);
                }
            }
            steps += 1;
            if steps > 4000 {
                hub.release_all(true);
                return Err("inconclusive: schedule did not terminate".into());
            }
        }
        if !col.is_poisoned() {
            // the poisoner completed, failed cleanly, or was dropped where nothing had started: no reopen to examine
            hub.release_all(true);
            for h in handles {
                let _ = h.await;
            }
            let _ = b_handle.await;
            ctx.label("handle_not_poisoned");
            return Ok(());
        }
        let how = how.unwrap_or_else(|| format!("{} poisoned the handle", op_name(&case.poisoner)));

        // stage 3: the reopen on the same database, while the admitted operations are where they were held
        let unfinished_at_reopen: Vec<usize> = (0..n).filter(|i| rets.lock().unwrap()[*i].is_none()).collect();
        let in_flight: Vec<String> = (0..n)
            .filter_map(|i| held[i].as_ref().filter(|_| unfinished_at_reopen.contains(&i)).map(|x| format!("{} (held {})", op_name(&case.inflight[i]), point_name(x))))
            .chain((0..n).filter(|i| queued[*i] && unfinished_at_reopen.contains(i)).map(|i| format!("{} (queued behind it)", op_name(&case.inflight[i]))))
            .collect();
        let r_ret: Arc<std::sync::Mutex<Option<Result<Arc<Collection>, String>>>> = Arc::new(std::sync::Mutex::new(None));
        let r_handle = {
            let (db2, done2, r_ret2, idx2, plain) = (db.clone(), done.clone(), r_ret.clone(), idx.clone(), case.plain_open);
            tokio::task::spawn_local(OP_ID.scope(T_REOPEN, async move {
                let r = if plain { db2.open_collection("docs".to_string(), async |_c: &mut Collection| Ok(())).await } else { open(&db2, &idx2).await };
                *r_ret2.lock().unwrap() = Some(r.map_err(|e| e.to_string()));
                done2.fetch_add(1, Ordering::SeqCst);
            }))
        };
        let mut late: Vec<String> = vec![];
        let mut overlapped = false;
        loop {
            vf_core::sched::quiesce(&hub, &progress).await;
            let ops_done = rets.lock().unwrap().iter().all(|r| r.is_some());
            let reopened = r_ret.lock().unwrap().is_some();
            if ops_done && reopened {
                break;
            }
            let p = hub.parked();
            if p.is_empty() {
                hub.release_all(true);
                for h in &handles {
                    h.abort();
                }
                r_handle.abort();
                return Err("inconclusive: nothing is parked but tasks are unfinished".into());
            }
            if !ops_done && p.iter().any(|x| x.task == T_REOPEN) {
                overlapped = true;
            }
            // options: every parked call of an admitted operation, and the OLDEST parked write of the reopen
            // (the order among the reopen's own concurrent index writes is not explored)
            let mut opts: Vec<&vf_core::sched::ParkInfo> = p.iter().filter(|x| (x.task as usize) < n).collect();
            if let Some(x) = p.iter().find(|x| (x.task as usize) >= n) {
                opts.push(x);
            }
            let c = ch.choose(opts.len());
            let x = opts[c];
            if (x.task as usize) < n && reopened && x.op.is_mutation() && x.phase == Phase::Before {
                late.push(format!("{:?} {} (by {})", x.op, x.path, op_name(&case.inflight[x.task as usize])));
            }
            hub.release(x.id, true);
            steps += 1;
            if steps > 4000 {
                hub.release_all(true);
                return Err("inconclusive: schedule did not terminate".into());
            }
        }
        for h in handles {
            let _ = h.await;
        }
        let _ = b_handle.await;
        let _ = r_handle.await;
        hub.set_enabled(false);
        let rets: Vec<Ret> = rets.lock().unwrap().iter().map(|r| r.clone().unwrap()).collect();

        let scene = if in_flight.is_empty() { format!("{how}; the collection was reopened") } else { format!("{how} while {} on the same handle; the collection was reopened before that finished", in_flight.join(" and ")) };
        let fresh = match r_ret.lock().unwrap().take().unwrap() {
            Ok(c) => c,
            Err(e) => return Err(format!("{scene}: reopening the poisoned collection failed: {e}")),
        };
        if Arc::ptr_eq(&fresh, &col) || fresh.state() != CollectionState::Active {
            return Err(format!("{scene}: the open returned {} in state {:?}", if Arc::ptr_eq(&fresh, &col) { "the poisoned handle itself" } else { "a handle" }, fresh.state()));
        }
        // (1) every index of the reopened handle answers exactly from the stored documents
        let mut rec = Model::new();
        for id in fresh.ids() {
            rec.insert(id, doc_fields(&fresh.get(id).await.map_err(|e| format!("{scene}: the reopened handle lists document {id} but cannot read it: {e} (operation returns {rets:?})"))?));
        }
        check_indexes(&fresh, &rec, &idx, &format!("{scene}: reopened handle"))
            .await
            .map_err(|e| if late.is_empty() { e } else { format!("{e} [after the open had returned, the retired handle still wrote {late:?}]") })?;
        // (2) a poisoned handle that has been replaced does not change storage
        if !late.is_empty() {
            return Err(format!("{scene}: open_collection returned the fresh handle although an operation admitted on the poisoned handle had not finished; the retired handle then wrote {late:?}"));
        }
        // (3) cancel = crash: untouched documents unchanged, acknowledged calls in effect, the others all-or-nothing
        let all_ops: Vec<&COp> = case.inflight.iter().chain([&case.poisoner]).collect();
        let touches = |id: u64| all_ops.iter().filter(|o| crate::c05::doc_of(o) == Some(id)).count();
        for (id, d) in &pre {
            if touches(*id) == 0 && rec.get(id) != Some(d) {
                return Err(format!("{scene}: untouched document {id} changed across the reopen: {:?}, was {d:?}", rec.get(id)));
            }
        }
        let all_rets: Vec<Option<Ret>> = rets.iter().cloned().map(Some).chain([b_ret.lock().unwrap().clone()]).collect();
        for (i, op) in all_ops.iter().enumerate() {
            let ret = all_rets[i].as_ref();
            match op {
                COp::Update { id, spec, mask } => {
                    let id = *id as u64 + 1;
                    let Some(old) = pre.get(&id) else { continue };
                    if touches(id) != 1 {
                        continue;
                    }
                    let new = merged(old, spec, *mask).0;
                    let got = rec.get(&id);
                    if matches!(ret, Some(Ret::Updated(_))) {
                        if got != Some(&new) {
                            return Err(format!("{scene}: update({id}) was acknowledged, after the reopen document {id} is {got:?}, acknowledged {new:?}"));
                        }
                    } else if got != Some(&new) && got != Some(old) {
                        return Err(format!("{scene}: document {id} is neither the pre- nor the post-state of the unacknowledged update: {got:?}"));
                    }
                }
                COp::Remove { id } => {
                    let id = *id as u64 + 1;
                    let Some(old) = pre.get(&id) else { continue };
                    if touches(id) != 1 {
                        continue;
                    }
                    let got = rec.get(&id);
                    if matches!(ret, Some(Ret::Removed(Some(_)))) {
                        if got.is_some() {
                            return Err(format!("{scene}: remove({id}) was acknowledged, after the reopen document {id} is back"));
                        }
                    } else if got.is_some() && got != Some(old) {
                        return Err(format!("{scene}: document {id} is neither present unchanged nor absent after the unacknowledged remove: {got:?}"));
                    }
                }
                COp::Add(spec) => {
                    if let Some(Ret::AddOk(id)) = ret {
                        if rec.get(id) != Some(&spec.fields()) {
                            return Err(format!("{scene}: an add acknowledged as id {id} reads {:?} after the reopen", rec.get(id)));
                        }
                    }
                }
                _ => {}
            }
        }
        for (id, d) in &rec {
            if !pre.contains_key(id) && !all_ops.iter().any(|o| matches!(o, COp::Add(s) if &s.fields() == d)) {
                return Err(format!("{scene}: document {id} = {d:?} exists after the reopen; no add wrote it"));
            }
        }
        // (4) the reopened handle is usable
        let marker = fresh_spec(70).fields();
        let mid = fresh.add(make_doc(&fresh, &marker)?).await.map_err(|e| format!("{scene}: the reopened handle refuses an add: {e}"))?;
        if rec.insert(mid, marker).is_some() {
            return Err(format!("{scene}: the reopened handle handed out the id {mid} of a live document"));
        }
        check_indexes(&fresh, &rec, &idx, &format!("{scene}: reopened handle after one more add")).await?;
        // (5) the retired handle refuses everything, stays Poisoned and is silent
        let mark = ctl.log_len();
        for api in [Api::Add, Api::Update, Api::Remove, Api::Flush, Api::SaveExt, Api::Reconcile, Api::ReenableThenAdd] {
            if call_api(&col, api, 5).await.is_ok() {
                return Err(format!("{scene}: afterwards {api:?} on the retired (poisoned) handle succeeded"));
            }
        }
        let w = writes_under_collection(&ctl.log(), mark);
        if !w.is_empty() {
            return Err(format!("{scene}: afterwards the retired (poisoned) handle wrote {w:?}"));
        }
        if col.state() != CollectionState::Poisoned {
            return Err(format!("{scene}: the retired handle is in state {:?}, not Poisoned", col.state()));
        }
        // (6) the same after a flush and a restart over the same storage
        fresh.flush(anda_db::unix_ms()).await.map_err(|e| format!("{scene}: flush on the reopened handle failed: {e}"))?;
        db.close().await.map_err(|e| format!("{scene}: closing the database failed: {e}"))?;
        let store: Arc<dyn ObjectStore> = Arc::new(CtlStore::new(mem.clone(), Ctl::new()));
        let db2 = connect(store, false).await.map_err(|e| format!("{scene}: restart failed: {e}"))?;
        let col2 = open(&db2, &idx).await.map_err(|e| format!("{scene}: restart failed: {e}"))?;
        let mut rec2 = Model::new();
        for id in col2.ids() {
            rec2.insert(id, doc_fields(&col2.get(id).await.map_err(|e| format!("{scene}: after flush + restart document {id} is listed but unreadable: {e}"))?));
        }
        if rec2 != rec {
            let diff: Vec<u64> = rec.keys().chain(rec2.keys()).filter(|id| rec.get(id) != rec2.get(id)).cloned().collect::<std::collections::BTreeSet<u64>>().into_iter().collect();
            return Err(format!(
                "{scene}: the reopened handle was flushed and the database closed; a restart reads other documents than the reopened handle did (ids {diff:?}: reopened handle {:?}, restart {:?})",
                diff.iter().map(|i| rec.get(i)).collect::<Vec<_>>(),
                diff.iter().map(|i| rec2.get(i)).collect::<Vec<_>>()
            ));
        }
        check_indexes(&col2, &rec2, &idx, &format!("{scene}: after flush + restart")).await?;

        let any_held = (0..n).any(|i| held[i].is_some() && unfinished_at_reopen.contains(&i));
        ctx.nontrivial = any_held;
        for i in 0..n {
            if !unfinished_at_reopen.contains(&i) {
                continue;
            }
            if let Some(x) = &held[i] {
                ctx.label(format!("in_flight_at_reopen:{}:{}", op_kind(&case.inflight[i]), point_class(x)));
            } else if queued[i] {
                ctx.label(format!("queued_at_reopen:{}", op_kind(&case.inflight[i])));
            }
        }
        if unfinished_at_reopen.is_empty() {
            ctx.label("nothing_in_flight_at_reopen");
        }
        if overlapped {
            ctx.label("reopen_wrote_while_an_operation_was_unfinished");
        }
        ctx.label(format!("poisoner:{}", op_kind(&case.poisoner)));
        ctx.count("decision_points", steps);
        Ok(())
    })
}

fn ispec(name: u8, age: u8, tags: Vec<u8>, body: Vec<u8>) -> DocSpec {
    DocSpec { name, age, score: 0, tags, opt: None, ukeys: vec![], attrs: vec![], body, emb: 0 }
}

/// Update masks never select a unique field (name, ukeys) and added documents carry names nobody
/// else holds: no operation of a case releases or claims a unique value another one wants, which
/// keeps the listed C04 finding (value released before its release is durable) out of this sub-check.
const NON_UNIQUE_MASK: u16 = 0b1_1101_1110;

fn inflight_reopen_shapes() -> Vec<ICase> {
    let pre = vec![ispec(0, 0, vec![0], vec![0]), ispec(1, 1, vec![1], vec![1]), ispec(2, 2, vec![2, 0], vec![2, 3])];
    let unflushed = vec![ispec(10, 1, vec![1], vec![4])];
    let upd = |id: u8, age: u8| COp::Update { id, spec: ispec(0, age, vec![2], vec![3, 4]), mask: 0b1000_1010 };
    let inflights: Vec<Vec<COp>> = vec![
        vec![upd(0, 4)],
        vec![COp::Remove { id: 1 }],
        vec![COp::Add(ispec(50, 2, vec![0, 1], vec![1, 2]))],
        vec![upd(0, 4), upd(0, 3)],
        vec![COp::Remove { id: 1 }, upd(3, 2)],
    ];
    let poisoners: Vec<COp> = vec![COp::Add(ispec(60, 3, vec![1], vec![0, 2])), upd(2, 0), COp::Remove { id: 2 }, COp::SaveExt { k: 0, v: 1 }];
    let mut v = vec![];
    for (i, inflight) in inflights.iter().enumerate() {
        for (j, poisoner) in poisoners.iter().enumerate() {
            v.push(ICase { pre: pre.clone(), unflushed: unflushed.clone(), inflight: inflight.clone(), poisoner: poisoner.clone(), plain_open: (i + j) % 2 == 0, schedule: vec![] });
        }
    }
    v
}

fn icase_strategy() -> impl Strategy<Value = ICase> {
    let spec = || (0u8..4, prop::collection::vec(0u8..3, 0..3), prop::collection::vec(0u8..5, 0..3));
    let op = move || {
        prop_oneof![
            3 => spec().prop_map(|(age, tags, body)| COp::Add(ispec(0, age, tags, body))),
            5 => (any::<u8>(), spec(), 1u16..512).prop_map(|(id, (age, tags, body), mask)| COp::Update { id, spec: ispec(0, age, tags, body), mask }),
            3 => any::<u8>().prop_map(|id| COp::Remove { id }),
            1 => (0u8..2, any::<u8>()).prop_map(|(k, v)| COp::SaveExt { k, v }),
        ]
    };
    (
        prop::collection::vec(spec(), 1..4),
        prop::collection::vec(spec(), 0..2),
        prop::collection::vec(op(), 1..3),
        op(),
        any::<bool>(),
        prop::collection::vec(any::<u16>(), 0..60),
    )
        .prop_map(|(pre, unflushed, inflight, poisoner, plain_open, schedule)| {
            let ndocs = (pre.len() + unflushed.len()) as u8;
            let pre: Vec<DocSpec> = pre.into_iter().enumerate().map(|(i, (age, tags, body))| ispec(i as u8, age, tags, body)).collect();
            let unflushed: Vec<DocSpec> = unflushed.into_iter().enumerate().map(|(i, (age, tags, body))| ispec(10 + i as u8, age, tags, body)).collect();
            let fix = |k: usize, op: COp| match op {
                COp::Add(mut s) => {
                    s.name = 50 + k as u8;
                    COp::Add(s)
                }
                COp::Update { id, spec, mask } => COp::Update { id: id % ndocs, spec, mask: if mask & NON_UNIQUE_MASK == 0 { 0b10 } else { mask & NON_UNIQUE_MASK } },
                COp::Remove { id } => COp::Remove { id: id % ndocs },
                other => other,
            };
            let inflight: Vec<COp> = inflight.into_iter().enumerate().map(|(k, o)| fix(k, o)).collect();
            let poisoner = fix(9, poisoner);
            ICase { pre, unflushed, inflight, poisoner, plain_open, schedule }
        })
}

pub fn run(r: &mut Runner) {
    r.assume("auto_flush timing and cancellation of index create/remove (they run inside the open callback on an unregistered &mut Collection) are not covered");
    r.assume("Collection::close on a read-only handle is documented as 'switch to read-only, then flush pending state': its flush may write; the check is then on content (a reopen yields the state the handle had when the flag was set)");
    r.sub_enum(
        "lifecycle_matrix",
        "complete matrix: 8 transitions (collection read-only, database read-only, Collection::close, close_collection, delete_collection, AndaDB::close, poison by a cancelled add, poison by a failed flush) x 11 mutating calls (add, update, remove, flush, save/remove extension, compact B-tree / BM25, reconcile_storage, close, set_read_only(false)+add) issued twice on a RETAINED Arc<Collection> after the transition, over a logging store. Oracle: closed / deleted / poisoned: no write under the collection's prefix, every call an error, set_read_only(false) does not revive the handle; read-only: every call except close errors and writes nothing; after delete_collection nothing remains under the prefix; a fresh reopen yields exactly the logical state of the transition point. Non-trivial = always",
        true,
        matrix_cases(),
        run_matrix_case,
    );
    r.sub(
        "lifecycle_matrix_generated",
        "the same matrix over generated pre-populations (0-5 flushed + 0-2 unflushed generated documents)",
        (6000, 150_000),
        mcase_strategy,
        run_matrix_case,
    );
    r.sub_enum(
        "cancellation_every_poll",
        "10 mutating APIs x every poll count k in 0..47 over a store that yields before and after every backend call: the future is polled k times and dropped. Oracle: the handle is Poisoned, or Active with the full index observation equal to the pre-op model (no partial effect); a fresh reopen yields the pre- or the post-state of that op with all indexes agreeing; a call that completed with Ok is in effect after reopen. Non-trivial = the future was dropped before completion after work had started",
        true,
        cancel_cases(),
        run_cancel_case,
    );
    r.sub_enum(
        "read_only_set_while_a_handle_is_opened",
        "the database-level read-only flag is set INSIDE the open / create callback of a collection (after the constructor looked at the flag, before the handle is registered) x 9 mutating calls issued twice on the handle that comes out: every call an error, no write under the collection's prefix. Non-trivial = always",
        true,
        open_race_cases(),
        run_open_race_case,
    );
    r.sub_enum(
        "transition_cancellation_every_poll",
        "delete_collection, close_collection and AndaDB::close x every poll count k in 0..63 over a store that yields before and after every backend call: the transition's future is polled k times and dropped; then the RETAINED handle is asked for an add and a flush, and the database is restarted over the same storage. Oracle: if the retained handle acknowledged the add and the flush, the restart finds the collection and the document (no acknowledged write under a prefix nothing will find); a collection that was not deleted reopens; whatever reopens has consistent indexes. Non-trivial = the future was dropped before completion after backend work had started",
        true,
        tcancel_cases(),
        run_tcancel_case,
    );
    let budget = r.tier.pick(800usize, 40_000usize);
    r.sub_enum(
        "transition_races_all_interleavings",
        "4 transitions (Collection::close, close_collection, delete_collection, AndaDB::close) x 5 single in-flight operations (add, update, remove, save_extension, flush): the operation and the transition run as tasks over ParkStore(logging store); EVERY release order of their backend steps is enumerated. Oracle: once the transition has returned no write under the collection reaches the store (only deletions for delete_collection), the retained handle refuses and stays silent, nothing remains under a deleted prefix, otherwise a reopen has consistent indexes and keeps acknowledged adds. Non-trivial = the operation was in flight (parked inside a backend call) when the transition began",
        true,
        race_cases(),
        move |case, ctx| {
            let mut nontrivial = false;
            let mut labels: Vec<String> = vec![];
            let res = vf_core::sched::dfs(budget, |ch| {
                let mut c2 = CaseCtx::default();
                let r = run_race(case, ch, &mut c2);
                nontrivial |= c2.nontrivial;
                for l in c2.labels {
                    if !labels.contains(&l) {
                        labels.push(l);
                    }
                }
                r
            });
            ctx.nontrivial = nontrivial;
            for l in labels {
                ctx.label(l);
            }
            match res {
                Ok((n, exhausted)) => {
                    ctx.count("schedules", n as u64);
                    ctx.count(if exhausted { "sets_fully_enumerated" } else { "sets_cut_by_budget" }, 1);
                    Ok(())
                }
                Err((choices, e)) => Err(format!("{e} [choices {choices:?}]")),
            }
        },
    );
    let cv_budget = r.tier.pick(4000usize, 100_000usize);
    r.sub_enum(
        "cancel_vs_queued_close_all_interleavings",
        "3 close transitions (Collection::close, close_collection, AndaDB::close) x 4 operations (add, update, remove, save_extension): the operation's future is DROPPED at every decision point at which it is parked inside a backend call, for every release order, with the close not yet started, started, or already queued behind the operation. Oracle: once the cancellation has poisoned the handle nothing is written under the collection any more (a queued close must not flush the diverged state), the handle stays Poisoned, and a reopen yields consistent indexes with untouched documents unchanged. Non-trivial = the close was already queued when the operation was cancelled",
        true,
        cancel_vs_close_cases(),
        move |case, ctx| {
            let mut nontrivial = false;
            let res = vf_core::sched::dfs(cv_budget, |ch| {
                let mut c2 = CaseCtx::default();
                let r = run_cancel_vs_queued_close(case, ch, &mut c2);
                nontrivial |= c2.nontrivial;
                r
            });
            ctx.nontrivial = nontrivial;
            match res {
                Ok((n, exhausted)) => {
                    ctx.count("schedules", n as u64);
                    ctx.count(if exhausted { "sets_fully_enumerated" } else { "sets_cut_by_budget" }, 1);
                    Ok(())
                }
                Err((choices, e)) => Err(format!("{e} [choices {choices:?}]")),
            }
        },
    );
    r.sub(
        "cancel_vs_queued_close_generated",
        "the same 12 (close transition, operation) pairs under generated schedules (which also choose the decision point at which the operation's future is dropped); same oracle. Non-trivial = the close was already queued when the operation was cancelled",
        (20_000, 600_000),
        || (0usize..12, prop::collection::vec(any::<u16>(), 0..80)).prop_map(|(i, schedule)| {
            let mut c = cancel_vs_close_cases()[i].clone();
            c.schedule = schedule;
            c
        }),
        |case, ctx| {
            let mut ch = Chooser::from_random(case.schedule.clone());
            run_cancel_vs_queued_close(case, &mut ch, ctx)
        },
    );
    let ro_budget = r.tier.pick(1500usize, 60_000usize);
    r.sub_enum(
        "read_only_vs_queued_all_interleavings",
        "2 read-only flags (collection, database) x 4 operations (add, update, remove, save_extension), each racing a flush that holds the exclusive gate across its backend calls: every release order AND every decision point at which the flag is set are enumerated depth-first. Oracle: an operation that had not issued any backend call when the flag was set - not started, or started and queued behind the flush - never writes afterwards and returns an error. Non-trivial = the operation was queued (started, no backend call yet) when the flag was set",
        true,
        read_only_race_cases(),
        move |case, ctx| {
            let mut nontrivial = false;
            let res = vf_core::sched::dfs(ro_budget, |ch| {
                let mut c2 = CaseCtx::default();
                let r = run_read_only_race(case, ch, &mut c2);
                nontrivial |= c2.nontrivial;
                r
            });
            ctx.nontrivial = nontrivial;
            match res {
                Ok((n, exhausted)) => {
                    ctx.count("schedules", n as u64);
                    ctx.count(if exhausted { "sets_fully_enumerated" } else { "sets_cut_by_budget" }, 1);
                    Ok(())
                }
                Err((choices, e)) => Err(format!("{e} [choices {choices:?}]")),
            }
        },
    );
    let ir_budget = r.tier.pick(400usize, 12_000usize);
    r.sub_enum(
        "reopen_while_an_operation_is_in_flight_all_hold_points",
        "cancel = crash with company: over a flushed 3-document collection plus one unflushed add, 5 sets of 1-2 mutations (update, remove, add, two updates of one document - the second queued behind the first -, remove + update) are admitted on the handle and each is HELD before or after one of its backend calls (document read, intent write, document put / delete); then 4 poisoners (add, update, remove, save_extension) run on the same handle and at each of their backend calls the call passes, the future is DROPPED, or the backend reports a failure; once the handle is Poisoned the collection is reopened on the same AndaDB (open_collection / open_or_create_collection alternating) while the held operations are still where they were, and every release order of their remaining backend steps and the reopen's own writes is taken. All hold points x poison points x release orders are enumerated depth-first (budget in the counters). Oracle (all tasks finished): the open succeeds with a new Active handle; every index of the reopened handle answers exactly from the documents it reads (C02 observation, both directions); no backend write of an operation admitted on the poisoned handle lands after the open has returned its replacement; untouched documents are unchanged, acknowledged add / update / remove of a document nobody else touched are in effect, unacknowledged ones all-or-nothing, no document from nowhere; the reopened handle accepts one more add and stays consistent; the retired handle refuses add / update / remove / flush / save_extension / reconcile / set_read_only(false)+add, writes nothing and stays Poisoned; after flush + AndaDB::close a restart over the same storage reads exactly the documents the reopened handle read, with all indexes agreeing. No case releases or claims a unique value (the listed C04 finding is out of scope here). Non-trivial = the handle was poisoned and the reopen was issued while at least one admitted operation was still held inside a backend call",
        true,
        inflight_reopen_shapes(),
        move |case, ctx| {
            let mut nontrivial = false;
            let mut labels: Vec<String> = vec![];
            let res = vf_core::sched::dfs(ir_budget, |ch| {
                let mut c2 = CaseCtx::default();
                let r = run_inflight_reopen(case, ch, &mut c2);
                nontrivial |= c2.nontrivial;
                for l in c2.labels {
                    if !labels.contains(&l) {
                        labels.push(l);
                    }
                }
                r
            });
            ctx.nontrivial = nontrivial;
            for l in labels {
                ctx.label(l);
            }
            match res {
                Ok((n, exhausted)) => {
                    ctx.count("schedules", n as u64);
                    ctx.count(if exhausted { "sets_fully_enumerated" } else { "sets_cut_by_budget" }, 1);
                    Ok(())
                }
                Err((choices, e)) => Err(format!("{e} [choices {choices:?}]")),
            }
        },
    );
    r.sub(
        "reopen_while_an_operation_is_in_flight_generated",
        "the same explorer over generated collections (1-3 flushed + 0-1 unflushed generated documents), 1-2 generated in-flight mutations (add / update of non-unique fields / remove / save_extension on generated targets), a generated poisoner, the reopen API and a generated schedule that chooses the hold points, the point and kind of the poisoning (drop / backend failure) and the release order during the reopen; same oracle. Non-trivial = the handle was poisoned and the reopen was issued while at least one admitted operation was still held inside a backend call",
        (5000, 150_000),
        icase_strategy,
        |case, ctx| {
            let mut ch = Chooser::from_random(case.schedule.clone());
            run_inflight_reopen(case, &mut ch, ctx)
        },
    );
    r.sub(
        "transition_races_generated",
        "a generated transition racing 2-3 generated operations under a generated schedule; same oracle",
        (40_000, 1_000_000),
        rcase_strategy,
        |case, ctx| {
            let mut ch = Chooser::from_random(case.schedule.clone());
            run_race(case, &mut ch, ctx)
        },
    );
}
