//! Operation histories over one collection and their interpreter (T1), shared
//! by C01 (crash points), C02 (index observation) and C04 (uniqueness).

use crate::world::*;
use anda_db::collection::Collection;
use anda_db::database::AndaDB;
use anda_db::error::DBError;
use anda_db::schema::Fv;
use proptest::prelude::*;
use serde::{Deserialize, Serialize};
use std::collections::{BTreeMap, BTreeSet};
use std::sync::Arc;
use vf_core::{CaseCtx, pick_idx};

pub const FIELDS: [&str; 9] = ["name", "age", "score", "tags", "opt", "ukeys", "attrs", "body", "emb"];

#[derive(Clone, Debug, Serialize, Deserialize)]
pub enum HOp {
    Add(DocSpec),
    /// add that must be rejected: 0 = wrong type, 1 = missing required field, 2 = Null under a non-optional field, 3 = unknown field,
    /// 4 = a valid document whose encoding exceeds the configured object size limit (rejected at the storage step, after the indexes took it)
    AddInvalid(u8, DocSpec),
    /// update of a live document (selected by index) with the fields of `spec` selected by `mask`
    Update { t: u16, spec: DocSpec, mask: u16 },
    /// rejected update: 0 = unknown field, 1 = wrong type, 2 = missing id
    UpdateBad { t: u16, kind: u8 },
    Remove { t: u16 },
    RemoveMissing,
    Flush,
    SaveExt { k: u8, v: u8 },
    RemoveExt { k: u8 },
    CompactBtree(u8),
    CompactBm25,
    /// close (or abandon without close) the database and reopen it with fresh wrappers;
    /// the open callback brings the index set to `idx` (creation backfills, removal drops)
    Reopen { close: bool, idx: Option<IndexSet> },
}

pub fn op_strategy(weights_conflict_heavy: bool) -> impl Strategy<Value = HOp> {
    let spec = DocSpec::strategy;
    let w_add = if weights_conflict_heavy { 14 } else { 10 };
    prop_oneof![
        w_add => spec().prop_map(HOp::Add),
        1 => (0u8..5, spec()).prop_map(|(k, s)| HOp::AddInvalid(k, s)),
        8 => (any::<u16>(), spec(), 1u16..512).prop_map(|(t, spec, mask)| HOp::Update { t, spec, mask }),
        1 => (any::<u16>(), 0u8..3).prop_map(|(t, kind)| HOp::UpdateBad { t, kind }),
        4 => any::<u16>().prop_map(|t| HOp::Remove { t }),
        1 => Just(HOp::RemoveMissing),
        3 => Just(HOp::Flush),
        1 => (0u8..3, any::<u8>()).prop_map(|(k, v)| HOp::SaveExt { k, v }),
        1 => (0u8..3).prop_map(|k| HOp::RemoveExt { k }),
        1 => (0u8..8).prop_map(HOp::CompactBtree),
        1 => Just(HOp::CompactBm25),
        2 => (any::<bool>(), prop::option::weighted(0.4, IndexSet::strategy())).prop_map(|(close, idx)| HOp::Reopen { close, idx }),
    ]
}

pub struct Sys {
    pub be: Backend,
    pub db: AndaDB,
    pub col: Arc<Collection>,
    pub idx: IndexSet,
    pub compress: bool,
}

impl Sys {
    pub async fn create(kind: BackendKind, compress: bool, idx: &IndexSet) -> Result<Sys, DBError> {
        let be = Backend::new(kind);
        let db = connect(be.store(), compress).await?;
        let col = open(&db, idx).await?;
        Ok(Sys { be, db, col, idx: idx.clone(), compress })
    }
    /// Reconnect with fresh wrapper instances over the surviving backend.
    pub async fn reopen(&mut self, idx: &IndexSet) -> Result<(), DBError> {
        let db = connect(self.be.store(), self.compress).await?;
        let col = open(&db, idx).await?;
        self.db = db;
        self.col = col;
        self.idx = idx.clone();
        Ok(())
    }
}

#[derive(Clone, Default)]
pub struct Track {
    pub model: Model,
    pub exts: BTreeMap<String, Fv>,
    /// ids that were live at some acknowledged flush / close
    pub flushed_ids: BTreeSet<u64>,
    pub any_flush: bool,
    pub updates_of_indexed: u64,
    pub removes: u64,
    pub rejected: u64,
    pub accepted_after_reject: bool,
    pub backfills: u64,
    pub reopens: u64,
}

#[derive(Debug)]
pub enum Exec {
    Applied,
    Rejected,
    /// the operation failed with a backend error (only legitimate when a fault was injected)
    BackendErr(String),
}

pub fn live_id(model: &Model, t: u16) -> Option<u64> {
    if model.is_empty() { None } else { model.keys().nth(pick_idx(t, model.len())).cloned() }
}

pub fn merged(old: &MDoc, spec: &DocSpec, mask: u16) -> (MDoc, BTreeMap<String, Fv>) {
    let all = spec.fields();
    let mut changed = BTreeMap::new();
    let mut new = old.clone();
    for (i, f) in FIELDS.iter().enumerate() {
        if mask & (1 << i) != 0 {
            changed.insert(f.to_string(), all[*f].clone());
            new.insert(f.to_string(), all[*f].clone());
        }
    }
    (new, changed)
}

fn is_state_err(e: &DBError) -> bool {
    let s = format!("{e:?}");
    s.contains("Poisoned") || s.contains("poisoned")
}

/// What the model says `op` does; `None` = must be rejected / no change.
pub enum Predict {
    Add(MDoc),
    Update(u64, MDoc),
    Remove(u64),
    NoDocChange,
}

pub fn predict(tr: &Track, idx: &IndexSet, op: &HOp) -> Predict {
    match op {
        HOp::Add(spec) => {
            let f = spec.fields();
            if unique_conflict(&tr.model, idx, None, &f) { Predict::NoDocChange } else { Predict::Add(f) }
        }
        HOp::Update { t, spec, mask } => match live_id(&tr.model, *t) {
            None => Predict::NoDocChange,
            Some(id) => {
                let (new, _) = merged(&tr.model[&id], spec, *mask);
                if unique_conflict(&tr.model, idx, Some(id), &new) { Predict::NoDocChange } else { Predict::Update(id, new) }
            }
        },
        HOp::Remove { t } => match live_id(&tr.model, *t) {
            None => Predict::NoDocChange,
            Some(id) => Predict::Remove(id),
        },
        _ => Predict::NoDocChange,
    }
}

/// Executes one op against the real collection and the model. `Err(String)` is
/// an oracle violation. A backend error is returned as `Exec::BackendErr`
/// (the caller decides whether a fault explains it).
pub async fn exec_op(sys: &mut Sys, tr: &mut Track, op: &HOp, ctx: &mut CaseCtx) -> Result<Exec, String> {
    let col = sys.col.clone();
    match op {
        HOp::Add(spec) => {
            let f = spec.fields();
            let conflict = unique_conflict(&tr.model, &sys.idx, None, &f);
            let d = make_doc(&col, &f)?;
            match col.add(d).await {
                Ok(id) => {
                    if conflict {
                        return Err(format!("add of {f:?} was accepted as id {id} although a live document holds one of its unique values"));
                    }
                    if tr.model.contains_key(&id) {
                        return Err(format!("add returned id {id}, which is the id of a live document"));
                    }
                    if tr.flushed_ids.contains(&id) {
                        return Err(format!("add returned id {id}, which a flush had acknowledged for a different (since removed) document"));
                    }
                    if tr.rejected > 0 {
                        tr.accepted_after_reject = true;
                    }
                    tr.model.insert(id, f);
                    Ok(Exec::Applied)
                }
                Err(DBError::AlreadyExists { .. }) if conflict => {
                    tr.rejected += 1;
                    ctx.count("rejected_unique_add", 1);
                    Ok(Exec::Rejected)
                }
                Err(e) if conflict && !is_state_err(&e) && format!("{e:?}").contains("AlreadyExists") => {
                    tr.rejected += 1;
                    Ok(Exec::Rejected)
                }
                Err(e) => Ok(Exec::BackendErr(format!("add: {e}"))),
            }
        }
        HOp::AddInvalid(kind, spec) => {
            let mut f = spec.fields();
            // make the document unique-conflict free so that only the schema violation can reject it
            f.insert("name".into(), Fv::Text("invalid-doc".into()));
            f.insert("ukeys".into(), Fv::Array(vec![]));
            let mut d = col.new_document();
            d.set_id(0);
            let mut set_err = false;
            for (k, v) in &f {
                let v = match (kind, k.as_str()) {
                    (0, "age") => Fv::Text("not a number".into()),
                    (2, "score") => Fv::Null,
                    _ => v.clone(),
                };
                if *kind == 1 && k == "score" {
                    continue;
                }
                if d.set_field(k, v).is_err() {
                    set_err = true;
                }
            }
            if *kind == 3 && d.set_field("nosuchfield", Fv::U64(1)).is_err() {
                set_err = true;
            }
            if *kind == 4 {
                // the document's own words repeated until its encoding exceeds the object size limit of
                // `db_config` (its unique name is its own: the rejection can only come from the size)
                let own = match f.get("body") {
                    Some(Fv::Text(t)) if !t.is_empty() => t.clone(),
                    _ => "fox".to_string(),
                };
                let mut big = String::with_capacity(crate::world::OBJECT_SIZE_LIMIT + 64);
                while big.len() <= crate::world::OBJECT_SIZE_LIMIT {
                    big.push_str(&own);
                    big.push(' ');
                }
                if d.set_field("body", Fv::Text(big)).is_err() {
                    set_err = true;
                }
                ctx.count("oversized_adds", 1);
            }
            if set_err {
                // rejected while building the document: nothing reached the collection
                ctx.count("invalid_rejected_at_build", 1);
                tr.rejected += 1;
                return Ok(Exec::Rejected);
            }
            match col.add(d).await {
                Ok(id) => Err(format!("schema-violating add (kind {kind}) was accepted as id {id}")),
                Err(e) if is_state_err(&e) => Ok(Exec::BackendErr(format!("add: {e}"))),
                Err(_) => {
                    tr.rejected += 1;
                    ctx.count("invalid_rejected_by_add", 1);
                    Ok(Exec::Rejected)
                }
            }
        }
        HOp::Update { t, spec, mask } => {
            let Some(id) = live_id(&tr.model, *t) else {
                return Ok(Exec::Rejected);
            };
            let (new, changed) = merged(&tr.model[&id], spec, *mask);
            let conflict = unique_conflict(&tr.model, &sys.idx, Some(id), &new);
            match col.update(id, changed.clone()).await {
                Ok(doc) => {
                    if conflict {
                        return Err(format!("update of {id} to {changed:?} was accepted although another live document holds one of its unique values"));
                    }
                    let got = doc_fields(&doc);
                    if got != new {
                        return Err(format!("update of {id} returned {got:?}, expected {new:?}"));
                    }
                    if new != tr.model[&id] {
                        tr.updates_of_indexed += 1;
                    }
                    if tr.rejected > 0 {
                        tr.accepted_after_reject = true;
                    }
                    tr.model.insert(id, new);
                    Ok(Exec::Applied)
                }
                Err(e) if conflict && format!("{e:?}").contains("AlreadyExists") => {
                    tr.rejected += 1;
                    ctx.count("rejected_unique_update", 1);
                    Ok(Exec::Rejected)
                }
                Err(e) => Ok(Exec::BackendErr(format!("update: {e}"))),
            }
        }
        HOp::UpdateBad { t, kind } => {
            let id = match (kind, live_id(&tr.model, *t)) {
                (2, _) | (_, None) => 9_999,
                (_, Some(id)) => id,
            };
            let fields: BTreeMap<String, Fv> = match kind {
                0 => BTreeMap::from([("nosuchfield".to_string(), Fv::U64(1))]),
                1 => BTreeMap::from([("age".to_string(), Fv::Text("x".into()))]),
                _ => BTreeMap::from([("age".to_string(), Fv::U64(1))]),
            };
            match col.update(id, fields).await {
                Ok(_) => Err(format!("invalid update (kind {kind}) of id {id} was accepted")),
                Err(e) if is_state_err(&e) => Ok(Exec::BackendErr(format!("update: {e}"))),
                Err(_) => {
                    tr.rejected += 1;
                    ctx.count("rejected_invalid_update", 1);
                    Ok(Exec::Rejected)
                }
            }
        }
        HOp::Remove { t } => {
            let Some(id) = live_id(&tr.model, *t) else {
                return Ok(Exec::Rejected);
            };
            match col.remove(id).await {
                Ok(Some(doc)) => {
                    let got = doc_fields(&doc);
                    if got != tr.model[&id] {
                        return Err(format!("remove of {id} returned {got:?}, stored {:?}", tr.model[&id]));
                    }
                    tr.model.remove(&id);
                    tr.removes += 1;
                    Ok(Exec::Applied)
                }
                Ok(None) => Err(format!("remove of live document {id} returned None")),
                Err(e) => Ok(Exec::BackendErr(format!("remove: {e}"))),
            }
        }
        HOp::RemoveMissing => match col.remove(9_999).await {
            Ok(None) => Ok(Exec::Rejected),
            Ok(Some(_)) => Err("remove of a missing id returned a document".into()),
            Err(e) => Ok(Exec::BackendErr(format!("remove: {e}"))),
        },
        HOp::Flush => match col.flush(anda_db::unix_ms()).await {
            Ok(_) => {
                tr.flushed_ids.extend(tr.model.keys().cloned());
                tr.any_flush = true;
                Ok(Exec::Applied)
            }
            Err(e) => Ok(Exec::BackendErr(format!("flush: {e}"))),
        },
        HOp::SaveExt { k, v } => match col.save_extension(format!("k{k}"), Fv::U64(*v as u64)).await {
            Ok(()) => {
                tr.exts.insert(format!("k{k}"), Fv::U64(*v as u64));
                Ok(Exec::Applied)
            }
            Err(e) => Ok(Exec::BackendErr(format!("save_extension: {e}"))),
        },
        HOp::RemoveExt { k } => match col.remove_extension(&format!("k{k}")).await {
            Ok(old) => {
                let want = tr.exts.remove(&format!("k{k}"));
                if old != want {
                    return Err(format!("remove_extension(k{k}) returned {old:?}, saved value was {want:?}"));
                }
                Ok(Exec::Applied)
            }
            Err(e) => Ok(Exec::BackendErr(format!("remove_extension: {e}"))),
        },
        HOp::CompactBtree(w) => {
            let all = sys.idx.btrees();
            let (fields, on) = all[(*w as usize) % all.len()];
            if !on {
                return Ok(Exec::Rejected);
            }
            match col.compact_btree_index(fields).await {
                Ok(()) => Ok(Exec::Applied),
                Err(e) => Ok(Exec::BackendErr(format!("compact_btree_index: {e}"))),
            }
        }
        HOp::CompactBm25 => {
            if !sys.idx.body {
                return Ok(Exec::Rejected);
            }
            match col.compact_bm25_index(&["body"]).await {
                Ok(()) => Ok(Exec::Applied),
                Err(e) => Ok(Exec::BackendErr(format!("compact_bm25_index: {e}"))),
            }
        }
        HOp::Reopen { close, idx } => {
            let new_idx = sanitize_idx(&idx.clone().unwrap_or_else(|| sys.idx.clone()), &sys.idx, &tr.model);
            if *close {
                if let Err(e) = sys.db.close().await {
                    return Ok(Exec::BackendErr(format!("close: {e}")));
                }
                tr.flushed_ids.extend(tr.model.keys().cloned());
                tr.any_flush = true;
            }
            if new_idx != sys.idx {
                tr.backfills += 1;
            }
            tr.reopens += 1;
            match sys.reopen(&new_idx).await {
                Ok(()) => Ok(Exec::Applied),
                Err(e) => Ok(Exec::BackendErr(format!("reopen: {e}"))),
            }
        }
    }
}

/// Extensions as the handle reports them vs the model.
pub fn check_exts(col: &Collection, tr: &Track, at: &str) -> Result<(), String> {
    for k in 0..3u8 {
        let key = format!("k{k}");
        let got = col.get_extension(&key);
        let want = tr.exts.get(&key).cloned();
        if got != want {
            return Err(format!("{at}: extension {key} = {got:?}, saved value {want:?}"));
        }
    }
    Ok(())
}
