//! C02 — every index answers exactly from the stored documents.
//! C04(a) — unique constraints hold; a rejected write leaves no trace (sequential histories).

use crate::hist::*;
use crate::world::*;
use proptest::prelude::*;
use serde::{Deserialize, Serialize};
use vf_core::{CaseCtx, Runner};

#[derive(Clone, Debug, Serialize, Deserialize)]
pub struct Case {
    pub backend: BackendKind,
    pub compress: bool,
    pub idx: IndexSet,
    pub ops: Vec<HOp>,
}

pub fn case_strategy(conflict_heavy: bool, all_indexes: bool) -> impl Strategy<Value = Case> {
    let idx = if all_indexes { Just(IndexSet::all()).boxed() } else { IndexSet::strategy().boxed() };
    (
        prop_oneof![3 => Just(BackendKind::Plain), 1 => Just(BackendKind::Meta), 1 => Just(BackendKind::Enc)],
        any::<bool>(),
        idx,
        prop::collection::vec(op_strategy(conflict_heavy), 1..40),
    )
        .prop_map(|(backend, compress, idx, ops)| Case { backend, compress, idx, ops })
}

pub fn run_case(case: &Case, ctx: &mut CaseCtx) -> Result<(), String> {
    install_clocks(1_700_000_000_000);
    vf_core::block_on(async {
        let mut sys = Sys::create(case.backend, case.compress, &case.idx).await.map_err(|e| format!("create failed: {e}"))?;
        let mut tr = Track::default();
        let mut observed_after_change = false;
        for (i, op) in case.ops.iter().enumerate() {
            let at = format!("op {i} {op:?}");
            match exec_op(&mut sys, &mut tr, op, ctx).await.map_err(|e| format!("{at}: {e}"))? {
                Exec::Applied | Exec::Rejected => {}
                Exec::BackendErr(e) => return Err(format!("{at}: failed without any injected fault: {e}")),
            }
            check_indexes(&sys.col, &tr.model, &sys.idx, &at).await?;
            check_exts(&sys.col, &tr, &at)?;
            if tr.updates_of_indexed > 0 || tr.removes > 0 || tr.rejected > 0 {
                observed_after_change = true;
            }
        }
        // closing: clean close + reopen reproduces everything
        sys.db.close().await.map_err(|e| format!("final close failed: {e}"))?;
        let idx = sys.idx.clone();
        sys.reopen(&idx).await.map_err(|e| format!("final reopen failed: {e}"))?;
        check_indexes(&sys.col, &tr.model, &sys.idx, "after the final close + reopen").await?;
        check_exts(&sys.col, &tr, "after the final close + reopen")?;
        ctx.label(format!("backend:{}", case.backend.name()));
        if tr.rejected > 0 {
            ctx.label("rejected_write");
        }
        if tr.accepted_after_reject {
            ctx.label("accepted_after_reject");
        }
        if tr.backfills > 0 {
            ctx.label("index_set_changed_on_reopen");
        }
        if tr.reopens > 0 {
            ctx.label("reopen");
        }
        if sys.idx.pair {
            ctx.label("composite_index");
        }
        if sys.idx.tags || sys.idx.attrs || sys.idx.ukeys {
            ctx.label("array_or_map_index");
        }
        ctx.count("ops", case.ops.len() as u64);
        ctx.nontrivial = observed_after_change;
        Ok(())
    })
}

pub fn run_c02(r: &mut Runner) {
    r.assume("default IndexHooks and default tokenizer (custom hooks are not generated)");
    r.assume("vector search completeness (finding a stored vector's own id) is not demanded, as the property does not state it");
    r.sub(
        "histories",
        "generated histories (1-39 ops: add, schema-violating add, update of generated field subsets, invalid update, remove, remove of a missing id, flush, save/remove extension, compact B-tree / BM25, close-or-abandon + reopen with a generated change of the index set => backfill / removal) over a collection with unique text, u64, i64 straddling 0, text array, optional u64, unique text array, wildcard-map and multi-field (unique tuple) B-tree indexes, a BM25 and an HNSW index (generated subset), on InMemory / MetaStore / EncryptedStore, compressed or not. After EVERY op the two-directional observation function must hold: ids()/len()/contains()/get() agree with the model for every id up to max+2; for every B-tree index keys() equals the key set derived from the documents and Eq(k) returns exactly the live documents carrying k (also for absent keys); every vocabulary word's text search returns exactly the live documents containing it; the vector index holds one entry per live document and vector search returns only live, distinct ids. Non-trivial = the observation ran after an update that changed an indexed field, a remove or a rejected write",
        (12_000, 400_000),
        || case_strategy(false, false),
        run_case,
    );
}

pub fn run_c04_sequential(r: &mut Runner) {
    r.sub(
        "histories",
        "generated histories as in C02 but with every index present (unique scalar, unique array, unique multi-field tuple) and a small value universe so that conflicts are the common case: rejected adds (schema violation, conflict on the 1st/2nd/3rd unique index), rejected updates (conflict, unknown field, type error, missing id), accept/reject alternation on a contested value, holder update-away and removal. After EVERY op: every unique key has at most one holder and exactly the model's; the full C02 observation equals the model, which a rejected op leaves untouched (no id, no index entry, no content change); a contested value is accepted again as soon as the model says its holder is gone. Non-trivial = at least one rejected write followed by an accepted write",
        (8_000, 300_000),
        || case_strategy(true, true),
        |case, ctx| {
            let r = run_case(case, ctx);
            // re-derive the non-trivial rule for C04 from the labels
            ctx.nontrivial = ctx.labels.iter().any(|l| l == "accepted_after_reject");
            r
        },
    );
}
