//! Shared world of the collection-level checks (C01, C02, C04, C05, C06):
//! schema, document generator, model, backends, open/reopen, and the
//! two-directional observation function "every index answers exactly from the
//! stored documents".

use anda_db::collection::{Collection, CollectionConfig};
use anda_db::database::{AndaDB, DBConfig};
use anda_db::error::DBError;
use anda_db::index::{HnswConfig, virtual_field_value};
use anda_db::query::{Filter, RangeQuery};
use anda_db::schema::{Document, Fe, Ft, Fv, Schema, bf16};
use anda_db::storage::StorageConfig;
use anda_object_store::{EncryptedStoreBuilder, MetaStoreBuilder};
use object_store::ObjectStore;
use object_store::memory::InMemory;
use proptest::prelude::*;
use serde::{Deserialize, Serialize};
use std::collections::{BTreeMap, BTreeSet};
use std::sync::Arc;
use vf_core::store::{Ctl, CtlStore};

pub const WORDS: [&str; 10] = ["red", "blue", "fox", "dog", "sun", "moon", "rock", "wind", "salt", "gold"];

#[derive(Clone, Copy, Debug, PartialEq, Eq, Serialize, Deserialize)]
pub enum BackendKind {
    Plain,
    Meta,
    Enc,
}

impl BackendKind {
    pub fn name(self) -> &'static str {
        match self {
            BackendKind::Plain => "inmemory",
            BackendKind::Meta => "metastore",
            BackendKind::Enc => "encrypted",
        }
    }
}

/// The innermost `InMemory` behind a controllable store; wrappers are rebuilt
/// (cold caches) at every reboot.
pub struct Backend {
    pub kind: BackendKind,
    pub mem: Arc<InMemory>,
    pub ctl: Ctl,
    pub base: Arc<dyn ObjectStore>,
}

impl Backend {
    pub fn new(kind: BackendKind) -> Self {
        let mem = Arc::new(InMemory::new());
        let ctl = Ctl::new();
        let base: Arc<dyn ObjectStore> = Arc::new(CtlStore::new(mem.clone(), ctl.clone()));
        Self { kind, mem, ctl, base }
    }
    /// A fresh wrapper instance (cold metadata cache) over the surviving backend.
    pub fn store(&self) -> Arc<dyn ObjectStore> {
        Self::wrap(self.kind, self.base.clone())
    }
    pub fn wrap(kind: BackendKind, base: Arc<dyn ObjectStore>) -> Arc<dyn ObjectStore> {
        match kind {
            BackendKind::Plain => base,
            BackendKind::Meta => Arc::new(MetaStoreBuilder::new(base, 10_000).build()),
            BackendKind::Enc => Arc::new(EncryptedStoreBuilder::with_secret(base, 10_000, [9u8; 32]).with_chunk_size(64).build()),
        }
    }
}

pub fn install_clocks(start_ms: u64) {
    anda_db_utils::verif::set_clock(Some(start_ms));
    anda_object_store::verif::set_clock(Some(start_ms));
    anda_object_store::verif::set_rand_seed(Some(start_ms ^ 0x5EED));
}

/// Which indexes exist (the open callback creates exactly these, removing others).
#[derive(Clone, Debug, PartialEq, Eq, Serialize, Deserialize)]
pub struct IndexSet {
    pub name: bool,  // unique text
    pub age: bool,   // u64
    pub score: bool, // i64 straddling 0
    pub tags: bool,  // array of text
    pub opt: bool,   // optional u64
    pub ukeys: bool, // unique array of text
    pub attrs: bool, // wildcard map, indexed by its keys
    pub pair: bool,  // multi-field (age, score): unique tuple
    pub body: bool,  // bm25
    pub emb: bool,   // hnsw
}

impl IndexSet {
    pub fn all() -> Self {
        IndexSet { name: true, age: true, score: true, tags: true, opt: true, ukeys: true, attrs: true, pair: true, body: true, emb: true }
    }
    pub fn none() -> Self {
        IndexSet { name: false, age: false, score: false, tags: false, opt: false, ukeys: false, attrs: false, pair: false, body: false, emb: false }
    }
    pub fn strategy() -> impl Strategy<Value = IndexSet> {
        (any::<[bool; 10]>()).prop_map(|b| IndexSet { name: true, age: b[1], score: b[2], tags: b[3], opt: b[4], ukeys: true, attrs: b[6], pair: b[7], body: b[8], emb: b[9] })
    }
    pub fn btrees(&self) -> Vec<(&'static [&'static str], bool)> {
        vec![
            (&["name"][..], self.name),
            (&["age"][..], self.age),
            (&["score"][..], self.score),
            (&["tags"][..], self.tags),
            (&["opt"][..], self.opt),
            (&["ukeys"][..], self.ukeys),
            (&["attrs"][..], self.attrs),
            (&["age", "score"][..], self.pair),
        ]
    }
}

pub fn schema() -> Schema {
    let mut b = Schema::builder();
    b.add_field(Fe::new("name".into(), Ft::Text).unwrap().with_unique()).unwrap();
    b.add_field(Fe::new("age".into(), Ft::U64).unwrap()).unwrap();
    b.add_field(Fe::new("score".into(), Ft::I64).unwrap()).unwrap();
    b.add_field(Fe::new("tags".into(), Ft::Array(vec![Ft::Text])).unwrap()).unwrap();
    b.add_field(Fe::new("opt".into(), Ft::Option(Box::new(Ft::U64))).unwrap()).unwrap();
    b.add_field(Fe::new("ukeys".into(), Ft::Array(vec![Ft::Text])).unwrap().with_unique()).unwrap();
    b.add_field(Fe::new("attrs".into(), Ft::Map(BTreeMap::from([("*".into(), Ft::U64)]))).unwrap()).unwrap();
    // optional text: a document may carry none (an update can clear it), and the text index then
    // holds no entry for it (seeded change C02-3). The vector field cannot be optional: an HNSW
    // index demands the type Vector itself.
    b.add_field(Fe::new("body".into(), Ft::Option(Box::new(Ft::Text))).unwrap()).unwrap();
    b.add_field(Fe::new("emb".into(), Ft::Vector).unwrap()).unwrap();
    b.build().unwrap()
}

#[derive(Clone, Debug, PartialEq, Eq, Serialize, Deserialize)]
pub struct DocSpec {
    pub name: u8,
    pub age: u8,
    pub score: i8,
    pub tags: Vec<u8>,
    pub opt: Option<u8>,
    pub ukeys: Vec<u8>,
    pub attrs: Vec<(u8, u8)>,
    pub body: Vec<u8>,
    pub emb: u8,
}

impl DocSpec {
    pub fn strategy() -> impl Strategy<Value = DocSpec> {
        (
            0u8..14,
            0u8..5,
            -3i8..4,
            // mostly a tiny tag universe (collisions); one document in seven carries many tags of a
            // wide one, so that the array index spreads over several 96-byte buckets and later
            // documents append to postings that live in an OLDER bucket (seeded change C02-4)
            prop_oneof![6 => prop::collection::vec(0u8..6, 0..4), 1 => prop::collection::vec(0u8..48, 8..24)],
            prop::option::of(0u8..5),
            prop::collection::vec(0u8..8, 0..3),
            prop::collection::vec((0u8..5, 0u8..3), 0..3),
            // empty = no text at all (Null)
            prop_oneof![5 => prop::collection::vec(0u8..10, 1..5), 1 => Just(vec![])],
            any::<u8>(),
        )
            .prop_map(|(name, age, score, tags, opt, ukeys, attrs, body, emb)| DocSpec { name, age, score, tags, opt, ukeys, attrs, body, emb })
    }
    /// Field values as written (and, for declared positions, as read back).
    pub fn fields(&self) -> BTreeMap<String, Fv> {
        let mut m = BTreeMap::new();
        m.insert("name".into(), Fv::Text(format!("n{}", self.name)));
        m.insert("age".into(), Fv::U64(self.age as u64));
        m.insert("score".into(), Fv::I64(self.score as i64));
        m.insert("tags".into(), Fv::Array(self.tags.iter().map(|t| Fv::Text(format!("t{t}"))).collect()));
        m.insert("opt".into(), self.opt.map(|o| Fv::U64(o as u64)).unwrap_or(Fv::Null));
        m.insert("ukeys".into(), Fv::Array(self.ukeys.iter().map(|t| Fv::Text(format!("u{t}"))).collect()));
        m.insert("attrs".into(), Fv::Map(self.attrs.iter().map(|(k, v)| (format!("a{k}").into(), Fv::U64(*v as u64))).collect()));
        m.insert("body".into(), if self.body.is_empty() { Fv::Null } else { Fv::Text(self.body.iter().map(|w| WORDS[*w as usize % WORDS.len()]).collect::<Vec<_>>().join(" ")) });
        m.insert("emb".into(), Fv::Vector(emb_of(self.emb).iter().map(|x| bf16::from_f32(*x)).collect()));
        m
    }
}

pub fn emb_of(e: u8) -> Vec<f32> {
    let e = e as u32;
    [(e % 7) as f32, ((e / 7) % 5) as f32 * 0.5, ((e / 35) % 3) as f32 - 1.0, 1.0].iter().map(|x| bf16::from_f32(*x).to_f32()).collect()
}

/// A live document of the model: its field values.
pub type MDoc = BTreeMap<String, Fv>;
pub type Model = BTreeMap<u64, MDoc>;

pub fn make_doc(col: &Collection, fields: &MDoc) -> Result<Document, String> {
    let mut d = col.new_document();
    d.set_id(0);
    for (k, v) in fields {
        d.set_field(k, v.clone()).map_err(|e| format!("set_field {k}: {e}"))?;
    }
    Ok(d)
}

pub fn doc_fields(d: &Document) -> MDoc {
    let mut m = MDoc::new();
    for k in ["name", "age", "score", "tags", "opt", "ukeys", "attrs", "body", "emb"] {
        if let Some(v) = d.get_field(k) {
            m.insert(k.to_string(), v.clone());
        }
    }
    m
}

/// The documented default IndexHooks derivation of B-tree keys (harness's own).
pub fn derive_keys(fields: &MDoc, index: &[&str]) -> Vec<Fv> {
    if index.len() == 1 {
        match fields.get(index[0]) {
            None | Some(Fv::Null) => vec![],
            Some(Fv::Array(v)) => {
                let mut out: Vec<Fv> = vec![];
                for x in v {
                    if !out.contains(x) {
                        out.push(x.clone());
                    }
                }
                out
            }
            Some(Fv::Map(m)) => m.keys().map(|k| Fv::from(k.clone())).collect(),
            Some(v) => vec![v.clone()],
        }
    } else {
        // multi-field: the public helper a caller must use to build the key
        let vals: Vec<Option<&Fv>> = index.iter().map(|f| fields.get(*f)).collect();
        virtual_field_value(&vals).into_iter().collect()
    }
}

pub fn is_unique_index(index: &[&str]) -> bool {
    index.len() > 1 || index[0] == "name" || index[0] == "ukeys"
}

/// Would adding / changing to `fields` (for document `id`, None = new) violate a unique index?
pub fn unique_conflict(model: &Model, idx: &IndexSet, id: Option<u64>, fields: &MDoc) -> bool {
    for (index, on) in idx.btrees() {
        if !on || !is_unique_index(index) {
            continue;
        }
        let keys = derive_keys(fields, index);
        for (oid, of) in model {
            if Some(*oid) == id {
                continue;
            }
            let ok = derive_keys(of, index);
            if keys.iter().any(|k| ok.contains(k)) {
                return true;
            }
        }
    }
    false
}

/// Creating a unique index over documents that already share a key is a caller error the
/// property does not cover (uniqueness is enforced through the index): such an index is left off.
/// Unique single-field indexes (name, ukeys) are always present in generated index sets.
pub fn sanitize_idx(want: &IndexSet, current: &IndexSet, model: &Model) -> IndexSet {
    let mut out = want.clone();
    if want.pair && !current.pair {
        let mut seen: Vec<Fv> = vec![];
        for f in model.values() {
            for k in derive_keys(f, &["age", "score"]) {
                if seen.contains(&k) {
                    out.pair = false;
                }
                seen.push(k);
            }
        }
    }
    // the same for the single-field unique indexes (they can be missing when a history started
    // from a collection without any index)
    for (field, want_it, had_it) in [("name", want.name, current.name), ("ukeys", want.ukeys, current.ukeys)] {
        if want_it && !had_it {
            let mut seen: Vec<Fv> = vec![];
            for f in model.values() {
                for k in derive_keys(f, &[field]) {
                    if seen.contains(&k) {
                        match field {
                            "name" => out.name = false,
                            _ => out.ukeys = false,
                        }
                    }
                    seen.push(k);
                }
            }
        }
    }
    out
}

/// Object size limit of the harness databases (the crate's default is 2000 KiB): small enough that a
/// generated document can exceed it cheaply, far above everything else the histories write.
pub const OBJECT_SIZE_LIMIT: usize = 64 * 1024;

pub fn db_config(compress: bool) -> DBConfig {
    DBConfig {
        name: "vdb".into(),
        description: "verif".into(),
        storage: StorageConfig { compress_level: if compress { 3 } else { 0 }, bucket_overload_size: 96, max_small_object_size: OBJECT_SIZE_LIMIT, ..Default::default() },
        lock: None,
    }
}

pub async fn connect(store: Arc<dyn ObjectStore>, compress: bool) -> Result<AndaDB, DBError> {
    AndaDB::connect(store, db_config(compress)).await
}

/// Opens (or creates) the collection with exactly the indexes of `idx`.
pub async fn open(db: &AndaDB, idx: &IndexSet) -> Result<Arc<Collection>, DBError> {
    let idx = idx.clone();
    db.open_or_create_collection(schema(), CollectionConfig { name: "docs".into(), description: "d".into() }, async move |c: &mut Collection| {
        for (fields, on) in idx.btrees() {
            if on {
                c.create_btree_index_nx(fields).await?;
            } else {
                c.remove_btree_index(fields).await?;
            }
        }
        if idx.body {
            c.create_bm25_index_nx(&["body"]).await?;
        } else {
            c.remove_bm25_index(&["body"]).await?;
        }
        if idx.emb {
            c.create_hnsw_index_nx("emb", HnswConfig { dimension: 4, max_connections: 4, ef_construction: 16, ef_search: 16, ..Default::default() }).await?;
        } else {
            c.remove_hnsw_index("emb").await?;
        }
        Ok(())
    })
    .await
}

fn fv_sort_key(v: &Fv) -> String {
    format!("{v:?}")
}

/// The observation function: both directions, every index.
pub async fn check_indexes(col: &Collection, model: &Model, idx: &IndexSet, at: &str) -> Result<(), String> {
    // documents: ids / len / contains / get agree with the model and each other
    let ids = col.ids();
    let want_ids: Vec<u64> = model.keys().cloned().collect();
    if ids != want_ids {
        return Err(format!("{at}: ids() = {ids:?}, documents: {want_ids:?}"));
    }
    if col.len() != model.len() {
        return Err(format!("{at}: len() = {}, documents: {}", col.len(), model.len()));
    }
    let max_id = want_ids.last().cloned().unwrap_or(0).max(col.max_document_id());
    for id in 1..=max_id + 2 {
        let got = col.get(id).await;
        match (got, model.get(&id)) {
            (Ok(d), Some(m)) => {
                let f = doc_fields(&d);
                if &f != m {
                    return Err(format!("{at}: document {id} reads {f:?}, written {m:?}"));
                }
                if !col.contains(id) {
                    return Err(format!("{at}: contains({id}) is false for a readable document"));
                }
            }
            (Err(DBError::NotFound { .. }), None) => {
                if col.contains(id) {
                    return Err(format!("{at}: contains({id}) is true but the document cannot be fetched"));
                }
            }
            (Ok(_), None) => return Err(format!("{at}: document {id} can be fetched but is not in the id set")),
            (Err(e), _) => return Err(format!("{at}: document {id} unreadable: {e}")),
        }
    }
    // B-tree indexes
    for (index, on) in idx.btrees() {
        if !on {
            continue;
        }
        let view = col.get_btree_index(index).map_err(|e| format!("{at}: index {index:?} missing: {e}"))?;
        let name = index.join("-");
        let mut want: BTreeMap<String, (Fv, BTreeSet<u64>)> = BTreeMap::new();
        for (id, f) in model {
            for k in derive_keys(f, index) {
                want.entry(fv_sort_key(&k)).or_insert_with(|| (k.clone(), BTreeSet::new())).1.insert(*id);
            }
        }
        // keys(): no ghost key, no missing key
        let mut got_keys: Vec<String> = vec![];
        let mut cursor: Option<String> = None;
        let _ = &mut cursor;
        let all_keys = view.keys(None, None);
        for k in &all_keys {
            got_keys.push(fv_sort_key(k));
        }
        got_keys.sort();
        let mut want_keys: Vec<String> = want.keys().cloned().collect();
        want_keys.sort();
        if got_keys != want_keys {
            return Err(format!("{at}: index {name}: keys() = {got_keys:?}, keys derived from the documents: {want_keys:?}"));
        }
        // every key (present + a few absent) answers exactly the documents carrying it
        let mut probes: Vec<Fv> = want.values().map(|x| x.0.clone()).collect();
        probes.extend(absent_probes(index));
        for k in probes {
            let got = col
                .query_all_ids(Filter::Field((name.clone(), RangeQuery::Eq(k.clone()))))
                .await
                .map_err(|e| format!("{at}: index {name}: Eq({k:?}) failed: {e}"))?;
            let w: Vec<u64> = want.get(&fv_sort_key(&k)).map(|x| x.1.iter().cloned().collect()).unwrap_or_default();
            if got != w {
                return Err(format!("{at}: index {name}: Eq({k:?}) returns {got:?}, live documents with that value: {w:?}"));
            }
            if is_unique_index(index) && got.len() > 1 {
                return Err(format!("{at}: unique index {name}: {got:?} share {k:?}"));
            }
        }
    }
    // BM25
    if idx.body {
        let view = col.get_bm25_index(&["body"]).map_err(|e| format!("{at}: bm25 index missing: {e}"))?;
        for w in WORDS.iter() {
            let got: BTreeSet<u64> = view.search(w, 10_000, None).into_iter().map(|x| x.0).collect();
            let want: BTreeSet<u64> = model
                .iter()
                .filter(|(_, f)| matches!(f.get("body"), Some(Fv::Text(t)) if t.split(' ').any(|x| x == *w)))
                .map(|(id, _)| *id)
                .collect();
            if got != want {
                return Err(format!("{at}: text term {w:?} returns {got:?}, live documents containing it: {want:?}"));
            }
        }
        let with_text = model.values().filter(|f| matches!(f.get("body"), Some(Fv::Text(_)))).count();
        if view.stats().num_elements != with_text as u64 {
            return Err(format!("{at}: the text index counts {} documents, {with_text} live documents carry text", view.stats().num_elements));
        }
    }
    // HNSW
    if idx.emb {
        let view = col.get_hnsw_index("emb").map_err(|e| format!("{at}: hnsw index missing: {e}"))?;
        let n = model.values().filter(|f| matches!(f.get("emb"), Some(Fv::Vector(_)))).count();
        if view.stats().num_elements != n as u64 {
            return Err(format!("{at}: vector index holds {} entries, {n} live documents carry a vector", view.stats().num_elements));
        }
        for (_, f) in model.iter().take(8) {
            if let Some(Fv::Vector(v)) = f.get("emb") {
                let q: Vec<f32> = v.iter().map(|x| x.to_f32()).collect();
                let res = view.search(&q, n + 1);
                let mut seen = BTreeSet::new();
                for (id, _) in &res {
                    if !matches!(model.get(id).and_then(|f| f.get("emb")), Some(Fv::Vector(_))) {
                        return Err(format!("{at}: vector search returns id {id}, which is not a live document that carries a vector"));
                    }
                    if !seen.insert(*id) {
                        return Err(format!("{at}: vector search returns id {id} twice"));
                    }
                }
            }
        }
    }
    Ok(())
}

fn absent_probes(index: &[&str]) -> Vec<Fv> {
    match index {
        ["name"] => vec![Fv::Text("n99".into())],
        ["age"] => vec![Fv::U64(77)],
        ["score"] => vec![Fv::I64(-77), Fv::I64(77)],
        ["tags"] => vec![Fv::Text("t99".into())],
        ["opt"] => vec![Fv::U64(77)],
        ["ukeys"] => vec![Fv::Text("u99".into())],
        ["attrs"] => vec![Fv::Text("a99".into())],
        _ => vec![Fv::Bytes(vec![1, 2, 3])],
    }
}
