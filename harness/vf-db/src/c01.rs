//! C01 — flushed documents survive any crash and recovery always converges.
//!
//! T2: a generated history is run once cleanly to count its backend mutations,
//! then re-run with the power cut at mutation k (every k in thorough, a
//! stratified sample in quick); after reboot with fresh wrappers the recovered
//! state must be an admissible one. Nested crashes cut the recovery itself;
//! T3 lets a mutation land and then report failure.

use crate::hist::*;
use crate::world::*;
use anda_db::error::DBError;
use anda_db::schema::Fv;
use object_store::{ObjectStoreExt, PutPayload, path::Path};
use proptest::prelude::*;
use serde::{Deserialize, Serialize};
use std::collections::BTreeMap;
use vf_core::{CaseCtx, Runner, Tier, pick_idx};

#[derive(Clone, Debug, Serialize, Deserialize)]
pub struct Case {
    pub backend: BackendKind,
    pub compress: bool,
    pub ops: Vec<HOp>,
    /// crash points (quick tier): selectors over 0..M in addition to the structural ones
    pub ksel: Vec<u16>,
    /// nested crashes: (selector of the outer crash point, selector of the recovery mutation)
    pub nested: Vec<(u16, u16)>,
    /// unknown-outcome faults: selectors of the mutation that lands and then reports failure
    pub unknown: Vec<u16>,
    /// thorough: enumerate every crash point
    pub all_k: bool,
    /// the collection starts WITHOUT any index (indexes may still be created by a later reopen):
    /// recovery then has no index to reconcile, but ids, documents and counts must still recover
    #[serde(default)]
    pub bare: bool,
}

fn start_idx(case: &Case) -> IndexSet {
    if case.bare {
        IndexSet::none()
    } else {
        IndexSet::all()
    }
}

pub fn case_strategy(tier: Tier) -> impl Strategy<Value = Case> {
    let all_k = tier == Tier::Thorough;
    (
        prop_oneof![2 => Just(BackendKind::Plain), 1 => Just(BackendKind::Meta), 1 => Just(BackendKind::Enc)],
        any::<bool>(),
        prop::collection::vec(op_strategy(false), 4..24),
        prop::collection::vec(any::<u16>(), 16..24),
        prop::collection::vec((any::<u16>(), any::<u16>()), 3..6),
        prop::collection::vec(any::<u16>(), 4..8),
        prop::bool::weighted(0.2),
    )
        .prop_map(move |(backend, compress, ops, ksel, nested, unknown, bare)| Case { backend, compress, ops, ksel, nested, unknown, all_k, bare })
}

#[derive(Clone)]
enum InFlight {
    Creation,
    Op(usize),
    /// the fault fired but the operation still returned success: acknowledged, then the process died
    AfterAck,
}

struct CleanInfo {
    /// mutations issued up to and including creation
    after_create: u64,
    /// mutation counter after each op
    after_op: Vec<u64>,
    total: u64,
}

async fn snapshot(be: &Backend) -> BTreeMap<String, Vec<u8>> {
    vf_core::store::dump_store(be.mem.as_ref()).await
}

async fn backend_from(kind: BackendKind, snap: &BTreeMap<String, Vec<u8>>) -> Backend {
    let be = Backend::new(kind);
    for (p, b) in snap {
        be.mem.put(&Path::from(p.as_str()), PutPayload::from(b.clone())).await.unwrap();
    }
    be
}

async fn clean_run(case: &Case, ctx: &mut CaseCtx) -> Result<CleanInfo, String> {
    install_clocks(1_700_000_000_000);
    let idx = start_idx(case);
    let mut sys = Sys::create(case.backend, case.compress, &idx).await.map_err(|e| format!("clean run: create failed: {e}"))?;
    let after_create = sys.be.ctl.mutation_count();
    let mut tr = Track::default();
    let mut after_op = vec![];
    let mut scratch = CaseCtx::default();
    for (i, op) in case.ops.iter().enumerate() {
        match exec_op(&mut sys, &mut tr, op, &mut scratch).await.map_err(|e| format!("clean run: op {i} {op:?}: {e}"))? {
            Exec::BackendErr(e) => return Err(format!("clean run: op {i} {op:?} failed without any injected fault: {e}")),
            _ => {}
        }
        // a reopen resets nothing in the controllable store: the counter keeps counting
        after_op.push(sys.be.ctl.mutation_count());
    }
    check_indexes(&sys.col, &tr.model, &sys.idx, "clean run: end of history").await?;
    let total = sys.be.ctl.mutation_count();
    ctx.count("clean_run_mutations", total);
    Ok(CleanInfo { after_create, after_op, total })
}

/// Runs the history with a fault armed. Returns the backend as the fault left it, the tracking
/// state of everything acknowledged, what was in flight and the index set in force.
async fn faulty_run(case: &Case, arm: impl Fn(&Backend)) -> Result<Option<(Backend, Track, InFlight, IndexSet, usize)>, String> {
    install_clocks(1_700_000_000_000);
    let be = Backend::new(case.backend);
    if std::env::var("VERIF_DEBUG").is_ok() {
        be.ctl.set_logging(true);
    }
    arm(&be);
    let idx = start_idx(case);
    let db = match connect(be.store(), case.compress).await {
        Ok(db) => db,
        Err(e) => {
            if be.ctl.fired() {
                return Ok(Some((be, Track::default(), InFlight::Creation, idx, 0)));
            }
            return Err(format!("connect failed before any fault: {e}"));
        }
    };
    let col = match open(&db, &idx).await {
        Ok(c) => c,
        Err(e) => {
            if be.ctl.fired() {
                return Ok(Some((be, Track::default(), InFlight::Creation, idx, 0)));
            }
            return Err(format!("open failed before any fault: {e}"));
        }
    };
    if be.ctl.fired() {
        // fault hit creation but creation reported success
        return Ok(Some((be, Track::default(), InFlight::Creation, idx, 0)));
    }
    let mut sys = Sys { be, db, col, idx, compress: case.compress };
    let mut tr = Track::default();
    let mut scratch = CaseCtx::default();
    for (i, op) in case.ops.iter().enumerate() {
        let before = tr.clone();
        let r = exec_op(&mut sys, &mut tr, op, &mut scratch).await;
        let fired = sys.be.ctl.fired();
        match r {
            Err(e) if !fired => return Err(format!("op {i} {op:?}: {e}")),
            Err(_) => {
                // oracle complaint after the fault fired (e.g. a document read failing because the power is off): in flight
                let idx_now = sys.idx.clone();
                return Ok(Some((sys.be, before, InFlight::Op(i), idx_now, i)));
            }
            Ok(Exec::BackendErr(e)) => {
                if !fired {
                    return Err(format!("op {i} {op:?} failed before any fault fired: {e}"));
                }
                let idx_now = match op {
                    HOp::Reopen { idx: Some(n), .. } => sanitize_idx(n, &sys.idx, &before.model),
                    _ => sys.idx.clone(),
                };
                return Ok(Some((sys.be, before, InFlight::Op(i), idx_now, i)));
            }
            Ok(_) => {
                if fired {
                    let idx_now = sys.idx.clone();
                    return Ok(Some((sys.be, tr, InFlight::AfterAck, idx_now, i)));
                }
            }
        }
    }
    Ok(None) // the armed fault never fired
}

struct Recovered {
    model: Model,
    exts: BTreeMap<String, Fv>,
}

/// Reboot: fresh wrappers, connect, open. Returns the recovered state after
/// checking it against the admissible set.
async fn recover_and_verify(case: &Case, be: &Backend, ack: &Track, inflight: &InFlight, idx: &IndexSet, what: &str) -> Result<(Sys, Recovered), String> {
    let db = connect(be.store(), case.compress).await.map_err(|e| format!("{what}: database does not reopen: {e}"))?;
    let col = match open(&db, idx).await {
        Ok(c) => c,
        Err(DBError::AlreadyExists { .. }) if matches!(inflight, InFlight::Creation) && !ack.any_flush => {
            // documented remedy for a crash inside collection creation
            db.delete_collection("docs").await.map_err(|e| format!("{what}: delete_collection after a crash inside creation failed: {e}"))?;
            open(&db, idx).await.map_err(|e| format!("{what}: re-creation after delete_collection failed: {e}"))?
        }
        Err(e) => return Err(format!("{what}: collection does not reopen without manual repair: {e}")),
    };
    // recovered documents
    let mut rec = Model::new();
    for id in col.ids() {
        match col.get(id).await {
            Ok(d) => {
                rec.insert(id, doc_fields(&d));
            }
            Err(e) => return Err(format!("{what}: document {id} is listed but unreadable (mixed or undecodable): {e}")),
        }
    }
    // admissible states
    let op = match inflight {
        InFlight::Op(i) => Some(&case.ops[*i]),
        _ => None,
    };
    let pred = op.map(|op| predict(ack, idx, op));
    let s_ack = &ack.model;
    let ok = if rec == *s_ack {
        true
    } else {
        match &pred {
            Some(Predict::Add(doc)) => {
                let extra: Vec<&u64> = rec.keys().filter(|k| !s_ack.contains_key(k)).collect();
                extra.len() == 1 && rec.len() == s_ack.len() + 1 && rec[extra[0]] == *doc && s_ack.iter().all(|(k, v)| rec.get(k) == Some(v))
            }
            Some(Predict::Update(id, new)) => {
                let mut m = s_ack.clone();
                m.insert(*id, new.clone());
                rec == m
            }
            Some(Predict::Remove(id)) => {
                let mut m = s_ack.clone();
                m.remove(id);
                rec == m
            }
            _ => false,
        }
    };
    if !ok {
        let diff: Vec<String> = rec
            .keys()
            .chain(s_ack.keys())
            .collect::<std::collections::BTreeSet<_>>()
            .into_iter()
            .filter(|k| rec.get(k) != s_ack.get(k))
            .map(|k| format!("id {k}: recovered {:?}, acknowledged {:?}", rec.get(k), s_ack.get(k)))
            .collect();
        return Err(format!("{what}: recovered documents are neither the acknowledged state nor that state with the in-flight operation {op:?} applied: {}", diff.join("; ")));
    }
    // extensions: acknowledged value, or the in-flight one
    let mut exts = BTreeMap::new();
    for k in 0..3u8 {
        let key = format!("k{k}");
        let got = col.get_extension(&key);
        let want = ack.exts.get(&key).cloned();
        let inflight_ok = match op {
            Some(HOp::SaveExt { k: kk, v }) if *kk == k => got == Some(Fv::U64(*v as u64)),
            Some(HOp::RemoveExt { k: kk }) if *kk == k => got.is_none(),
            _ => false,
        };
        if got != want && !inflight_ok {
            return Err(format!("{what}: extension {key} = {got:?}, acknowledged value {want:?} (in flight: {op:?})"));
        }
        if let Some(g) = got {
            exts.insert(key, g);
        }
    }
    // every index answers from the recovered documents
    check_indexes(&col, &rec, idx, what).await?;
    let be2 = Backend { kind: be.kind, mem: be.mem.clone(), ctl: be.ctl.clone(), base: be.base.clone() };
    Ok((Sys { be: be2, db, col, idx: idx.clone(), compress: case.compress }, Recovered { model: rec, exts }))
}

/// The reopened database accepts and persists new writes; a second reopen converges.
async fn sentinel_and_converge(sys: &mut Sys, rec: &Recovered, ack: &Track, what: &str) -> Result<(), String> {
    let mut f = DocSpec { name: 0, age: 0, score: 0, tags: vec![], opt: None, ukeys: vec![], attrs: vec![], body: vec![0], emb: 1 }.fields();
    f.insert("name".into(), Fv::Text("sentinel".into()));
    f.insert("age".into(), Fv::U64(4242));
    let d = make_doc(&sys.col, &f)?;
    let sid = sys.col.add(d).await.map_err(|e| format!("{what}: the reopened collection refuses a new write: {e}"))?;
    if rec.model.contains_key(&sid) {
        return Err(format!("{what}: the sentinel write got id {sid}, the id of a live document"));
    }
    if ack.flushed_ids.contains(&sid) {
        return Err(format!("{what}: the sentinel write got id {sid}, an id a flush had acknowledged for another document"));
    }
    sys.col.flush(anda_db::unix_ms()).await.map_err(|e| format!("{what}: flush after recovery failed: {e}"))?;
    let mut m = rec.model.clone();
    m.insert(sid, f);
    // second reopen, no crash: same map, indexes agree
    let idx = sys.idx.clone();
    sys.reopen(&idx).await.map_err(|e| format!("{what}: second reopen failed: {e}"))?;
    check_indexes(&sys.col, &m, &sys.idx, &format!("{what}: after sentinel + flush + second reopen")).await?;
    for (k, v) in &rec.exts {
        if sys.col.get_extension(k).as_ref() != Some(v) {
            return Err(format!("{what}: extension {k} changed across the second reopen"));
        }
    }
    Ok(())
}

fn op_label(op: &HOp) -> &'static str {
    match op {
        HOp::Add(_) | HOp::AddInvalid(..) => "add",
        HOp::Update { .. } | HOp::UpdateBad { .. } => "update",
        HOp::Remove { .. } | HOp::RemoveMissing => "remove",
        HOp::Flush => "flush",
        HOp::SaveExt { .. } | HOp::RemoveExt { .. } => "extension",
        HOp::CompactBtree(_) | HOp::CompactBm25 => "compaction",
        HOp::Reopen { .. } => "reopen/index-change",
    }
}

pub fn run_case(case: &Case, ctx: &mut CaseCtx) -> Result<(), String> {
    vf_core::block_on(async {
        let clean = clean_run(case, ctx).await?;
        let total = clean.total;
        // crash points
        let mut ks: Vec<u64> = if case.all_k {
            (0..total).collect()
        } else {
            let mut v: Vec<u64> = vec![0, total.saturating_sub(1), clean.after_create.saturating_sub(1), clean.after_create];
            // first and last mutation of every op
            let mut prev = clean.after_create;
            for a in &clean.after_op {
                if *a > prev {
                    v.push(prev);
                    v.push(*a - 1);
                }
                prev = *a;
            }
            // keep the structural points bounded, then add the generated ones
            if v.len() > 40 {
                let step = v.len() as f64 / 40.0;
                v = (0..40).map(|i| v[(i as f64 * step) as usize]).collect();
            }
            for s in &case.ksel {
                v.push(pick_idx(*s, total as usize) as u64);
            }
            v
        };
        ks.sort();
        ks.dedup();
        ks.retain(|k| *k < total);
        let mut fired = 0u64;
        let mut nontrivial = false;
        let flush_seen_before = |i: usize| case.ops[..i].iter().any(|o| matches!(o, HOp::Flush | HOp::Reopen { close: true, .. }));
        for k in &ks {
            let k = *k;
            let Some((be, ack, inflight, idx, opi)) = faulty_run(case, |be| be.ctl.crash_after_mutations(k)).await.map_err(|e| format!("crash point {k}: {e}"))? else {
                continue;
            };
            fired += 1;
            be.ctl.power_on();
            let what = match &inflight {
                InFlight::Creation => format!("crash at mutation {k} (inside creation)"),
                InFlight::Op(i) => format!("crash at mutation {k} (inside op {i} {:?})", case.ops[*i]),
                InFlight::AfterAck => format!("crash at mutation {k} (right after op {opi} was acknowledged)"),
            };
            let (mut sys, rec) = recover_and_verify(case, &be, &ack, &inflight, &idx, &what).await?;
            sentinel_and_converge(&mut sys, &rec, &ack, &what).await?;
            match &inflight {
                InFlight::Creation => ctx.label("crash_in:creation"),
                InFlight::Op(i) => {
                    ctx.label(format!("crash_in:{}", op_label(&case.ops[*i])));
                    let later_mutation = ack.updates_of_indexed + ack.removes > 0;
                    if flush_seen_before(*i) && (later_mutation || matches!(case.ops[*i], HOp::Flush | HOp::CompactBtree(_) | HOp::CompactBm25 | HOp::Reopen { .. })) {
                        nontrivial = true;
                    }
                }
                InFlight::AfterAck => ctx.label("crash_right_after_ack"),
            }
        }
        ctx.count("crash_points_requested", ks.len() as u64);
        ctx.count("crash_points_fired", fired);
        // nested crashes: the power fails again during the reopen
        for (ko, jo) in &case.nested {
            let k = pick_idx(*ko, total as usize) as u64;
            let Some((be, ack, inflight, idx, _)) = faulty_run(case, |be| be.ctl.crash_after_mutations(k)).await.map_err(|e| format!("nested outer crash {k}: {e}"))? else {
                continue;
            };
            be.ctl.power_on();
            let snap = snapshot(&be).await;
            // learn the recovery's mutation count on a copy
            let probe = backend_from(case.backend, &snap).await;
            install_clocks(1_700_000_500_000);
            let what0 = format!("crash at mutation {k}, clean recovery on a copy");
            let (_s, _r) = recover_and_verify(case, &probe, &ack, &inflight, &idx, &what0).await?;
            let rmut = probe.ctl.mutation_count();
            if rmut == 0 {
                ctx.count("nested_skipped_recovery_writes_nothing", 1);
                continue;
            }
            let js: Vec<u64> = if case.all_k { (0..rmut).collect() } else { vec![pick_idx(*jo, rmut as usize) as u64] };
            for j in js {
                let be2 = backend_from(case.backend, &snap).await;
                install_clocks(1_700_000_500_000);
                be2.ctl.crash_after_mutations(j);
                // the interrupted recovery
                let r = async {
                    let db = connect(be2.store(), case.compress).await?;
                    let _ = open(&db, &idx).await?;
                    Ok::<(), DBError>(())
                }
                .await;
                let fired2 = be2.ctl.fired();
                let _ = r;
                be2.ctl.power_on();
                let what = format!("crash at mutation {k}, then a second crash at mutation {j} of the recovery (fired: {fired2})");
                let (mut sys, rec) = recover_and_verify(case, &be2, &ack, &inflight, &idx, &what).await?;
                sentinel_and_converge(&mut sys, &rec, &ack, &what).await?;
                if fired2 {
                    ctx.count("nested_crashes_fired", 1);
                    ctx.label("nested_crash");
                    nontrivial = true;
                }
            }
        }
        // unknown outcome: the mutation lands, the call reports failure
        for s in &case.unknown {
            let k = clean.after_create + pick_idx(*s, (total - clean.after_create).max(1) as usize) as u64;
            if k >= total {
                continue;
            }
            let Some((be, ack, inflight, idx, opi)) = faulty_run(case, |be| be.ctl.land_then_fail_at(k)).await.map_err(|e| format!("unknown-outcome fault at mutation {k}: {e}"))? else {
                continue;
            };
            // the process keeps running: abandon every handle and reopen on the same backend
            let fired_on = be.ctl.fired_on();
            if std::env::var("VERIF_DEBUG").is_ok() {
                eprintln!("[c01] unknown-outcome fault at mutation {k} fired on {fired_on:?}; log tail: {:?}", be.ctl.log().iter().rev().take(12).collect::<Vec<_>>());
            }
            be.ctl.power_on();
            let what = format!("mutation {k} landed but reported failure (op {opi} {:?})", case.ops.get(opi));
            let (mut sys, rec) = recover_and_verify(case, &be, &ack, &inflight, &idx, &what).await?;
            // the rest of the history runs on the reopened collection
            let mut tr = ack.clone();
            tr.model = rec.model.clone();
            tr.exts = rec.exts.clone();
            let mut scratch = CaseCtx::default();
            let start = match inflight {
                InFlight::Op(i) => i + 1,
                InFlight::AfterAck => opi + 1,
                InFlight::Creation => 0,
            };
            for (i, op) in case.ops.iter().enumerate().skip(start) {
                match exec_op(&mut sys, &mut tr, op, &mut scratch).await.map_err(|e| format!("{what}; continuing with op {i} {op:?}: {e}"))? {
                    Exec::BackendErr(e) => return Err(format!("{what}; continuing with op {i} {op:?}: failed without a fault: {e}")),
                    _ => {}
                }
            }
            check_indexes(&sys.col, &tr.model, &sys.idx, &format!("{what}; end of the continued history")).await?;
            let rec2 = Recovered { model: tr.model.clone(), exts: tr.exts.clone() };
            sentinel_and_converge(&mut sys, &rec2, &tr, &what).await?;
            ctx.count("unknown_outcome_faults_fired", 1);
            ctx.label("unknown_outcome");
        }
        ctx.label(format!("backend:{}", case.backend.name()));
        ctx.nontrivial = nontrivial;
        Ok(())
    })
}

pub fn run(r: &mut Runner) {
    r.assume("crash model: every single backend put/delete/copy/rename is atomic (object_store contract); the power is lost between calls; torn single writes are outside the documented model");
    r.assume("virtual clock (verif hook) makes the mutation count of a history a function of the history");
    let tier = r.tier;
    r.sub(
        "crash_points",
        "generated histories (4-23 ops: add, invalid add, update, invalid update, remove, flush, save/remove extension, compact B-tree / BM25, close-or-abandon + reopen with index creation / removal) over a collection with 8 B-tree (unique, array, map-keyed, multi-field), BM25 and HNSW indexes on InMemory / MetaStore / EncryptedStore. The power is cut when the k-th backend mutation is attempted - every k in thorough; in quick: 0, the last one, the creation boundary, the first and last mutation of every op (<= 40) plus 16-23 generated points; 3-5 nested crashes (second power cut at a mutation of the recovery; every recovery mutation in thorough); 4-7 unknown-outcome faults (the mutation lands, the call fails) after which the rest of the history runs on a reopened handle. After reboot with fresh wrappers: database and collection reopen without manual repair (delete-and-recreate only for a crash inside creation before any acknowledged flush); the document map equals the acknowledged state or that state with the in-flight operation applied, field by field; extensions hold acknowledged or in-flight values; every index answers from the recovered documents (C02 observation); a sentinel write + flush + second reopen converges and never reuses an id acknowledged by a flush. Non-trivial = the crash fired inside an operation after an acknowledged flush with a later update/remove (or inside a flush / compaction / index change), or a nested crash fired",
        (400, 6000),
        move || case_strategy(tier),
        run_case,
    );
}
