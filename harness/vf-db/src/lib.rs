//! Library face of the driver (modules are shared with the fuzz targets).
pub mod c01;
pub mod c02;
pub mod c03;
pub mod c04;
pub mod c05;
pub mod c06;
pub mod hist;
pub mod world;
