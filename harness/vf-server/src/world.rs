//! One server instance (`AppState` + router) over a logging `CtlStore(InMemory)`,
//! driven in-process with `tower::ServiceExt::oneshot`, plus the harness's
//! *model* of the instance: which database names exist, which are open, which
//! key (plaintext, known only to the harness) is bound to which name.
//!
//! The model is updated only from acknowledged (HTTP 200) admin requests; it
//! never looks inside the server.

use anda_db_server::{AppState, ServerOptions, build_router};
use axum::{
    Router,
    body::Body,
    http::{HeaderValue, Request, header},
};
use http_body_util::BodyExt;
use object_store::{ObjectStore, memory::InMemory};
use serde::{Deserialize, Serialize};
use serde_json::{Value, json};
use std::collections::{BTreeMap, BTreeSet};
use std::sync::Arc;
use std::time::Duration;
use tower::ServiceExt;
use vf_core::store::{Ctl, CtlStore};

pub const ADMIN_KEY: &str = "adm-5f1c9e-root-key";
pub const MAX_BODY: usize = 64 * 1024;

/// Roles of the fixture. `M` is the name that is never created.
pub const RA: usize = 0;
pub const RB: usize = 1;
pub const RC: usize = 2;
pub const RD: usize = 3;
pub const RP: usize = 4;
pub const RM: usize = 5;
pub const ROLE_TAG: [&str; 6] = ["a", "b", "c", "d", "p", "m"];
/// Database names; world `rot` gives role `r` the name `NAMES[(r + rot) % 6]`.
pub const NAMES: [&str; 6] = ["tenant_a", "tenant_b", "tenant_c", "tenant_d", "corevault", "no_such_db"];

pub const DATA_PREFIX: &str = "mkrole";
pub const NAME_PREFIX: &str = "nmrole";

/// Marker carried by every *data* string of role `r` (document fields,
/// descriptions, extension values).
pub fn data_marker(role: usize) -> String {
    format!("{DATA_PREFIX}{}x", ROLE_TAG[role])
}
/// Marker carried by every *name* owned by role `r` (collection names,
/// extension keys).
pub fn name_marker(role: usize) -> String {
    format!("{NAME_PREFIX}{}x", ROLE_TAG[role])
}
pub fn coll_name(role: usize, idx: usize) -> String {
    format!("{}_{}", name_marker(role), if idx == 0 { "items" } else { "notes" })
}
pub fn ext_key(role: usize) -> String {
    format!("{}_ext", name_marker(role))
}

#[derive(Clone, Copy, Debug, PartialEq, Eq, Serialize, Deserialize)]
pub enum Wire {
    Cbor,
    Json,
}

impl Wire {
    pub fn mime(self) -> &'static str {
        match self {
            Wire::Cbor => "application/cbor",
            Wire::Json => "application/json",
        }
    }
    pub fn encode(self, v: &Value) -> Vec<u8> {
        match self {
            Wire::Cbor => {
                let mut b = Vec::new();
                cbor2::ser::to_writer(v, &mut b).expect("cbor encode");
                b
            }
            Wire::Json => serde_json::to_vec(v).expect("json encode"),
        }
    }
    pub fn decode(self, b: &[u8]) -> Option<Value> {
        match self {
            Wire::Cbor => cbor2::de::from_reader::<Value, _>(b).ok(),
            Wire::Json => serde_json::from_slice(b).ok(),
        }
    }
}

/// A complete HTTP request as the harness sends it.
#[derive(Clone, Debug)]
pub struct Req {
    /// HTTP method
    pub verb: &'static str,
    pub path: String,
    /// raw bytes of the Authorization header value
    pub auth: Option<Vec<u8>>,
    pub ct: Option<String>,
    pub accept: Option<String>,
    pub body: Vec<u8>,
}

/// The complete observable response.
#[derive(Clone, Debug, PartialEq, Eq)]
pub struct Resp {
    pub status: u16,
    pub ctype: Option<String>,
    /// every other response header except content-length (sorted)
    pub headers: Vec<(String, Vec<u8>)>,
    pub body: Vec<u8>,
}

impl Resp {
    pub fn show(&self) -> String {
        let b = String::from_utf8_lossy(&self.body);
        let b: String = b.chars().take(300).collect();
        let h: Vec<String> = self.headers.iter().map(|(k, v)| format!("{k}: {}", String::from_utf8_lossy(v))).collect();
        format!("{} {:?} {:?}{}", self.status, self.ctype.as_deref().unwrap_or("-"), b, if h.is_empty() { String::new() } else { format!(" +headers {h:?}") })
    }
}

#[derive(Clone, Debug, Default)]
pub struct DbModel {
    pub role: usize,
    pub open: bool,
    pub key: Option<String>,
    pub read_only: bool,
    /// collection name -> live document ids
    pub colls: BTreeMap<String, BTreeSet<u64>>,
    pub coll_ro: BTreeSet<String>,
    pub ext: BTreeSet<String>,
}

#[derive(Clone, Debug, Default)]
pub struct Model {
    pub rot: usize,
    /// every database that was ever created in this world, by name
    pub dbs: BTreeMap<String, DbModel>,
    /// keys that were bound once and replaced / removed (may be bound again)
    pub retired: Vec<String>,
    pub fresh_keys: u32,
    pub failed_ops: u32,
}

impl Model {
    pub fn name(&self, role: usize) -> &'static str {
        NAMES[(role + self.rot) % 6]
    }
    pub fn db(&self, role: usize) -> Option<&DbModel> {
        self.dbs.get(self.name(role))
    }
    /// Whether a caller presenting exactly `token` is entitled to the database
    /// scope `name` (README precedence rules 2 and 3).
    pub fn entitled_db(&self, token: Option<&str>, name: &str) -> bool {
        match token {
            None => false,
            Some(t) if t == ADMIN_KEY => true,
            Some(t) => self.dbs.get(name).and_then(|d| d.key.as_deref()) == Some(t),
        }
    }
    pub fn entitled_root(&self, token: Option<&str>) -> bool {
        token == Some(ADMIN_KEY)
    }
    /// Roles whose database the token is entitled to (non-admin tokens).
    pub fn roles_of(&self, token: Option<&str>) -> Vec<usize> {
        let Some(t) = token else { return vec![] };
        self.dbs
            .values()
            .filter(|d| d.key.as_deref() == Some(t))
            .map(|d| d.role)
            .collect()
    }
    /// Keys that were bound once and are bound nowhere now.
    pub fn revoked(&self) -> Vec<String> {
        let mut out: Vec<String> = vec![];
        for k in &self.retired {
            if self.dbs.values().all(|d| d.key.as_deref() != Some(k.as_str())) && !out.contains(k) {
                out.push(k.clone());
            }
        }
        out
    }
}

pub struct World {
    pub mem: Arc<InMemory>,
    pub ctl: Ctl,
    pub store: Arc<dyn ObjectStore>,
    pub state: AppState,
    pub app: Router,
    pub model: Model,
    pub requests: u64,
    /// backend writes observed while an admin warmed (cold-opened) collections
    pub warm_writes: u64,
}

fn options(primary: &str, role_p: usize) -> ServerOptions {
    ServerOptions {
        name: "vf_server_under_test".to_string(),
        version: "9.9.9".to_string(),
        primary_db: primary.to_string(),
        description: format!("primary {}", data_marker(role_p)),
        api_key: Some(ADMIN_KEY.to_string()),
        // never fires inside a case: the auto-flush task only acts on shutdown
        flush_interval: Duration::from_secs(100 * 24 * 3600),
        max_body_size: MAX_BODY,
        ..Default::default()
    }
}

pub fn items_schema() -> Value {
    json!({
        "fields": [
            {"name": "_id", "description": "", "type": "U64", "unique": true, "index": 0},
            {"name": "title", "description": "t", "type": "Text", "unique": false, "index": 1},
            {"name": "body", "description": "b", "type": "Text", "unique": false, "index": 2},
            {"name": "score", "description": "s", "type": {"Option": "U64"}, "unique": false, "index": 3}
        ]
    })
}

pub fn create_coll_params(name: &str, descr: &str, bm25: bool) -> Value {
    let mut p = json!({
        "config": {"name": name, "description": descr},
        "schema": items_schema(),
        "btree_indexes": [["score"]],
    });
    if bm25 {
        p["bm25_indexes"] = json!(["title", "body"]);
    }
    p
}

pub fn doc_value(role: usize, n: u64) -> Value {
    let m = data_marker(role);
    json!({"title": format!("common title {m}t{n}"), "body": format!("common body {m}b{n} words"), "score": n * 10})
}

impl World {
    /// Boots a server on an empty store; `rot` rotates the role -> name map.
    pub async fn boot(rot: usize) -> Result<World, String> {
        let mem = Arc::new(InMemory::new());
        let ctl = Ctl::new();
        ctl.set_logging(true);
        let store: Arc<dyn ObjectStore> = Arc::new(CtlStore::new(mem.clone(), ctl.clone()));
        let mut model = Model { rot, ..Default::default() };
        let primary = model.name(RP);
        let state = AppState::connect(store.clone(), options(primary, RP))
            .await
            .map_err(|e| format!("AppState::connect failed: {} {}", e.code, e.message))?;
        let app = build_router(state.clone());
        model.dbs.insert(
            primary.to_string(),
            DbModel { role: RP, open: true, ..Default::default() },
        );
        Ok(World { mem, ctl, store, state, app, model, requests: 0, warm_writes: 0 })
    }

    pub async fn send(&mut self, q: &Req) -> Resp {
        self.requests += 1;
        let mut b = Request::builder().method(q.verb).uri(q.path.as_str());
        if let Some(a) = &q.auth {
            b = b.header(header::AUTHORIZATION, HeaderValue::from_bytes(a).expect("auth header value"));
        }
        if let Some(ct) = &q.ct {
            b = b.header(header::CONTENT_TYPE, ct.as_str());
        }
        if let Some(ac) = &q.accept {
            b = b.header(header::ACCEPT, ac.as_str());
        }
        let req = b.body(Body::from(q.body.clone())).expect("request");
        let resp = self.app.clone().oneshot(req).await.expect("router is infallible");
        let status = resp.status().as_u16();
        let ctype = resp
            .headers()
            .get(header::CONTENT_TYPE)
            .map(|v| String::from_utf8_lossy(v.as_bytes()).to_string());
        let mut headers: Vec<(String, Vec<u8>)> = resp
            .headers()
            .iter()
            .filter(|(k, _)| *k != header::CONTENT_TYPE && *k != header::CONTENT_LENGTH)
            .map(|(k, v)| (k.as_str().to_string(), v.as_bytes().to_vec()))
            .collect();
        headers.sort();
        let body = resp.into_body().collect().await.expect("body").to_bytes().to_vec();
        Resp { status, ctype, headers, body }
    }

    /// Admin RPC in CBOR; returns (status, decoded envelope).
    pub async fn admin(&mut self, path: &str, method: &str, params: Value) -> (u16, Value) {
        self.rpc_as(ADMIN_KEY, path, method, params).await
    }

    pub async fn rpc_as(&mut self, key: &str, path: &str, method: &str, params: Value) -> (u16, Value) {
        let q = Req {
            verb: "POST",
            path: path.to_string(),
            auth: Some(format!("Bearer {key}").into_bytes()),
            ct: Some(Wire::Cbor.mime().to_string()),
            accept: None,
            body: Wire::Cbor.encode(&json!({"method": method, "params": params})),
        };
        let r = self.send(&q).await;
        let v = Wire::Cbor.decode(&r.body).unwrap_or(Value::Null);
        (r.status, v)
    }

    async fn admin_ok(&mut self, path: &str, method: &str, params: Value) -> Result<Value, String> {
        let (s, v) = self.admin(path, method, params.clone()).await;
        if s != 200 {
            return Err(format!("fixture: admin {method} on {path} with {params} answered {s} {v}"));
        }
        Ok(v["result"].clone())
    }

    fn fresh_key(&mut self, role: usize) -> String {
        self.model.fresh_keys += 1;
        format!("key-{}-{:03}-s3cr3t", ROLE_TAG[role], self.model.fresh_keys)
    }

    /// The fixed part of every history: databases A, B (own keys), C (no key),
    /// D (own key, closed at the end: `db.close` keeps the binding), the primary; two collections with
    /// marker documents and one extension each; A's key rotated once.
    pub async fn base_fixture(&mut self) -> Result<(), String> {
        for role in [RA, RB, RC, RD] {
            let name = self.model.name(role);
            let mut p = json!({"name": name, "description": format!("db {}", data_marker(role))});
            let mut key = None;
            if role == RA || role == RB || role == RD {
                let k = self.fresh_key(role);
                p["api_key"] = json!(k);
                key = Some(k);
            }
            self.admin_ok("/", "db.create", p).await?;
            self.model.dbs.insert(name.to_string(), DbModel { role, open: true, key, ..Default::default() });
        }
        for role in [RA, RB, RC, RD, RP] {
            let name = self.model.name(role);
            let path = format!("/{name}");
            for ci in 0..2 {
                let cn = coll_name(role, ci);
                self.admin_ok(
                    &path,
                    "collection.create",
                    create_coll_params(&cn, &format!("coll {}", data_marker(role)), ci == 0),
                )
                .await?;
                let mut ids = BTreeSet::new();
                let ndocs = if ci == 0 { 3 } else { 2 };
                for n in 1..=ndocs {
                    let r = self
                        .admin_ok(&path, "doc.add", json!({"collection": cn, "doc": doc_value(role, n)}))
                        .await?;
                    ids.insert(r["_id"].as_u64().ok_or("fixture: doc.add returned no _id")?);
                }
                self.admin_ok(
                    &path,
                    "collection.save_extension",
                    json!({"collection": cn, "key": ext_key(role), "value": format!("cext {}", data_marker(role))}),
                )
                .await?;
                self.model.dbs.get_mut(name).unwrap().colls.insert(cn, ids);
            }
            self.admin_ok(
                &path,
                "db.save_extension",
                json!({"key": ext_key(role), "value": format!("dext {}", data_marker(role))}),
            )
            .await?;
            self.model.dbs.get_mut(name).unwrap().ext.insert(ext_key(role));
            self.admin_ok(&path, "db.flush", Value::Null).await?;
        }
        // one rotation: A's first key becomes a revoked key
        self.apply(&Op::SetKey { role: RA as u8, sel: KeySel::Fresh }).await;
        self.apply(&Op::Close { role: RD as u8 }).await;
        Ok(())
    }

    /// Opens (and thereby flushes once) every collection of every open
    /// database: the documented cold-open write happens here, not in a probe.
    pub async fn warm(&mut self) {
        let open: Vec<(String, Vec<String>)> = self
            .model
            .dbs
            .iter()
            .filter(|(_, d)| d.open)
            .map(|(n, d)| (n.clone(), d.colls.keys().cloned().collect()))
            .collect();
        let n0 = self.ctl.log_len();
        for (name, colls) in open {
            for c in colls {
                let _ = self.admin(&format!("/{name}"), "collection.metadata", json!({"collection": c})).await;
            }
        }
        self.warm_writes += (self.ctl.log_len().saturating_sub(n0)) as u64;
    }

    /// Last step of a case: graceful shutdown, then a start over the same store WITHOUT an admin
    /// key (the keyless loopback mode, in which every caller is the administrator). While any
    /// per-database binding exists - also of a closed database, `db.close` keeps it - such a start
    /// would turn every bound key into "no key at all". Returns what an unauthenticated caller is
    /// answered when it opens and reads each bound database, if the start was accepted.
    pub async fn keyless_probe(&mut self, close_bound_first: bool) -> Option<Vec<(String, u16, u16, String)>> {
        if close_bound_first {
            // `db.close` keeps the binding and takes the database out of the reopen registry
            let open_bound: Vec<String> = self.model.dbs.iter().filter(|(_, d)| d.key.is_some() && d.open).map(|(n, _)| n.clone()).collect();
            for name in open_bound {
                let (st, _) = self.admin("/", "db.close", json!({"name": name})).await;
                if st == 200 {
                    if let Some(d) = self.model.dbs.get_mut(&name) {
                        d.open = false;
                    }
                }
            }
        }
        self.state.shutdown().await;
        let primary = self.model.name(RP);
        let mut opt = options(primary, RP);
        opt.api_key = None;
        let state = AppState::connect(self.store.clone(), opt).await.ok()?;
        self.app = build_router(state.clone());
        self.state = state;
        let mut out = vec![];
        let bound: Vec<String> = self.model.dbs.iter().filter(|(_, d)| d.key.is_some()).map(|(n, _)| n.clone()).collect();
        for name in bound {
            let mut ask = |path: String, method: &str, params: Value| Req {
                verb: "POST",
                path,
                auth: None,
                ct: Some(Wire::Cbor.mime().to_string()),
                accept: None,
                body: Wire::Cbor.encode(&json!({"method": method, "params": params})),
            };
            let q1 = ask("/".to_string(), "db.open", json!({"name": name}));
            let r1 = self.send(&q1).await;
            let q2 = ask(format!("/{name}"), "info", json!({}));
            let r2 = self.send(&q2).await;
            out.push((name, r1.status, r2.status, String::from_utf8_lossy(&r2.body).chars().filter(|c| !c.is_control()).take(160).collect()));
        }
        Some(out)
    }

    async fn remove_key(&mut self, role: u8) -> bool {
        let name = self.model.name(role as usize % 4);
        let (s, _) = self.admin("/", "db.remove_api_key", json!({"name": name})).await;
        if s != 200 {
            return false;
        }
        if let Some(old) = self.model.dbs.get_mut(name).unwrap().key.take() {
            self.model.retired.push(old);
        }
        true
    }

    /// Clean restart: graceful shutdown, then a new `AppState` over the same store.
    pub async fn restart(&mut self) -> Result<(), String> {
        self.state.shutdown().await;
        let primary = self.model.name(RP);
        let state = AppState::connect(self.store.clone(), options(primary, RP))
            .await
            .map_err(|e| format!("restart: AppState::connect failed: {} {}", e.code, e.message))?;
        self.app = build_router(state.clone());
        self.state = state;
        for d in self.model.dbs.values_mut() {
            d.read_only = false;
            d.coll_ro.clear();
        }
        self.warm().await;
        Ok(())
    }

    /// Applies one admin action; the model follows only acknowledged effects.
    pub async fn apply(&mut self, op: &Op) {
        let ok = self.apply_inner(op).await;
        if !ok {
            self.model.failed_ops += 1;
        }
    }

    async fn apply_inner(&mut self, op: &Op) -> bool {
        match op {
            Op::SetKey { role, sel } => {
                let role = *role as usize % 4;
                let name = self.model.name(role);
                let supplied = match sel {
                    KeySel::Fresh => Some(self.fresh_key(role)),
                    KeySel::Generated => None,
                    KeySel::Retired(i) => {
                        let r = self.model.retired.clone();
                        if r.is_empty() { Some(self.fresh_key(role)) } else { Some(r[vf_core::pick_idx(*i, r.len())].clone()) }
                    }
                };
                let mut p = json!({"name": name});
                if let Some(k) = &supplied {
                    p["api_key"] = json!(k);
                }
                let (s, v) = self.admin("/", "db.set_api_key", p).await;
                if s != 200 {
                    return false;
                }
                let newk = match supplied {
                    Some(k) => k,
                    None => match v["result"]["api_key"].as_str() {
                        Some(k) => k.to_string(),
                        None => return false,
                    },
                };
                let d = self.model.dbs.get_mut(name).unwrap();
                if let Some(old) = d.key.replace(newk.clone()) {
                    if old != newk {
                        self.model.retired.push(old);
                    }
                }
                true
            }
            Op::RemoveKey { role } => self.remove_key(*role).await,
            Op::FrozenRemoveKey { role } => {
                // the key registry lives in the primary database: while that is read-only a revocation
                // cannot be persisted. Whatever the server ANSWERS is what the model believes: an
                // acknowledged revocation must hold (seeded change C14-4)
                let primary = self.model.name(RP);
                let (s, _) = self.admin(&format!("/{primary}"), "db.set_read_only", json!({"read_only": true})).await;
                if s != 200 {
                    return false;
                }
                let r = self.remove_key(*role).await;
                let (s2, _) = self.admin(&format!("/{primary}"), "db.set_read_only", json!({"read_only": false})).await;
                if s2 != 200 {
                    self.model.failed_ops += 1;
                }
                r
            }
            Op::Close { role } => {
                let name = self.model.name(*role as usize % 4);
                let (s, _) = self.admin("/", "db.close", json!({"name": name})).await;
                if s != 200 {
                    return false;
                }
                let d = self.model.dbs.get_mut(name).unwrap();
                d.open = false;
                d.read_only = false;
                d.coll_ro.clear();
                true
            }
            Op::Open { role, connect } => {
                let name = self.model.name(*role as usize % 4);
                let m = if *connect { "db.connect" } else { "db.open" };
                let (s, _) = self.admin("/", m, json!({"name": name})).await;
                if s != 200 {
                    return false;
                }
                self.model.dbs.get_mut(name).unwrap().open = true;
                self.warm().await;
                true
            }
            Op::CreateAgain { role, with_key } => {
                let role = *role as usize % 4;
                let name = self.model.name(role);
                let mut p = json!({"name": name});
                let supplied = if *with_key { Some(self.fresh_key(role)) } else { None };
                if let Some(k) = &supplied {
                    p["api_key"] = json!(k);
                }
                let (s, _) = self.admin("/", "db.create", p).await;
                if s != 200 {
                    // refused: the key it carried was never bound - from now on it is probed like a
                    // revoked key (it must authenticate nowhere, now and after a reopen / restart)
                    if let Some(k) = supplied {
                        self.model.retired.push(k);
                    }
                    return false;
                }
                // acknowledged (the server re-created / adopted the name): the model follows the answer
                let d = self.model.dbs.get_mut(name).unwrap();
                d.open = true;
                if let Some(k) = supplied {
                    if let Some(old) = d.key.replace(k.clone()) {
                        if old != k {
                            self.model.retired.push(old);
                        }
                    }
                }
                true
            }
            Op::Restart => self.restart().await.is_ok(),
            Op::DbReadOnly { role, on } => {
                let name = self.model.name(*role as usize % 5);
                if !self.model.dbs[name].open {
                    return false;
                }
                // the primary must stay writable: the key registry lives in it
                if *role as usize % 5 == RP {
                    return false;
                }
                let (s, _) = self.admin(&format!("/{name}"), "db.set_read_only", json!({"read_only": on})).await;
                if s != 200 {
                    return false;
                }
                let d = self.model.dbs.get_mut(name).unwrap();
                d.read_only = *on;
                // the flag is propagated to every open collection handle
                if *on {
                    d.coll_ro = d.colls.keys().cloned().collect();
                } else {
                    d.coll_ro.clear();
                }
                true
            }
            Op::CollReadOnly { role, coll, on } => {
                let role = *role as usize % 5;
                let name = self.model.name(role);
                let cn = coll_name(role, *coll as usize % 2);
                let (s, _) = self
                    .admin(&format!("/{name}"), "collection.set_read_only", json!({"collection": cn, "read_only": on}))
                    .await;
                if s != 200 {
                    return false;
                }
                let d = self.model.dbs.get_mut(name).unwrap();
                if *on {
                    d.coll_ro.insert(cn);
                } else {
                    d.coll_ro.remove(&cn);
                }
                true
            }
            Op::AddDoc { role, coll } => {
                let role = *role as usize % 5;
                let name = self.model.name(role);
                let cn = coll_name(role, *coll as usize % 2);
                let n = self.model.dbs[name].colls.get(&cn).map(|s| s.len() as u64).unwrap_or(0) + 50;
                let (s, v) = self
                    .admin(&format!("/{name}"), "doc.add", json!({"collection": cn, "doc": doc_value(role, n)}))
                    .await;
                if s != 200 {
                    return false;
                }
                if let Some(id) = v["result"]["_id"].as_u64() {
                    self.model.dbs.get_mut(name).unwrap().colls.get_mut(&cn).unwrap().insert(id);
                }
                true
            }
            Op::UpdateDoc { role, coll } => {
                let role = *role as usize % 5;
                let name = self.model.name(role);
                let cn = coll_name(role, *coll as usize % 2);
                let (s, _) = self
                    .admin(
                        &format!("/{name}"),
                        "doc.update",
                        json!({"collection": cn, "_id": 1, "fields": {"body": format!("updated body {} common", data_marker(role))}}),
                    )
                    .await;
                s == 200
            }
            Op::RemoveDoc { role, coll } => {
                let role = *role as usize % 5;
                let name = self.model.name(role);
                let cn = coll_name(role, *coll as usize % 2);
                let Some(id) = self.model.dbs[name].colls.get(&cn).and_then(|s| s.iter().next_back().copied()) else {
                    return false;
                };
                if id < 2 {
                    return false; // document 1 stays: the matrix reads it
                }
                let (s, _) = self.admin(&format!("/{name}"), "doc.remove", json!({"collection": cn, "_id": id})).await;
                if s != 200 {
                    return false;
                }
                self.model.dbs.get_mut(name).unwrap().colls.get_mut(&cn).unwrap().remove(&id);
                true
            }
            Op::SaveExt { role } => {
                let role = *role as usize % 5;
                let name = self.model.name(role);
                let (s, _) = self
                    .admin(
                        &format!("/{name}"),
                        "db.save_extension",
                        json!({"key": format!("{}_more", ext_key(role)), "value": format!("more {}", data_marker(role))}),
                    )
                    .await;
                s == 200
            }
            Op::Flush { role } => {
                let name = self.model.name(*role as usize % 5);
                let (s, _) = self.admin(&format!("/{name}"), "db.flush", Value::Null).await;
                s == 200
            }
        }
    }

    /// Brings the world into the shape the matrix needs whatever the history
    /// did: A and B open and bound to keys of their own, C open without key,
    /// D closed, at least one revoked key; every collection warm.
    pub async fn normalise(&mut self) -> Result<(), String> {
        for role in [RA, RB, RC] {
            if !self.model.db(role).unwrap().open {
                self.apply(&Op::Open { role: role as u8, connect: false }).await;
            }
        }
        if self.model.db(RD).unwrap().open {
            self.apply(&Op::Close { role: RD as u8 }).await;
        }
        if self.model.db(RC).unwrap().key.is_some() {
            self.apply(&Op::RemoveKey { role: RC as u8 }).await;
        }
        for role in [RA, RB] {
            let k = self.model.db(role).unwrap().key.clone();
            let shared = match &k {
                None => true,
                Some(k) => self.model.dbs.values().filter(|d| d.key.as_deref() == Some(k.as_str())).count() > 1,
            };
            if shared {
                self.apply(&Op::SetKey { role: role as u8, sel: KeySel::Fresh }).await;
            }
        }
        if self.model.revoked().is_empty() {
            self.apply(&Op::SetKey { role: RB as u8, sel: KeySel::Fresh }).await;
        }
        self.warm().await;
        // the shape is a precondition of the matrix, not a property: a server
        // that cannot reach it makes the case meaningless -> report loudly
        let m = &self.model;
        let ok = m.db(RA).unwrap().open
            && m.db(RB).unwrap().open
            && m.db(RC).unwrap().open
            && !m.db(RD).unwrap().open
            && m.db(RA).unwrap().key.is_some()
            && m.db(RB).unwrap().key.is_some()
            && m.db(RA).unwrap().key != m.db(RB).unwrap().key
            && m.db(RC).unwrap().key.is_none()
            && !m.revoked().is_empty();
        if !ok {
            return Err(format!("fixture: the admin could not bring the instance into the matrix shape: {:?}", m.dbs));
        }
        Ok(())
    }
}

#[derive(Clone, Debug, Serialize, Deserialize)]
pub enum KeySel {
    /// a new caller-supplied key
    Fresh,
    /// the server generates the key
    Generated,
    /// a key that was bound before (to this or another database)
    Retired(u16),
}

/// One admin action of a generated history. `role` indexes A, B, C, D (and the
/// primary for data / read-only actions).
#[derive(Clone, Debug, Serialize, Deserialize)]
pub enum Op {
    SetKey { role: u8, sel: KeySel },
    RemoveKey { role: u8 },
    /// `db.remove_api_key` while the primary database (which holds the key registry) is read-only
    FrozenRemoveKey { role: u8 },
    Close { role: u8 },
    Open { role: u8, connect: bool },
    /// `db.create` for a name that already exists (open, or closed with its data and binding kept),
    /// with or without a new caller-supplied key: whatever the server answers, a refused request
    /// binds nothing
    CreateAgain { role: u8, with_key: bool },
    Restart,
    DbReadOnly { role: u8, on: bool },
    CollReadOnly { role: u8, coll: u8, on: bool },
    AddDoc { role: u8, coll: u8 },
    UpdateDoc { role: u8, coll: u8 },
    RemoveDoc { role: u8, coll: u8 },
    SaveExt { role: u8 },
    Flush { role: u8 },
}
