//! C14 — one case: a history of admin actions, then the complete request
//! matrix with the five oracle clauses.
//!
//! A case builds SIX worlds from the same history. World `j` gives role `r`
//! (A, B, C, D, primary, never-created) the database name
//! `NAMES[(r + j) % 6]`, so every name is, in some world, an open database
//! bound to a key, an open database without key, a closed database, the
//! primary database and a name that was never created, while the key strings
//! stay attached to the roles. World 0 runs the complete matrix under all
//! clauses; worlds 1..5 replay every request whose caller is not entitled in
//! that world, which turns "uniform rejection" into non-interference: the
//! response must be a function of the request alone.

use crate::extract::{Effect, Tables};
use crate::matrix::*;
use crate::world::*;
use serde::{Deserialize, Serialize};
use serde_json::{Value, json};
use std::collections::{BTreeMap, HashMap};
use vf_core::CaseCtx;

#[derive(Clone, Debug, Serialize, Deserialize)]
pub struct Case {
    pub ops: Vec<Op>,
    /// None: the complete matrix. Some(picks): the body dimension is cut down
    /// to the reduced set plus the picked bodies (monotone indices); every
    /// other dimension stays complete.
    #[serde(default)]
    pub body_sample: Option<Vec<u16>>,
}

pub const WORLDS: usize = 6;

#[derive(Clone, Copy, Debug)]
struct Cell {
    ti: u16,
    pi: u16,
    bi: u16,
    ei: u16,
}

struct Plan {
    /// world 0's model when the matrix was laid out: requests are built from
    /// it so that the very same bytes are replayed in every world
    model0: Model,
    principals: Vec<Principal>,
    targets: Vec<Target>,
    bodies: Vec<BodySpec>,
    encs: Vec<EncSpec>,
    cells: Vec<Cell>,
    /// request bodies by (body, wire, own role, admin): built once per case
    body_cache: std::cell::RefCell<HashMap<(u16, bool, u8, bool), Vec<u8>>>,
}

#[derive(Clone, Copy, Debug, PartialEq, Eq)]
enum Standing {
    Entitled,
    Unentitled,
    /// the router answers by itself / the endpoint is documented as open
    NoAuth,
}

fn standing(m: &Model, t: &Target, p: &Principal) -> Standing {
    let tok = p.token.as_deref();
    match t.kind {
        TKind::Root => {
            if m.entitled_root(tok) {
                Standing::Entitled
            } else {
                Standing::Unentitled
            }
        }
        TKind::Db => {
            if m.entitled_db(tok, t.name.as_deref().unwrap_or("")) {
                Standing::Entitled
            } else {
                Standing::Unentitled
            }
        }
        TKind::RouterOwn | TKind::Health => Standing::NoAuth,
    }
}

impl Plan {
    fn new(tables: &Tables, m: &Model, sample: &Option<Vec<u16>>) -> Plan {
        let principals = principals(m);
        let targets = targets(m);
        let bodies = bodies(tables);
        let encs = encodings();
        let picked: Option<Vec<usize>> = sample.as_ref().map(|s| s.iter().map(|i| vf_core::pick_idx(*i, bodies.len())).collect());
        let mut cells = vec![];
        for (ti, t) in targets.iter().enumerate() {
            for (pi, _) in principals.iter().enumerate() {
                for (bi, b) in bodies.iter().enumerate() {
                    if !t.full && !b.reduced() {
                        continue;
                    }
                    if let Some(p) = &picked {
                        if !b.reduced() && !p.contains(&bi) {
                            continue;
                        }
                    }
                    for (ei, e) in encs.iter().enumerate() {
                        if e.odd && !b.reduced() {
                            continue;
                        }
                        cells.push(Cell { ti: ti as u16, pi: pi as u16, bi: bi as u16, ei: ei as u16 });
                    }
                }
            }
        }
        Plan { model0: m.clone(), principals, targets, bodies, encs, cells, body_cache: Default::default() }
    }

    fn req(&self, c: Cell, m: &Model) -> Req {
        let t = &self.targets[c.ti as usize];
        let p = &self.principals[c.pi as usize];
        let b = &self.bodies[c.bi as usize];
        let e = &self.encs[c.ei as usize];
        let own = own_role(m, t, p);
        let key = (c.bi, e.body_wire == Wire::Cbor, own as u8, p.is_admin());
        let body = self
            .body_cache
            .borrow_mut()
            .entry(key)
            .or_insert_with(|| body_bytes(m, b, e.body_wire, own, p.is_admin()).0)
            .clone();
        Req {
            verb: t.verb,
            path: t.path.clone(),
            auth: p.header.clone(),
            ct: e.ct.map(|s| s.to_string()),
            accept: e.accept.map(|s| s.to_string()),
            body,
        }
    }

    fn describe(&self, c: Cell) -> String {
        let t = &self.targets[c.ti as usize];
        let p = &self.principals[c.pi as usize];
        let b = &self.bodies[c.bi as usize];
        let e = &self.encs[c.ei as usize];
        format!(
            "{} {} [{}] as [{}] body {} encoding {}",
            t.verb,
            t.path,
            t.label,
            p.label,
            b.label(),
            e.label
        )
    }

    fn effect(&self, tables: &Tables, c: Cell) -> Option<Effect> {
        let t = &self.targets[c.ti as usize];
        let b = &self.bodies[c.bi as usize];
        if matches!(b, BodySpec::Oversized) {
            return None; // answered by the body limit, never dispatched
        }
        effect_for(tables, t.kind, b.method())
    }
}

fn find(hay: &[u8], needle: &[u8]) -> bool {
    !needle.is_empty() && hay.len() >= needle.len() && hay.windows(needle.len()).any(|w| w == needle)
}

fn pct_decode(s: &str) -> Vec<u8> {
    let b = s.as_bytes();
    let mut out = Vec::with_capacity(b.len());
    let mut i = 0;
    while i < b.len() {
        if b[i] == b'%' && i + 3 <= b.len() {
            let h = std::str::from_utf8(&b[i + 1..i + 3]).ok().and_then(|h| u8::from_str_radix(h, 16).ok());
            if let Some(v) = h {
                out.push(v);
                i += 3;
                continue;
            }
        }
        out.push(b[i]);
        i += 1;
    }
    out
}

/// Strings a caller bound to `roles` (none for an unbound caller) must never
/// be shown: data markers, name markers and database names of every other
/// role, and the server-level registry keys. Strings the request itself
/// carries are skipped (an error message may echo the caller's own input).
fn leaked_marker(m: &Model, roles: &[usize], req: &Req, resp: &Resp) -> Option<String> {
    // every forbidden string contains one of these; most bodies (the 401) contain none
    if ![DATA_PREFIX, NAME_PREFIX, "server:", SCRATCH_DB].iter().chain(NAMES.iter()).any(|n| find(&resp.body, n.as_bytes())) {
        return None;
    }
    let path = pct_decode(&req.path);
    let mut forbidden: Vec<String> = vec!["server:api_keys".into(), "server:databases".into()];
    for role in [RA, RB, RC, RD, RP] {
        if roles.contains(&role) {
            continue;
        }
        forbidden.push(data_marker(role));
        forbidden.push(name_marker(role));
        forbidden.push(m.name(role).to_string());
    }
    forbidden.push(SCRATCH_DB.to_string());
    for f in forbidden {
        let fb = f.as_bytes();
        if find(&resp.body, fb) && !find(&req.body, fb) && !find(&path, fb) {
            return Some(f);
        }
    }
    None
}

struct Exec {
    resp: Resp,
    /// backend mutations that landed while the request was served
    writes: Vec<(vf_core::store::Op, String)>,
}

async fn exec(w: &mut World, q: &Req) -> Exec {
    let n0 = w.ctl.log_len();
    let resp = w.send(q).await;
    tokio::task::yield_now().await;
    let n1 = w.ctl.log_len();
    let writes = if n1 > n0 { w.ctl.log()[n0..].to_vec() } else { vec![] };
    if n1 > 20_000 {
        w.ctl.clear_log();
    }
    Exec { resp, writes }
}

fn strip_volatile(v: &mut Value) {
    if let Some(stats) = v.get_mut("stats").and_then(|s| s.as_object_mut()) {
        // read counters of the live handle; bumped by the snapshot's own reads
        stats.remove("get_count");
        stats.remove("search_count");
    }
}

/// The logical state an admin (and every other key holder) can observe,
/// without the database `exclude`: server info, per database metadata,
/// read-only flag, collections with schema / indexes / extensions / document
/// counts, every document; which keys open which database; and a digest of
/// every stored object outside `exclude`'s prefix (covers closed databases).
async fn snapshot(w: &mut World, exclude: Option<&str>, probe_keys: &[(String, String)]) -> Value {
    let mut out = serde_json::Map::new();
    let (s, info) = w.admin("/", "info", Value::Null).await;
    out.insert("info".into(), json!({"status": s, "result": info["result"]}));
    let mut open: Vec<String> = info["result"]["databases"]
        .as_array()
        .map(|a| a.iter().filter_map(|x| x.as_str().map(|s| s.to_string())).collect())
        .unwrap_or_default();
    open.sort();
    let mut dbs = serde_json::Map::new();
    for name in open {
        if Some(name.as_str()) == exclude {
            continue;
        }
        let path = format!("/{name}");
        let (_, meta) = w.admin(&path, "db.metadata", Value::Null).await;
        let ro = match w.state.get_db(&name).await {
            Ok(db) => json!(db.is_read_only()),
            Err(_) => Value::Null,
        };
        let mut colls = serde_json::Map::new();
        if let Some(cs) = meta["result"]["collections"].as_array() {
            for c in cs.iter().filter_map(|c| c.as_str()) {
                let (_, mut cm) = w.admin(&path, "collection.metadata", json!({"collection": c})).await;
                if let Some(r) = cm.get_mut("result") {
                    strip_volatile(r);
                }
                let max = cm["result"]["stats"]["max_document_id"].as_u64().unwrap_or(0).min(200);
                let ids: Vec<u64> = (1..=max + 1).collect();
                let (_, docs) = w.admin(&path, "doc.get_many", json!({"collection": c, "_ids": ids})).await;
                colls.insert(c.to_string(), json!({"meta": cm, "docs": docs}));
            }
        }
        dbs.insert(name, json!({"meta": meta, "read_only": ro, "collections": colls}));
    }
    out.insert("databases".into(), Value::Object(dbs));
    let mut auth = serde_json::Map::new();
    for (name, key) in probe_keys {
        if Some(name.as_str()) == exclude {
            continue;
        }
        let (s, _) = w.rpc_as(key, &format!("/{name}"), "collection.list", Value::Null).await;
        auth.insert(format!("{name}<-its key"), json!(s));
    }
    out.insert("auth".into(), Value::Object(auth));
    let mut store = serde_json::Map::new();
    let prefix = exclude.map(|e| format!("{e}/"));
    for (p, bytes) in vf_core::store::dump_store(w.mem.as_ref()).await {
        if let Some(pre) = &prefix {
            if p.starts_with(pre.as_str()) {
                continue;
            }
        }
        store.insert(p, json!(format!("{:016x}/{}", vf_core::fnv64(&bytes), bytes.len())));
    }
    out.insert("store".into(), Value::Object(store));
    Value::Object(out)
}

/// First difference between two JSON values, as a path.
fn diff(a: &Value, b: &Value, path: &str) -> Option<String> {
    match (a, b) {
        (Value::Object(x), Value::Object(y)) => {
            for (k, va) in x {
                match y.get(k) {
                    None => return Some(format!("{path}/{k}: present before, missing after")),
                    Some(vb) => {
                        if let Some(d) = diff(va, vb, &format!("{path}/{k}")) {
                            return Some(d);
                        }
                    }
                }
            }
            for k in y.keys() {
                if !x.contains_key(k) {
                    return Some(format!("{path}/{k}: missing before, present after ({})", short(&y[k])));
                }
            }
            None
        }
        (Value::Array(x), Value::Array(y)) if x.len() == y.len() => {
            for (i, (va, vb)) in x.iter().zip(y.iter()).enumerate() {
                if let Some(d) = diff(va, vb, &format!("{path}/{i}")) {
                    return Some(d);
                }
            }
            None
        }
        _ if a == b => None,
        _ => Some(format!("{path}: {} -> {}", short(a), short(b))),
    }
}

fn short(v: &Value) -> String {
    let s = v.to_string();
    s.chars().take(160).collect()
}

fn probe_keys(m: &Model) -> Vec<(String, String)> {
    m.dbs
        .iter()
        .filter(|(_, d)| d.open)
        .filter_map(|(n, d)| d.key.clone().map(|k| (n.clone(), k)))
        .collect()
}

async fn build_world(rot: usize, case: &Case) -> Result<World, String> {
    let mut w = World::boot(rot).await?;
    w.base_fixture().await?;
    for op in &case.ops {
        w.apply(op).await;
    }
    w.normalise().await?;
    w.ctl.clear_log();
    Ok(w)
}

/// The uniform rejection: status, content type and bytes, per response wire.
#[derive(Default)]
struct Reject {
    reference: [Option<(Vec<u8>, Vec<(String, Vec<u8>)>)>; 2],
}

impl Reject {
    fn check(&mut self, wire: Wire, r: &Resp) -> Result<(), String> {
        if r.status != 401 {
            return Err(format!("answered {} instead of the uniform 401", r.show()));
        }
        if r.ctype.as_deref() != Some(wire.mime()) {
            return Err(format!("401 with content type {:?}, negotiated {}", r.ctype, wire.mime()));
        }
        let slot = &mut self.reference[if wire == Wire::Cbor { 0 } else { 1 }];
        match slot {
            Some((b, h)) => {
                if *h != r.headers {
                    return Err(format!("401 with headers {:?}, other rejected requests received {:?}", r.show(), h));
                }
                if *b != r.body {
                    return Err(format!(
                        "401 body differs from the 401 other rejected requests received: {:?} vs {:?}",
                        String::from_utf8_lossy(&r.body),
                        String::from_utf8_lossy(b)
                    ));
                }
            }
            None => {
                let v = wire.decode(&r.body).ok_or("401 body does not decode in the negotiated encoding")?;
                if v["error"]["code"] != "unauthorized" || !v["error"]["message"].is_string() {
                    return Err(format!("401 body is not the unauthorized error envelope: {v}"));
                }
                *slot = Some((r.body.clone(), r.headers.clone()));
            }
        }
        Ok(())
    }
}

struct Fail {
    sig: String,
    msg: String,
    /// the (principal, target, body) the failure was observed on
    focus: Option<Focus>,
}

/// While proptest shrinks a failing history every candidate would cost a
/// complete matrix. A candidate is therefore first run with the matrix cut
/// down to the failing (principal, target, body) — all encodings, all passes,
/// all worlds; only if that still fails is the candidate confirmed with the
/// complete matrix. A shrink step is accepted only on a complete-matrix failure.
#[derive(Clone, Debug)]
struct Focus {
    principal: String,
    target: String,
    body: String,
}

thread_local! {
    static SHRINK_FOCUS: std::cell::RefCell<Option<Focus>> = const { std::cell::RefCell::new(None) };
}

fn fail(clause: &str, plan: &Plan, c: Cell, world: usize, phase: &str, what: String) -> Fail {
    let t = &plan.targets[c.ti as usize];
    let p = &plan.principals[c.pi as usize];
    let b = &plan.bodies[c.bi as usize];
    let method = b.method().map(|m| m.to_string()).unwrap_or_else(|| b.label());
    Fail {
        sig: format!("c14/{clause}/{}/{:?}/{}", method, p.class, t.label),
        msg: format!("[clause {clause}] world {world} ({phase}): {}: {what}", plan.describe(c)),
        focus: Some(Focus { principal: p.label.clone(), target: t.label.clone(), body: b.label() }),
    }
}

pub fn history_labels(case: &Case, ctx: &mut CaseCtx) {
    let mut seen: Vec<&str> = vec![];
    for op in &case.ops {
        let l = match op {
            Op::SetKey { sel: KeySel::Generated, .. } => "hist:set_key_generated",
            Op::SetKey { sel: KeySel::Retired(_), .. } => "hist:set_key_reused",
            Op::SetKey { .. } => "hist:set_key_supplied",
            Op::RemoveKey { .. } => "hist:remove_key",
            Op::FrozenRemoveKey { .. } => "hist:remove_key_while_primary_read_only",
            Op::Close { .. } => "hist:close",
            Op::Open { .. } => "hist:open",
            Op::CreateAgain { .. } => "hist:create_over_an_existing_name",
            Op::Restart => "hist:restart",
            Op::DbReadOnly { .. } => "hist:db_read_only",
            Op::CollReadOnly { .. } => "hist:coll_read_only",
            Op::AddDoc { .. } | Op::UpdateDoc { .. } | Op::RemoveDoc { .. } | Op::SaveExt { .. } | Op::Flush { .. } => "hist:data",
        };
        if !seen.contains(&l) {
            seen.push(l);
        }
    }
    for l in seen {
        ctx.label(l);
    }
}

pub fn run_case(tables: &Tables, case: &Case, ctx: &mut CaseCtx) -> Result<(), String> {
    let focus = SHRINK_FOCUS.with(|f| f.borrow().clone());
    if let (Some(fc), false) = (&focus, ctx.strict) {
        // a shrink candidate of this worker's failing case
        let mut scratch = CaseCtx::default();
        anda_db_utils::verif::set_clock(Some(1_700_000_000_000));
        let r = vf_core::block_on(run_async(tables, case, &mut scratch, Some(fc)));
        anda_db_utils::verif::set_clock(None);
        if r.is_ok() {
            return Ok(());
        }
    }
    anda_db_utils::verif::set_clock(Some(1_700_000_000_000));
    let r = vf_core::block_on(run_async(tables, case, ctx, None));
    anda_db_utils::verif::set_clock(None);
    match r {
        Ok(()) => Ok(()),
        Err(f) => {
            if focus.is_none() {
                SHRINK_FOCUS.with(|s| *s.borrow_mut() = f.focus.clone());
            }
            ctx.fail_sig(f.sig, f.msg)
        }
    }
}

fn fixture_fail(msg: String) -> Fail {
    Fail { sig: "c14/fixture".into(), msg, focus: None }
}

/// Cases in which the harness's parameter templates no longer fit the server
/// (too few requests of entitled callers succeed): inconclusive, not a pass.
pub static VACUOUS: std::sync::Mutex<Vec<String>> = std::sync::Mutex::new(vec![]);

/// Cases whose fixture could not be built (an admin action the documentation
/// promises was refused). That is not a C14 violation and decides nothing:
/// the run is reported inconclusive by `main`.
pub static FIXTURE_FAILURES: std::sync::Mutex<Vec<String>> = std::sync::Mutex::new(vec![]);

/// Hot-path counters (flushed into the CaseCtx once per case).
#[derive(Default)]
struct Tally(BTreeMap<&'static str, u64>);

impl Tally {
    #[inline]
    fn add(&mut self, k: &'static str) {
        *self.0.entry(k).or_insert(0) += 1;
    }
    fn flush(&mut self, ctx: &mut CaseCtx) {
        for (k, v) in std::mem::take(&mut self.0) {
            ctx.count(k, v);
        }
    }
}

async fn run_async(tables: &Tables, case: &Case, ctx: &mut CaseCtx, focus: Option<&Focus>) -> Result<(), Fail> {
    let mut tally = Tally::default();
    let r = run_inner(tables, case, ctx, &mut tally, focus).await;
    tally.flush(ctx);
    r
}

async fn run_inner(tables: &Tables, case: &Case, ctx: &mut CaseCtx, tally: &mut Tally, focus: Option<&Focus>) -> Result<(), Fail> {
    history_labels(case, ctx);
    let mut worlds: Vec<World> = vec![];
    for rot in 0..WORLDS {
        match build_world(rot, case).await {
            Ok(w) => worlds.push(w),
            Err(msg) => {
                if ctx.strict {
                    return Err(fixture_fail(msg));
                }
                if focus.is_some() {
                    return Ok(());
                }
                FIXTURE_FAILURES.lock().unwrap().push(format!("world {rot}: {msg}"));
                ctx.label("fixture_failed");
                return Ok(());
            }
        }
    }
    ctx.count("history_ops", case.ops.len() as u64);
    ctx.count("history_ops_refused", worlds[0].model.failed_ops as u64);
    let mut plan = Plan::new(tables, &worlds[0].model, &case.body_sample);
    if let Some(f) = focus {
        let cells: Vec<Cell> = plan
            .cells
            .iter()
            .copied()
            .filter(|c| {
                plan.principals[c.pi as usize].label == f.principal
                    && plan.targets[c.ti as usize].label == f.target
                    && plan.bodies[c.bi as usize].label() == f.body
            })
            .collect();
        plan.cells = cells;
    }
    let plan = plan;
    for name in tables.all_names() {
        if !params(&plan.model0, &name, Variant::Own, RA, false).1 {
            ctx.label(format!("method_without_parameter_template:{name}"));
        }
    }
    // requests of a bound key on its own open database, valid parameters, that succeed
    let mut own_ok: std::collections::BTreeSet<String> = Default::default();
    let mut own_all: std::collections::BTreeSet<String> = Default::default();
    ctx.count("matrix_cells", plan.cells.len() as u64);
    if worlds[0].model.db(RD).map(|d| d.key.is_some()).unwrap_or(false) {
        ctx.label("state:closed_db_bound");
    }
    if worlds[0].model.dbs.values().any(|d| d.read_only) {
        ctx.label("state:db_read_only");
    }
    if worlds[0].model.dbs.values().any(|d| !d.read_only && !d.coll_ro.is_empty()) {
        ctx.label("state:collection_read_only");
    }

    let mut reject = Reject::default();
    // responses of world 0's quiet pass, by cell index
    let mut first: Vec<Option<Resp>> = vec![None; plan.cells.len()];
    // reference response of requests the router answers itself / malformed names
    let mut request_only: HashMap<usize, Resp> = HashMap::new();

    // ── world 0, pass 1: every cell that cannot legitimately change state ──
    let quiet: Vec<usize> = (0..plan.cells.len())
        .filter(|i| {
            let c = plan.cells[*i];
            let st = standing(&plan.model0, &plan.targets[c.ti as usize], &plan.principals[c.pi as usize]);
            !(st == Standing::Entitled && plan.effect(tables, c) == Some(Effect::Mutating))
        })
        .collect();
    let loud: Vec<usize> = {
        let mut v: Vec<usize> = (0..plan.cells.len()).filter(|i| quiet.binary_search(i).is_err()).collect();
        v.sort_by_key(|i| {
            let c = plan.cells[*i];
            let (m, var) = match &plan.bodies[c.bi as usize] {
                BodySpec::Call { method, variant } => (method.as_str(), *variant),
                _ => ("", Variant::Own),
            };
            (mutating_rank(m, var), plan.principals[c.pi as usize].is_admin(), c.pi, c.ti, c.bi, c.ei)
        });
        v
    };
    ctx.count("cells_quiet", quiet.len() as u64);
    ctx.count("cells_state_changing", loud.len() as u64);

    for pass in 0..2 {
        let phase = if pass == 0 { "quiet pass" } else { "quiet pass after restart" };
        if pass == 1 {
            worlds[0].restart().await.map_err(|e| Fail { sig: "c14/5/restart".into(), msg: e, focus: None })?;
            worlds[0].ctl.clear_log();
        }
        let keys = probe_keys(&worlds[0].model);
        let before = snapshot(&mut worlds[0], None, &keys).await;
        for &i in &quiet {
            let c = plan.cells[i];
            let t = &plan.targets[c.ti as usize];
            let p = &plan.principals[c.pi as usize];
            let e = &plan.encs[c.ei as usize];
            let st = standing(&plan.model0, t, p);
            let q = plan.req(c, &plan.model0);
            let x = exec(&mut worlds[0], &q).await;
            tally.add("requests_world0");
            if p.nontrivial() {
                tally.add("requests_by_bound_or_revoked_key");
            }
            // (3)/(4): nothing here may write
            if !x.writes.is_empty() {
                let clause = if st == Standing::Entitled { "4-reads-never-write" } else { "3-no-change" };
                return Err(fail(
                    clause,
                    &plan,
                    c,
                    0,
                    phase,
                    format!("the request wrote to storage: {:?} (response {})", x.writes, x.resp.show()),
                ));
            }
            if st == Standing::Entitled && plan.effect(tables, c) == Some(Effect::Read) {
                tally.add("read_requests_checked_write_free");
            }
            if st == Standing::Entitled && p.class == PClass::Bound && c.ei == 0 && t.label.starts_with("db:") && t.label.len() == 4 {
                if let BodySpec::Call { method, variant } = &plan.bodies[c.bi as usize] {
                    ctx.count(&format!("status/{:?}/{method}/{}", variant, x.resp.status), 1);
                    if *variant == Variant::Own && p.label == "key:a" && tables.db_effect(method).is_some() {
                        own_all.insert(method.clone());
                        if x.resp.status == 200 {
                            own_ok.insert(method.clone());
                        }
                    }
                }
            }
            match st {
                Standing::Unentitled => {
                    if t.well_formed || t.routed_segment {
                        reject.check(e.resp_wire, &x.resp).map_err(|m| fail("1-uniform-rejection", &plan, c, 0, phase, m))?;
                    }
                    tally.add("rejections_checked");
                }
                Standing::Entitled => {
                    if x.resp.status == 401 {
                        return Err(fail(
                            if pass == 0 { "0-entitled-caller-rejected" } else { "5-registry-survives-restart" },
                            &plan,
                            c,
                            0,
                            phase,
                            format!("a caller the admin entitled to this scope was answered {}", x.resp.show()),
                        ));
                    }
                }
                Standing::NoAuth => {}
            }
            // (2) no observation
            if !p.is_admin() {
                let roles = if st == Standing::Entitled { plan.model0.roles_of(p.token.as_deref()) } else { vec![] };
                if let Some(mk) = leaked_marker(&plan.model0, &roles, &q, &x.resp) {
                    return Err(fail(
                        "2-no-observation",
                        &plan,
                        c,
                        0,
                        phase,
                        format!("the response shows {mk:?}, which belongs to a database / to server state the caller is not entitled to: {}", x.resp.show()),
                    ));
                }
            }
            if pass == 0 {
                if st == Standing::NoAuth || (st == Standing::Unentitled && !t.well_formed) {
                    request_only.insert(i, x.resp.clone());
                }
                first[i] = Some(x.resp);
            } else if let Some(f) = &first[i] {
                // (5) same answers after restart
                let method = plan.bodies[c.bi as usize].method().unwrap_or("");
                let volatile = x.resp.status == 200
                    && st == Standing::Entitled
                    && matches!(method, "db.stats" | "collection.stats" | "collection.metadata");
                let same = f.status == x.resp.status
                    && f.ctype == x.resp.ctype
                    && f.headers == x.resp.headers
                    && (volatile || f.body == x.resp.body);
                if !same {
                    return Err(fail(
                        "5-registry-survives-restart",
                        &plan,
                        c,
                        0,
                        phase,
                        format!("answered {} before the restart and {} after it", f.show(), x.resp.show()),
                    ));
                }
                tally.add("answers_compared_across_restart");
            }
        }
        let after = snapshot(&mut worlds[0], None, &keys).await;
        if let Some(d) = diff(&before, &after, "") {
            return Err(Fail {
                focus: None,
                sig: "c14/3-no-change/quiet-pass".into(),
                msg: format!("[clause 3/4] world 0 ({phase}): the instance's observable state changed although only reads and rejected requests ran: {d}"),
            });
        }
    }

    // ── worlds 1..5: replay every request whose caller is not entitled there ──
    for j in 1..WORLDS {
        let keys = probe_keys(&worlds[j].model);
        let before = snapshot(&mut worlds[j], None, &keys).await;
        worlds[j].ctl.clear_log();
        for i in 0..plan.cells.len() {
            let c = plan.cells[i];
            let t = &plan.targets[c.ti as usize];
            let p = &plan.principals[c.pi as usize];
            let e = &plan.encs[c.ei as usize];
            let st = standing(&worlds[j].model, t, p);
            if st == Standing::Entitled {
                continue;
            }
            let q = plan.req(c, &plan.model0);
            let x = exec(&mut worlds[j], &q).await;
            tally.add("requests_other_worlds");
            if p.nontrivial() {
                tally.add("requests_by_bound_or_revoked_key");
            }
            if !x.writes.is_empty() {
                return Err(fail(
                    "3-no-change",
                    &plan,
                    c,
                    j,
                    "replay",
                    format!("a request of a caller without any entitlement wrote to storage: {:?}", x.writes),
                ));
            }
            if st == Standing::Unentitled && (t.well_formed || t.routed_segment) {
                reject.check(e.resp_wire, &x.resp).map_err(|m| {
                    fail(
                        "1-uniform-rejection",
                        &plan,
                        c,
                        j,
                        "replay",
                        format!("{m}; in this world the addressed name is {}", name_status(&worlds[j].model, t)),
                    )
                })?;
                tally.add("rejections_checked");
            } else {
                match request_only.get(&i) {
                    Some(r0) => {
                        if *r0 != x.resp {
                            return Err(fail(
                                "1-uniform-rejection",
                                &plan,
                                c,
                                j,
                                "replay",
                                format!(
                                    "the response depends on server state: {} here ({}), {} in world 0",
                                    x.resp.show(),
                                    name_status(&worlds[j].model, t),
                                    r0.show()
                                ),
                            ));
                        }
                        tally.add("state_independence_checked");
                    }
                    None => {
                        request_only.insert(i, x.resp.clone());
                    }
                }
            }
        }
        let after = snapshot(&mut worlds[j], None, &keys).await;
        if let Some(d) = diff(&before, &after, "") {
            return Err(Fail {
                focus: None,
                sig: "c14/3-no-change/replay".into(),
                msg: format!("[clause 3] world {j}: the instance's observable state changed although only rejected requests ran: {d}"),
            });
        }
    }

    // ── world 0, pass 3: the state-changing cells (entitled callers only) ──
    {
        let w = &mut worlds[0];
        let mut gi = 0usize;
        while gi < loud.len() {
            let c0 = plan.cells[loud[gi]];
            let mut ge = gi;
            while ge < loud.len() {
                let c = plan.cells[loud[ge]];
                if (c.pi, c.ti, c.bi) != (c0.pi, c0.ti, c0.bi) {
                    break;
                }
                ge += 1;
            }
            let t = &plan.targets[c0.ti as usize];
            let p = &plan.principals[c0.pi as usize];
            let bound = !p.is_admin();
            let own_name = t.name.clone().unwrap_or_default();
            let keys = probe_keys(&w.model);
            let before = if bound { Some(snapshot(w, Some(&own_name), &keys).await) } else { None };
            for &i in &loud[gi..ge] {
                let c = plan.cells[i];
                let q = plan.req(c, &plan.model0);
                let x = exec(w, &q).await;
                tally.add("requests_world0");
                if x.resp.status == 401 {
                    return Err(fail(
                        "5-registry-survives-restart",
                        &plan,
                        c,
                        0,
                        "state-changing pass",
                        format!("a caller the admin entitled to this scope was answered {}", x.resp.show()),
                    ));
                }
                if bound && c.ei == 0 && t.label.starts_with("db:") && t.label.len() == 4 {
                    if let BodySpec::Call { method, variant } = &plan.bodies[c.bi as usize] {
                        ctx.count(&format!("status/{:?}/{method}/{}", variant, x.resp.status), 1);
                        if *variant == Variant::Own && p.label == "key:a" && tables.db_effect(method).is_some() {
                            own_all.insert(method.clone());
                            if x.resp.status == 200 {
                                own_ok.insert(method.clone());
                            }
                        }
                    }
                }
                if bound {
                    tally.add("requests_by_bound_or_revoked_key");
                    tally.add("state_changing_requests_by_bound_key");
                    // (3) only paths under the caller's own prefix
                    let pre = format!("{own_name}/");
                    if let Some(wr) = x.writes.iter().find(|(_, path)| !path.starts_with(&pre)) {
                        return Err(fail(
                            "3-no-change",
                            &plan,
                            c,
                            0,
                            "state-changing pass",
                            format!("the request wrote outside the caller's database: {:?} (all writes: {:?})", wr, x.writes),
                        ));
                    }
                    let roles = w.model.roles_of(p.token.as_deref());
                    if let Some(mk) = leaked_marker(&w.model, &roles, &q, &x.resp) {
                        return Err(fail(
                            "2-no-observation",
                            &plan,
                            c,
                            0,
                            "state-changing pass",
                            format!("the response shows {mk:?}, which belongs to a database / to server state the caller is not entitled to: {}", x.resp.show()),
                        ));
                    }
                }
            }
            if let Some(before) = before {
                let after = snapshot(w, Some(&own_name), &keys).await;
                if let Some(d) = diff(&before, &after, "") {
                    return Err(fail(
                        "3-no-change",
                        &plan,
                        c0,
                        0,
                        "state-changing pass",
                        format!("what the admin and the other key holders observe outside {own_name:?} changed: {d}"),
                    ));
                }
                tally.add("foreign_state_comparisons");
            }
            // an admin switches read-only flags back so that later cells write again
            let gm = plan.bodies[c0.bi as usize].method().unwrap_or("");
            if matches!(gm, "db.set_read_only" | "collection.set_read_only") && t.kind == TKind::Db {
                if let Some(d) = w.model.dbs.get(own_name.as_str()).cloned() {
                    if d.open {
                        let path = format!("/{own_name}");
                        let _ = w.admin(&path, "db.set_read_only", json!({"read_only": false})).await;
                        for cn in d.colls.keys() {
                            let _ = w.admin(&path, "collection.set_read_only", json!({"collection": cn, "read_only": false})).await;
                        }
                    }
                }
            }
            gi = ge;
        }
    }
    // ── world 0, pass 4: every Read cell of an entitled caller again, now on
    // the dirty state the writes above left behind (nothing was flushed since)
    {
        let w = &mut worlds[0];
        let mut ok200 = 0u64;
        for &i in &quiet {
            let c = plan.cells[i];
            let t = &plan.targets[c.ti as usize];
            let p = &plan.principals[c.pi as usize];
            if standing(&w.model, t, p) != Standing::Entitled || plan.effect(tables, c) != Some(Effect::Read) {
                continue;
            }
            let q = plan.req(c, &plan.model0);
            let x = exec(w, &q).await;
            tally.add("requests_world0");
            if p.nontrivial() {
                tally.add("requests_by_bound_or_revoked_key");
            }
            if !x.writes.is_empty() {
                return Err(fail(
                    "4-reads-never-write",
                    &plan,
                    c,
                    0,
                    "reads after the writes",
                    format!("the request wrote to storage: {:?} (response {})", x.writes, x.resp.show()),
                ));
            }
            if x.resp.status == 200 {
                ok200 += 1;
            }
            tally.add("read_requests_checked_write_free");
            tally.add("read_requests_checked_on_dirty_state");
        }
        if ok200 == 0 && focus.is_none() {
            VACUOUS.lock().unwrap().push("no Read request of an entitled caller was answered 200 after the writes".into());
        }
    }
    if case.body_sample.is_none() && focus.is_none() && own_ok.len() * 2 < own_all.len() {
        VACUOUS.lock().unwrap().push(format!(
            "only {} of {} database methods succeeded for key A on its own database with the harness's parameter templates: {:?} failed",
            own_ok.len(),
            own_all.len(),
            own_all.difference(&own_ok).collect::<Vec<_>>()
        ));
    }
    ctx.count("db_methods_answered_200_for_key_a_on_own_db", own_ok.len() as u64);
    ctx.count("backend_writes_while_admin_cold_opened_collections", worlds[0].warm_writes);
    // ── last: a start WITHOUT an admin key over the same storage (seeded change C14-2) ──
    // Without an admin key every caller is the administrator. As long as a per-database binding
    // exists (also of a closed database) such a start must not hand the bound databases to an
    // unauthenticated caller: either it is refused, or the caller is still rejected.
    if focus.is_none() {
        let bound = worlds[0].model.dbs.values().filter(|d| d.key.is_some()).count();
        // half of the cases close every bound database first (all bindings then belong to closed
        // databases, which are not in the reopen registry)
        let close_first = case.ops.len() % 2 == 0;
        if close_first {
            ctx.count("keyless_start_with_every_bound_database_closed", 1);
        }
        match worlds[0].keyless_probe(close_first).await {
            None => ctx.count(if bound > 0 { "keyless_start_refused_while_bindings_exist" } else { "keyless_start_refused_without_bindings" }, 1),
            Some(answers) => {
                ctx.count(if bound > 0 { "keyless_start_accepted_while_bindings_exist" } else { "keyless_start_accepted_without_bindings" }, 1);
                for (name, open_status, info_status, body) in answers {
                    if open_status == 200 || info_status == 200 {
                        return Err(Fail {
                            focus: None,
                            sig: "c14/unauthenticated/keyless-start".into(),
                            msg: format!(
                                "[unauthenticated caller learns nothing] after a restart without an admin key (accepted although {bound} per-database binding(s) exist) a caller with NO credentials was answered {open_status} to db.open {name:?} and {info_status} to info on it: {body}"
                            ),
                        });
                    }
                }
            }
        }
    }
    ctx.nontrivial = true;
    Ok(())
}

fn name_status(m: &Model, t: &Target) -> String {
    match t.name.as_deref().and_then(|n| m.dbs.get(n)) {
        None => "a name that was never created".into(),
        Some(d) => format!(
            "{} database, {}",
            if d.role == RP {
                "the primary"
            } else if d.open {
                "an open"
            } else {
                "a closed"
            },
            if d.key.is_some() { "bound to a key" } else { "without key" }
        ),
    }
}

/// Cross-validation of the extracted tables against the live router.
pub fn validate_tables(tables: &Tables) -> Result<BTreeMap<String, u64>, String> {
    anda_db_utils::verif::set_clock(Some(1_700_000_000_000));
    let r = vf_core::block_on(async {
        let mut w = World::boot(0).await?;
        w.base_fixture().await?;
        let a = format!("/{}", w.model.name(RC));
        let mut stats = BTreeMap::new();
        let code = |v: &Value| v["error"]["code"].as_str().unwrap_or("").to_string();
        for (m, _) in &tables.root {
            let (_, v) = w.admin("/", m, json!({"bogus_field_only": true})).await;
            if code(&v) == "method_not_found" {
                return Err(format!("extracted root method {m:?} is not known to the router"));
            }
            *stats.entry("root_methods_confirmed".to_string()).or_insert(0) += 1;
        }
        for (m, _) in &tables.db {
            let (_, v) = w.admin(&a, m, json!({"bogus_field_only": true})).await;
            if code(&v) == "method_not_found" {
                return Err(format!("extracted database method {m:?} is not known to the router"));
            }
            *stats.entry("db_methods_confirmed".to_string()).or_insert(0) += 1;
        }
        // names of one table must be unknown in the other scope unless listed there
        for (m, _) in &tables.root {
            if tables.db_effect(m).is_none() {
                let (_, v) = w.admin(&a, m, Value::Null).await;
                if code(&v) != "method_not_found" {
                    return Err(format!("root method {m:?} is answered in the database scope ({v}) but was not extracted there"));
                }
            }
        }
        for (m, _) in &tables.db {
            if tables.root_effect(m).is_none() {
                let (_, v) = w.admin("/", m, Value::Null).await;
                if code(&v) != "method_not_found" {
                    return Err(format!("database method {m:?} is answered in the root scope ({v}) but was not extracted there"));
                }
            }
        }
        for lit in &tables.other_literals {
            for path in ["/", a.as_str()] {
                let (_, v) = w.admin(path, lit, Value::Null).await;
                if code(&v) != "method_not_found" {
                    return Err(format!(
                        "string literal {lit:?} of api/*.rs is answered as a method on {path} ({v}) but is in no extracted table"
                    ));
                }
            }
            *stats.entry("other_literals_confirmed_unknown".to_string()).or_insert(0) += 1;
        }
        Ok(stats)
    });
    anda_db_utils::verif::set_clock(None);
    r
}
