//! The request matrix: principals x targets x bodies x encodings.
//!
//! Everything here is derived from the extracted method tables and from the
//! model of world 0; a cell is identified by four indices, so the matrix is
//! the same ordered finite set in every world of a case.

use crate::extract::{Effect, Tables};
use crate::world::*;
use serde_json::{Value, json};

#[derive(Clone, Copy, Debug, PartialEq, Eq)]
pub enum PClass {
    NoHeader,
    Malformed,
    Garbage,
    Admin,
    /// a key currently bound to a database (A, B, possibly D)
    Bound,
    /// a key that was bound once and is bound nowhere now
    Revoked,
    /// a bound key followed by one space
    TrailingSpace,
}

#[derive(Clone, Debug)]
pub struct Principal {
    pub label: String,
    pub class: PClass,
    pub header: Option<Vec<u8>>,
    /// the credential the header presents (`Bearer <token>`), None when the
    /// header is absent or carries no bearer credential at all
    pub token: Option<String>,
}

impl Principal {
    pub fn is_admin(&self) -> bool {
        self.class == PClass::Admin
    }
    /// database-bound or revoked: the rows the property is about
    pub fn nontrivial(&self) -> bool {
        matches!(self.class, PClass::Bound | PClass::Revoked | PClass::TrailingSpace)
    }
}

fn bearer(label: &str, class: PClass, tok: &str) -> Principal {
    Principal {
        label: label.to_string(),
        class,
        header: Some(format!("Bearer {tok}").into_bytes()),
        token: Some(tok.to_string()),
    }
}

pub fn principals(m: &Model) -> Vec<Principal> {
    let mut v = vec![
        Principal { label: "none".into(), class: PClass::NoHeader, header: None, token: None },
        Principal { label: "malformed:no-token".into(), class: PClass::Malformed, header: Some(b"Bearer".to_vec()), token: None },
        Principal {
            label: "malformed:basic".into(),
            class: PClass::Malformed,
            header: Some(b"Basic YWRtaW46YWRtaW4=".to_vec()),
            token: None,
        },
        Principal {
            label: "malformed:non-utf8".into(),
            class: PClass::Malformed,
            header: Some(b"Bearer \xff\xfe\xfd".to_vec()),
            token: None,
        },
        bearer("garbage", PClass::Garbage, "not-a-key-77aa"),
        bearer("garbage:empty", PClass::Garbage, ""),
        bearer("garbage:timing-dummy", PClass::Garbage, "anda-db-server-timing-equalization-dummy"),
        bearer("admin", PClass::Admin, ADMIN_KEY),
    ];
    for role in [RA, RB, RC, RD] {
        if let Some(k) = m.db(role).and_then(|d| d.key.clone()) {
            v.push(bearer(&format!("key:{}", ROLE_TAG[role]), PClass::Bound, &k));
        }
    }
    // the oldest revoked key and the three most recently revoked ones (the last revocation is the
    // one a lazy persistence path is most likely to lose - seeded change C14-1)
    let rv = m.revoked();
    let mut picked: Vec<usize> = vec![];
    if !rv.is_empty() {
        picked.push(0);
    }
    for i in rv.len().saturating_sub(3)..rv.len() {
        if !picked.contains(&i) {
            picked.push(i);
        }
    }
    for i in picked {
        v.push(bearer(&format!("revoked:{i}"), PClass::Revoked, &rv[i]));
    }
    if let Some(k) = m.db(RA).and_then(|d| d.key.clone()) {
        v.push(bearer("key:a+space", PClass::TrailingSpace, &format!("{k} ")));
    }
    v
}

#[derive(Clone, Copy, Debug, PartialEq, Eq)]
pub enum TKind {
    /// `POST /`
    Root,
    /// `POST /{db}`; `name` is what the server decodes from the path
    Db,
    /// a path the router itself answers (no RPC route matches, or the segment
    /// is not valid percent-encoded UTF-8, or the HTTP method is not POST)
    RouterOwn,
    /// `GET /` — the documented unauthenticated health endpoint
    Health,
}

#[derive(Clone, Debug)]
pub struct Target {
    pub label: String,
    pub verb: &'static str,
    pub path: String,
    pub kind: TKind,
    /// decoded database name (for `Db`)
    pub name: Option<String>,
    /// is `name` a syntactically valid database name?
    pub well_formed: bool,
    /// the name is not a valid database name but IS one plain path segment: the router hands it to
    /// the database route, so the authorization gate answers - with the same uniform rejection a
    /// missing well-formed name gets (seeded change C14-3). Names that contain an encoded slash or
    /// are dot segments may be answered by the router itself and are only checked for independence
    /// of the server's state.
    pub routed_segment: bool,
    /// all bodies, or only the reduced set
    pub full: bool,
}

fn pct_first(name: &str) -> String {
    let b = name.as_bytes();
    format!("/%{:02X}{}", b[0], &name[1..])
}

pub fn targets(m: &Model) -> Vec<Target> {
    let a = m.name(RA);
    let b = m.name(RB);
    let mut v = vec![Target { label: "root".into(), verb: "POST", path: "/".into(), kind: TKind::Root, name: None, well_formed: true, routed_segment: false, full: true }];
    for role in [RA, RB, RC, RD, RP, RM] {
        let n = m.name(role);
        v.push(Target {
            label: format!("db:{}", ROLE_TAG[role]),
            verb: "POST",
            path: format!("/{n}"),
            kind: TKind::Db,
            name: Some(n.to_string()),
            well_formed: true,
            routed_segment: false,
            full: true,
        });
    }
    let db = |label: &str, path: String, name: &str, wf: bool, full: bool| Target {
        label: label.to_string(),
        verb: "POST",
        path,
        kind: TKind::Db,
        name: Some(name.to_string()),
        well_formed: wf,
        routed_segment: !wf && !name.contains('/') && name != "." && name != "..",
        full,
    };
    v.push(db("db:a%enc", pct_first(a), a, true, true));
    v.push(db("db:b%enc", pct_first(b), b, true, true));
    v.push(db("db:a?query=b", format!("/{a}?name={b}&db={b}&db_name={b}&database={b}"), a, true, true));
    // names that are not valid database names but are valid path segments
    v.push(db("bad:uppercase", format!("/{}", a.to_uppercase()), &a.to_uppercase(), false, false));
    v.push(db("bad:dash", "/Bad-Name".into(), "Bad-Name", false, false));
    v.push(db("bad:a+space", format!("/{a}%20"), &format!("{a} "), false, false));
    v.push(db("bad:traversal", format!("/{a}%2F..%2F{b}"), &format!("{a}/../{b}"), false, false));
    v.push(db("bad:dotdot", "/%2E%2E".into(), "..", false, false));
    v.push(db("bad:slash", "/%2F".into(), "/", false, false));
    v.push(db("bad:long", format!("/{}", "x".repeat(70)), &"x".repeat(70), false, false));
    let own = |label: &str, verb: &'static str, path: String| Target {
        label: label.to_string(),
        verb,
        path,
        kind: TKind::RouterOwn,
        name: None,
        well_formed: false,
        routed_segment: false,
        full: false,
    };
    v.push(own("router:invalid-utf8", "POST", "/%FF%FE".into()));
    v.push(own("router:double-slash", "POST", "//".into()));
    v.push(own("router:a/", "POST", format!("/{a}/")));
    v.push(own("router:a/b", "POST", format!("/{a}/{b}")));
    // other HTTP methods keep the router's own answers (405 / the health body)
    v.push(own("router:GET-a", "GET", format!("/{a}")));
    v.push(own("router:GET-b", "GET", format!("/{b}")));
    v.push(own("router:PUT-a", "PUT", format!("/{a}")));
    v.push(own("router:DELETE-b", "DELETE", format!("/{b}")));
    v.push(own("router:PATCH-root", "PATCH", "/".into()));
    v.push(own("router:HEAD-root", "HEAD", "/".into()));
    v.push(Target { label: "GET /".into(), verb: "GET", path: "/".into(), kind: TKind::Health, name: None, well_formed: true, routed_segment: false, full: false });
    v
}

#[derive(Clone, Copy, Debug, PartialEq, Eq)]
pub enum Variant {
    /// parameters valid for the method on the addressed database
    Own,
    /// the same with every name replaced by the other tenant's database /
    /// collection names, plus extra fields naming the other tenant's database
    Foreign,
}

#[derive(Clone, Debug)]
pub enum BodySpec {
    Call { method: String, variant: Variant },
    /// `method` is not a string
    RawMethod(Value),
    NoMethodKey,
    Garbage,
    Empty,
    /// a valid RPC whose body exceeds the configured body limit
    Oversized,
}

impl BodySpec {
    pub fn label(&self) -> String {
        match self {
            BodySpec::Call { method, variant } => format!("{method:?}/{variant:?}"),
            BodySpec::RawMethod(v) => format!("method={v}"),
            BodySpec::NoMethodKey => "no-method-key".into(),
            BodySpec::Garbage => "garbage-body".into(),
            BodySpec::Empty => "empty-body".into(),
            BodySpec::Oversized => "oversized-body".into(),
        }
    }
    pub fn method(&self) -> Option<&str> {
        match self {
            BodySpec::Call { method, .. } => Some(method),
            BodySpec::Oversized => Some("doc.get"),
            _ => None,
        }
    }
    pub fn reduced(&self) -> bool {
        match self {
            BodySpec::Call { method, variant } => {
                matches!(
                    (method.as_str(), variant),
                    ("info", Variant::Own) | ("doc.get", _) | ("doc.add", Variant::Own) | ("db.close", Variant::Foreign) | ("nope", _)
                )
            }
            BodySpec::Garbage | BodySpec::Oversized => true,
            _ => false,
        }
    }
}

pub const UNKNOWN_METHODS: [&str; 5] = ["nope", "db.drop", "doc.get ", "DOC.GET", ""];

pub fn bodies(t: &Tables) -> Vec<BodySpec> {
    let mut v = vec![];
    for m in t.all_names() {
        for variant in [Variant::Own, Variant::Foreign] {
            v.push(BodySpec::Call { method: m.clone(), variant });
        }
    }
    for m in UNKNOWN_METHODS {
        v.push(BodySpec::Call { method: m.to_string(), variant: Variant::Own });
    }
    v.push(BodySpec::RawMethod(json!(5)));
    v.push(BodySpec::RawMethod(Value::Null));
    v.push(BodySpec::RawMethod(json!(["doc.get"])));
    v.push(BodySpec::NoMethodKey);
    v.push(BodySpec::Garbage);
    v.push(BodySpec::Empty);
    v.push(BodySpec::Oversized);
    v
}

#[derive(Clone, Debug)]
pub struct EncSpec {
    pub label: &'static str,
    pub ct: Option<&'static str>,
    pub accept: Option<&'static str>,
    pub body_wire: Wire,
    /// documented negotiation: Accept, else Content-Type, else CBOR
    pub resp_wire: Wire,
    /// applied to the reduced body set only
    pub odd: bool,
}

pub fn encodings() -> Vec<EncSpec> {
    vec![
        EncSpec { label: "cbor", ct: Some("application/cbor"), accept: None, body_wire: Wire::Cbor, resp_wire: Wire::Cbor, odd: false },
        EncSpec { label: "json", ct: Some("application/json"), accept: None, body_wire: Wire::Json, resp_wire: Wire::Json, odd: false },
        EncSpec { label: "cbor>json", ct: Some("application/cbor"), accept: Some("application/json"), body_wire: Wire::Cbor, resp_wire: Wire::Json, odd: false },
        EncSpec { label: "json>cbor", ct: Some("application/json"), accept: Some("application/cbor"), body_wire: Wire::Json, resp_wire: Wire::Cbor, odd: false },
        EncSpec { label: "no-content-type", ct: None, accept: None, body_wire: Wire::Json, resp_wire: Wire::Cbor, odd: true },
        EncSpec { label: "text/plain", ct: Some("text/plain"), accept: Some("application/json"), body_wire: Wire::Json, resp_wire: Wire::Json, odd: true },
    ]
}

pub const SCRATCH_DB: &str = "scratch_db";
pub const SCRATCH_COLL: &str = "matrix_scratch_coll";
pub const SCRATCH_EXT: &str = "matrix_scratch_ext";

/// The role whose names are "own" for a request: the role of the addressed
/// database if it is one of the fixture's, else the role the principal's key is
/// bound to, else A.
pub fn own_role(m: &Model, target: &Target, p: &Principal) -> usize {
    if let Some(n) = &target.name {
        if let Some(d) = m.dbs.get(n.as_str()) {
            return d.role;
        }
    }
    if !p.is_admin() {
        if let Some(r) = m.roles_of(p.token.as_deref()).first() {
            return *r;
        }
    }
    RA
}

pub fn foreign_role(own: usize) -> usize {
    if own == RB { RA } else { RB }
}

/// Parameters for `method` (valid shape for every method the tables are known
/// to contain; `null` for a method this driver has no template for).
pub fn params(m: &Model, method: &str, variant: Variant, own: usize, admin: bool) -> (Value, bool) {
    let foreign = foreign_role(own);
    let who = if variant == Variant::Own { own } else { foreign };
    let db_name = m.name(who);
    let coll = coll_name(who, 0);
    let mut known = true;
    let mut p = match method {
        "info" | "db.list" | "db.metadata" | "db.stats" | "db.flush" | "collection.list" => Value::Null,
        // root scope: lifecycle and key provisioning. The admin is entitled to
        // all of it, so its own requests name a scratch database (they would
        // otherwise dismantle the fixture); everybody else names the real ones
        "db.create" => {
            if admin {
                json!({"name": SCRATCH_DB, "description": "scratch"})
            } else if variant == Variant::Own {
                json!({"name": format!("{db_name}_new"), "description": "created by the matrix"})
            } else {
                json!({"name": db_name, "description": "created by the matrix", "api_key": "attacker-key-1"})
            }
        }
        "db.open" | "db.connect" | "db.close" | "db.remove_api_key" => {
            json!({"name": if admin { SCRATCH_DB } else { db_name }})
        }
        "db.set_api_key" => {
            if admin {
                json!({"name": SCRATCH_DB, "api_key": "scratch-key-1"})
            } else {
                json!({"name": db_name, "api_key": "attacker-key-2"})
            }
        }
        // really switches the flag on (an admin switches it back after the group)
        "db.set_read_only" => json!({"read_only": true}),
        "db.get_extension" => json!({"key": ext_key(who)}),
        "db.save_extension" => json!({"key": SCRATCH_EXT, "value": format!("matrix value {}", data_marker(own))}),
        "db.remove_extension" => json!({"key": SCRATCH_EXT}),
        "collection.create" => {
            let name = if variant == Variant::Own { SCRATCH_COLL.to_string() } else { coll.clone() };
            create_coll_params(&name, &format!("matrix coll {}", data_marker(own)), true)
        }
        "collection.ensure" => create_coll_params(&coll, &format!("coll {}", data_marker(own)), true),
        "collection.metadata" | "collection.stats" | "collection.flush" | "doc.count" => json!({"collection": coll}),
        "collection.delete" => json!({"collection": if variant == Variant::Own { SCRATCH_COLL.to_string() } else { coll.clone() }}),
        "collection.set_read_only" => json!({"collection": coll, "read_only": true}),
        "collection.get_extension" => json!({"collection": coll, "key": ext_key(who)}),
        "collection.save_extension" => {
            json!({"collection": coll, "key": SCRATCH_EXT, "value": format!("matrix cvalue {}", data_marker(own))})
        }
        "collection.remove_extension" => json!({"collection": coll, "key": SCRATCH_EXT}),
        "doc.add" => json!({"collection": coll, "doc": doc_value(own, 77)}),
        "doc.add_many" => json!({"collection": coll, "docs": [doc_value(own, 78), doc_value(own, 79)]}),
        "doc.get" | "doc.exists" => json!({"collection": coll, "_id": 1}),
        "doc.get_many" => json!({"collection": coll, "_ids": [1, 2, 3, 99]}),
        "doc.update" => json!({"collection": coll, "_id": 1, "fields": {"score": 11}}),
        "doc.remove" => json!({"collection": coll, "_id": 3}),
        "doc.search" => json!({"collection": coll, "query": {"search": {"text": "common"}, "limit": 20}}),
        "doc.search_ids" => {
            json!({"collection": coll, "query": {"search": {"text": "common"}, "filter": {"Field": ["score", {"Ge": 0}]}, "limit": 20}})
        }
        "doc.query_ids" | "doc.query_last_ids" => json!({"collection": coll, "filter": {"Field": ["score", {"Ge": 0}]}, "limit": 20}),
        // unknown names get the parameters of doc.get
        m if UNKNOWN_METHODS.contains(&m) => json!({"collection": coll, "_id": 1}),
        _ => {
            known = false;
            Value::Null
        }
    };
    if variant == Variant::Foreign {
        // confused-deputy bait: fields a handler might (wrongly) resolve a
        // database from. Typed params ignore unknown fields.
        let f = m.name(foreign);
        if p.is_null() {
            p = json!({});
        }
        if let Some(o) = p.as_object_mut() {
            for k in ["db", "db_name", "database", "database_name"] {
                o.insert(k.to_string(), json!(f));
            }
            o.entry("name").or_insert(json!(f));
            o.entry("collection").or_insert(json!(coll_name(foreign, 0)));
        }
    }
    (p, known)
}

/// The request body of a cell.
pub fn body_bytes(m: &Model, spec: &BodySpec, wire: Wire, own: usize, admin: bool) -> (Vec<u8>, bool) {
    match spec {
        BodySpec::Call { method, variant } => {
            let (p, known) = params(m, method, *variant, own, admin);
            (wire.encode(&json!({"method": method, "params": p})), known)
        }
        BodySpec::RawMethod(v) => {
            let (p, _) = params(m, "doc.get", Variant::Own, own, admin);
            (wire.encode(&json!({"method": v, "params": p})), true)
        }
        BodySpec::NoMethodKey => {
            let (p, _) = params(m, "doc.get", Variant::Own, own, admin);
            (wire.encode(&json!({"params": p})), true)
        }
        BodySpec::Garbage => (b"\xff\x00\x1c{{{ not an rpc".to_vec(), true),
        BodySpec::Empty => (vec![], true),
        BodySpec::Oversized => {
            let (mut p, _) = params(m, "doc.get", Variant::Own, own, admin);
            p["junk"] = json!("j".repeat(MAX_BODY + 4096));
            (wire.encode(&json!({"method": "doc.get", "params": p})), true)
        }
    }
}

/// Order in which state-changing cells run: flushes and additive writes
/// first, removals later, creation of foreign-named collections last (after
/// it the other tenant's collection *name* legitimately exists in the
/// caller's own database, so nothing that checks names may follow).
pub fn mutating_rank(method: &str, variant: Variant) -> usize {
    const ORDER: [&str; 28] = [
        "db.flush",
        "collection.flush",
        "db.save_extension",
        "collection.save_extension",
        "doc.add",
        "doc.add_many",
        "doc.update",
        "db.set_read_only",
        "collection.set_read_only",
        "doc.remove",
        "db.remove_extension",
        "collection.remove_extension",
        "db.create",
        "db.connect",
        "db.open",
        "db.set_api_key",
        "db.remove_api_key",
        "db.close",
        "",
        "",
        "",
        "",
        "",
        "",
        "collection.ensure",
        "collection.create",
        "collection.delete",
        "~last~",
    ];
    let base = ORDER.iter().position(|m| *m == method).unwrap_or(20);
    let late = matches!(method, "collection.ensure" | "collection.create") && variant == Variant::Foreign;
    if late { 100 + base } else { base }
}

pub fn effect_for(t: &Tables, kind: TKind, method: Option<&str>) -> Option<Effect> {
    let m = method?;
    match kind {
        TKind::Root => t.root_effect(m),
        TKind::Db => t.db_effect(m),
        _ => None,
    }
}
