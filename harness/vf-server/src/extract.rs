//! Run-time extraction of the server's private method tables.
//!
//! `RootMethod::parse` / `DbMethod::parse` in `api/mod.rs` are the single place
//! where a method name, its handler and its side-effect class (`Read` — run on
//! the cancellable path — or `Mutating`) are declared. They are private and
//! not hooked: this module reads the source file the driver was built
//! against, extracts every `"name" => (Self::Variant, Read|Mutating)` arm, and
//! collects every other method-looking string literal of `api/*.rs` so that
//! the caller can cross-validate the extraction by probing the live router.

use std::collections::BTreeSet;

#[derive(Clone, Copy, Debug, PartialEq, Eq)]
pub enum Effect {
    Read,
    Mutating,
}

#[derive(Clone, Debug, Default)]
pub struct Tables {
    pub root: Vec<(String, Effect)>,
    pub db: Vec<(String, Effect)>,
    /// method-looking literals of api/*.rs that are in neither table
    pub other_literals: Vec<String>,
    pub source: String,
}

impl Tables {
    pub fn root_effect(&self, m: &str) -> Option<Effect> {
        self.root.iter().find(|(n, _)| n == m).map(|(_, e)| *e)
    }
    pub fn db_effect(&self, m: &str) -> Option<Effect> {
        self.db.iter().find(|(n, _)| n == m).map(|(_, e)| *e)
    }
    /// Union of both tables' names, root first, without duplicates.
    pub fn all_names(&self) -> Vec<String> {
        let mut out: Vec<String> = vec![];
        for (n, _) in self.root.iter().chain(self.db.iter()) {
            if !out.contains(n) {
                out.push(n.clone());
            }
        }
        out
    }
}

/// Directory of the `anda_db_server` crate this binary was compiled against:
/// the `path = ".."` of the dependency in this driver's own Cargo.toml
/// (embedded at compile time, so a sandbox copy resolves to its own tree).
pub fn server_crate_dir() -> Option<String> {
    const MANIFEST: &str = include_str!(concat!(env!("CARGO_MANIFEST_DIR"), "/Cargo.toml"));
    if let Ok(p) = std::env::var("VERIF_SERVER_SRC") {
        return Some(p);
    }
    for line in MANIFEST.lines() {
        let l = line.trim();
        if l.starts_with("anda_db_server") {
            let i = l.find("path")?;
            let rest = &l[i..];
            let a = rest.find('"')?;
            let b = rest[a + 1..].find('"')?;
            return Some(rest[a + 1..a + 1 + b].to_string());
        }
    }
    None
}

/// Arms of the `fn parse` inside `impl <ty> {`: `"name" => (Self::Variant, Read|Mutating)`,
/// also when rustfmt wrapped the tuple into a block on the following lines.
fn parse_table(src: &str, ty: &str) -> Vec<(String, Effect)> {
    let mut out = vec![];
    let Some(start) = src.find(&format!("impl {ty} {{")) else { return out };
    let rest = &src[start..];
    let Some(fp) = rest.find("fn parse(") else { return out };
    let body = &rest[fp..];
    let end = body.find("_ => return None").unwrap_or(body.len());
    // comment lines dropped, whitespace collapsed
    let flat: String = body[..end]
        .lines()
        .filter(|l| !l.trim_start().starts_with("//"))
        .collect::<Vec<_>>()
        .join(" ")
        .split_whitespace()
        .collect::<Vec<_>>()
        .join(" ");
    let mut pos = 0;
    while let Some(q) = flat[pos..].find('"') {
        let a = pos + q + 1;
        let Some(qe) = flat[a..].find('"') else { break };
        let name = &flat[a..a + qe];
        let mut tail = flat[a + qe + 1..].trim_start();
        pos = a + qe + 1;
        let Some(t) = tail.strip_prefix("=>") else { continue };
        tail = t.trim_start();
        if let Some(t) = tail.strip_prefix('{') {
            tail = t.trim_start();
        }
        let Some(t) = tail.strip_prefix("(Self::") else { continue };
        let Some(close) = t.find(')') else { continue };
        let inside = &t[..close];
        let Some(comma) = inside.find(',') else { continue };
        let eff = inside[comma + 1..].trim();
        let eff = eff.rsplit("::").next().unwrap_or(eff).trim();
        let effect = match eff {
            "Read" => Effect::Read,
            "Mutating" => Effect::Mutating,
            _ => continue,
        };
        out.push((name.to_string(), effect));
    }
    out
}

fn is_method_char(c: char) -> bool {
    c.is_ascii_lowercase() || c == '_' || c == '.'
}

/// `seg.seg` tokens (lowercase / underscore segments, exactly one or two dots)
/// that occur inside string literals of the given source.
fn method_like_literals(src: &str, out: &mut BTreeSet<String>) {
    let mut in_str = false;
    let mut cur = String::new();
    let mut prev = '\0';
    let mut lits: Vec<String> = vec![];
    // comment lines are skipped: a stray quote in prose must not shift the scan
    let code: String = src
        .lines()
        .filter(|l| !l.trim_start().starts_with("//"))
        .collect::<Vec<_>>()
        .join("\n");
    for c in code.chars() {
        if in_str {
            if c == '"' && prev != '\\' {
                in_str = false;
                lits.push(std::mem::take(&mut cur));
            } else {
                cur.push(c);
            }
        } else if c == '"' && prev != '\'' {
            in_str = true;
        }
        prev = c;
    }
    for lit in lits {
        let mut tok = String::new();
        for c in lit.chars().chain(std::iter::once(' ')) {
            if is_method_char(c) {
                tok.push(c);
            } else {
                let t = tok.trim_matches('.').to_string();
                tok.clear();
                let dots = t.matches('.').count();
                if (1..=2).contains(&dots) && t.split('.').all(|s| !s.is_empty() && s.len() <= 32) {
                    out.insert(t);
                }
            }
        }
    }
}

pub fn extract() -> Result<Tables, String> {
    let dir = server_crate_dir().ok_or("cannot locate the anda_db_server crate from the driver's manifest")?;
    let modrs = format!("{dir}/src/api/mod.rs");
    let src = std::fs::read_to_string(&modrs).map_err(|e| format!("cannot read {modrs}: {e}"))?;
    let root = parse_table(&src, "RootMethod");
    let db = parse_table(&src, "DbMethod");
    if root.is_empty() || db.is_empty() {
        return Err(format!(
            "method table extraction from {modrs} yielded root={} db={} arms",
            root.len(),
            db.len()
        ));
    }
    let mut lits = BTreeSet::new();
    if let Ok(rd) = std::fs::read_dir(format!("{dir}/src/api")) {
        let mut files: Vec<_> = rd.filter_map(|e| e.ok()).map(|e| e.path()).collect();
        files.sort();
        for f in files {
            if f.extension().map(|e| e == "rs").unwrap_or(false) {
                if let Ok(s) = std::fs::read_to_string(&f) {
                    method_like_literals(&s, &mut lits);
                }
            }
        }
    }
    let known: BTreeSet<&str> = root.iter().chain(db.iter()).map(|(n, _)| n.as_str()).collect();
    let other_literals = lits.into_iter().filter(|l| !known.contains(l.as_str())).collect();
    Ok(Tables { root, db, other_literals, source: modrs })
}
