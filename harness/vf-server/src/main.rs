fn main() {
    eprintln!("vf-server: not built yet");
    std::process::exit(2);
}
