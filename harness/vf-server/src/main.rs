//! vf-server: C14 — service keys confine callers to their database; reads never write.
mod check;
mod extract;
mod matrix;
mod world;

use check::{Case, run_case};
use proptest::prelude::*;
use vf_core::Runner;
use world::{KeySel, Op};

fn keysel() -> impl Strategy<Value = KeySel> {
    prop_oneof![
        3 => Just(KeySel::Fresh),
        2 => Just(KeySel::Generated),
        2 => any::<u16>().prop_map(KeySel::Retired),
    ]
}

fn op_strategy() -> impl Strategy<Value = Op> {
    let r4 = 0u8..4;
    let r5 = 0u8..5;
    let coll = 0u8..2;
    prop_oneof![
        5 => (r4.clone(), keysel()).prop_map(|(role, sel)| Op::SetKey { role, sel }),
        3 => r4.clone().prop_map(|role| Op::RemoveKey { role }),
        2 => r4.clone().prop_map(|role| Op::FrozenRemoveKey { role }),
        3 => r4.clone().prop_map(|role| Op::Close { role }),
        3 => (r4.clone(), any::<bool>()).prop_map(|(role, connect)| Op::Open { role, connect }),
        2 => (r4.clone(), prop::bool::weighted(0.8)).prop_map(|(role, with_key)| Op::CreateAgain { role, with_key }),
        1 => Just(Op::Restart),
        3 => (r4.clone(), prop::bool::weighted(0.8)).prop_map(|(role, on)| Op::DbReadOnly { role, on }),
        2 => (r5.clone(), coll.clone(), prop::bool::weighted(0.8)).prop_map(|(role, coll, on)| Op::CollReadOnly { role, coll, on }),
        1 => (r5.clone(), coll.clone()).prop_map(|(role, coll)| Op::AddDoc { role, coll }),
        1 => (r5.clone(), coll.clone()).prop_map(|(role, coll)| Op::UpdateDoc { role, coll }),
        1 => (r5.clone(), coll.clone()).prop_map(|(role, coll)| Op::RemoveDoc { role, coll }),
        1 => r5.clone().prop_map(|role| Op::SaveExt { role }),
        1 => r5.clone().prop_map(|role| Op::Flush { role }),
    ]
}

/// Every binding of the fixture removed (D has to be opened first): the per-database key map
/// becomes EMPTY, a state of its own for whatever persists the map (seeded change C14-1: "nothing
/// to persist" skipped the write, so the last revoked key came back after a restart).
fn revoke_everything() -> Vec<Op> {
    use Op::*;
    vec![RemoveKey { role: 0 }, RemoveKey { role: 1 }, RemoveKey { role: 2 }, Open { role: 3, connect: false }, RemoveKey { role: 3 }]
}

/// A quarter of the generated histories start from the empty key map.
fn with_optional_revocation(ops: Vec<Op>, sel: u8) -> Vec<Op> {
    if sel % 4 == 0 {
        let mut v = revoke_everything();
        v.extend(ops);
        v
    } else {
        ops
    }
}

fn case_strategy() -> impl Strategy<Value = Case> {
    (prop::collection::vec(op_strategy(), 1..14), any::<u8>()).prop_map(|(ops, sel)| Case { ops: with_optional_revocation(ops, sel), body_sample: None })
}

fn sampled_strategy() -> impl Strategy<Value = Case> {
    (prop::collection::vec(op_strategy(), 1..24), prop::collection::vec(any::<u16>(), 6), any::<u8>())
        .prop_map(|(ops, picks, sel)| Case { ops: with_optional_revocation(ops, sel), body_sample: Some(picks) })
}

/// Fixed histories: one per lifecycle state the property names.
fn canonical() -> Vec<Case> {
    use Op::*;
    let (a, b, c, d) = (0u8, 1u8, 2u8, 3u8);
    vec![
        // the plain fixture (A's key rotated once, D closed)
        Case { ops: vec![], body_sample: None },
        // read-only database A, read-only collection in B and in the primary
        Case { ops: vec![DbReadOnly { role: a, on: true }, CollReadOnly { role: b, coll: 0, on: true }, CollReadOnly { role: 4, coll: 1, on: true }], body_sample: None },
        // clean restart, then more writes
        Case { ops: vec![AddDoc { role: a, coll: 0 }, Restart, AddDoc { role: b, coll: 0 }, UpdateDoc { role: a, coll: 0 }], body_sample: None },
        // close / reopen both tenants (open and connect); D reopened, its key removed (closed again without binding)
        Case { ops: vec![Close { role: a }, Open { role: a, connect: false }, Close { role: b }, Open { role: b, connect: true }, Open { role: d, connect: false }, RemoveKey { role: d }], body_sample: None },
        // key life cycle: remove, generated key, rotations, a retired key reused for another database, key on C removed again
        Case {
            ops: vec![
                RemoveKey { role: a },
                SetKey { role: a, sel: KeySel::Generated },
                SetKey { role: b, sel: KeySel::Fresh },
                SetKey { role: b, sel: KeySel::Retired(0) },
                SetKey { role: c, sel: KeySel::Fresh },
                RemoveKey { role: c },
                Open { role: d, connect: true },
                SetKey { role: d, sel: KeySel::Retired(65535) },
            ],
            body_sample: None,
        },
        // every binding removed: the key map is empty when the matrix (and its restart pass) runs
        Case { ops: revoke_everything(), body_sample: None },
        // every binding removed, restart, one new binding, which is removed again
        Case {
            ops: {
                let mut v = revoke_everything();
                v.extend([Restart, SetKey { role: c, sel: KeySel::Fresh }, Restart, RemoveKey { role: c }]);
                v
            },
            body_sample: None,
        },
        // db.create over existing names (closed with its binding kept, open, closed without a binding), then reopen / restart
        Case {
            ops: vec![
                Close { role: a },
                CreateAgain { role: a, with_key: true },
                CreateAgain { role: b, with_key: true },
                CreateAgain { role: d, with_key: true },
                Open { role: a, connect: false },
                Restart,
            ],
            body_sample: None,
        },
        // revocations while the primary database (the key registry's home) is read-only
        Case { ops: vec![FrozenRemoveKey { role: a }, FrozenRemoveKey { role: b }, Restart, FrozenRemoveKey { role: a }], body_sample: None },
        // everything, with restarts in between
        Case {
            ops: vec![
                SetKey { role: c, sel: KeySel::Fresh },
                Restart,
                Close { role: a },
                RemoveKey { role: b },
                Restart,
                Open { role: a, connect: true },
                SetKey { role: b, sel: KeySel::Generated },
                DbReadOnly { role: b, on: true },
                Open { role: d, connect: false },
                SetKey { role: d, sel: KeySel::Fresh },
                RemoveDoc { role: b, coll: 0 },
                Flush { role: a },
            ],
            body_sample: None,
        },
    ]
}

fn main() {
    let prop = std::env::args().nth(1).unwrap_or_default();
    if prop != "C14" {
        eprintln!("usage: vf-server C14 <quick|thorough|replay FILE> (got {prop:?})");
        std::process::exit(2);
    }
    let mut r = Runner::from_env("C14", "exploration");
    r.set_case_timeout_ms(600_000);
    let tables = match extract::extract() {
        Ok(t) => t,
        Err(e) => {
            r.inconclusive(format!("method table extraction failed: {e}"));
            r.finish();
        }
    };
    match check::validate_tables(&tables) {
        Ok(stats) => {
            r.extra(
                "method_tables",
                serde_json::json!({
                    "source": tables.source,
                    "root": tables.root.iter().map(|(n, e)| format!("{n}:{e:?}")).collect::<Vec<_>>(),
                    "db": tables.db.iter().map(|(n, e)| format!("{n}:{e:?}")).collect::<Vec<_>>(),
                    "other_method_like_literals": tables.other_literals,
                    "probe": stats,
                }),
            );
        }
        Err(e) => {
            r.inconclusive(format!("extracted method tables do not match the live router: {e}"));
            r.finish();
        }
    }
    r.assume("the Read/Mutating class of a method is the one written in RootMethod::parse / DbMethod::parse of the source tree the driver was built against (names cross-validated by probing the live router; the class itself is not observable from outside)");
    r.assume("every backend write of the server goes through the ObjectStore handed to AppState::connect (the logging CtlStore)");
    r.assume("reads are judged on a warm database: every collection was opened once by an admin before the matrix (the cold open of a collection flushes, as collection::open documents); no unclean shutdown is generated");
    r.assume("timing equalisation, TLS / proxy layers and anda_db_shard_proxy are not covered");
    let t = &tables;
    r.sub_enum(
        "canonical_histories",
        "9 fixed admin histories (plain fixture; revocations while the primary database is read-only; read-only database and collections; restart; close/reopen; key life cycle with generated and reused keys; every binding removed - the empty key map - with and without restarts; all combined), each followed by the COMPLETE request matrix in six name-rotated worlds; non-trivial = the matrix contains requests by database-bound or revoked keys (always)",
        true,
        canonical(),
        |c, ctx| run_case(t, c, ctx),
    );
    r.sub(
        "generated_histories",
        "1-13 generated admin actions, a quarter of them on top of the empty key map (every fixture binding removed first), (set_api_key supplied / generated / reusing a retired key, remove_api_key - also while the primary database is read-only and the registry cannot be persisted -, close, open/connect, restart, database and collection read-only, document and extension writes, flush) on top of the fixture, then the COMPLETE request matrix in six name-rotated worlds; non-trivial = the matrix contains requests by database-bound or revoked keys (always: the fixture guarantees both)",
        (16, 400),
        case_strategy,
        |c, ctx| run_case(t, c, ctx),
    );
    r.sub(
        "generated_histories_sampled_bodies",
        "breadth over histories: 1-23 generated admin actions, then the matrix with all principals x all targets x all encodings but only the reduced body set plus 6 picked bodies (method x parameter variant), same oracles, six name-rotated worlds; non-trivial = the matrix contains requests by database-bound or revoked keys (always)",
        (88, 2000),
        sampled_strategy,
        |c, ctx| run_case(t, c, ctx),
    );
    let ff = check::FIXTURE_FAILURES.lock().unwrap().clone();
    if !ff.is_empty() {
        r.inconclusive(format!("{} case(s) could not build their fixture; first: {}", ff.len(), ff[0].chars().take(600).collect::<String>()));
    }
    let vac = check::VACUOUS.lock().unwrap().clone();
    if !vac.is_empty() {
        r.inconclusive(format!("{} case(s) were vacuous; first: {}", vac.len(), vac[0].chars().take(600).collect::<String>()));
    }
    r.finish();
}
