//! Running the parsers the way the property observes them: on a thread with a
//! 2 MiB stack (the default of tokio workers and spawned std threads, which is
//! where a server parses requests), under `catch_unwind`; plus a child-process
//! mode for inputs whose parse could exhaust the stack (a stack overflow
//! aborts the process, which the parent then reports as a violation instead of
//! dying with it).

use anda_kip::{Command, KipError, KmlStatement, KqlQuery, MetaCommand};
use std::io::{Read, Write};
use std::panic::{AssertUnwindSafe, catch_unwind};

pub const STACK: usize = 2 * 1024 * 1024;

/// Runs `f` on a thread with a 2 MiB stack; a panic becomes `Err`.
///
/// The runner's worker threads are plain spawned std threads, whose stack is 2 MiB unless `RUST_MIN_STACK`
/// says otherwise: there `f` runs in place (with less than 2 MiB left, which is the stricter reading). On the
/// main thread (replay mode, 8 MiB) or under `RUST_MIN_STACK` a fresh 2 MiB thread is spawned.
pub fn on_small_stack<T: Send>(f: impl FnOnce() -> T + Send) -> Result<T, String> {
    let on_worker = std::thread::current().name().is_none() && std::env::var_os("RUST_MIN_STACK").is_none();
    if on_worker {
        return catch_unwind(AssertUnwindSafe(f)).map_err(|p| format!("panic: {}", vf_core::panic_msg(&p)));
    }
    std::thread::scope(|s| {
        let h = std::thread::Builder::new()
            .stack_size(STACK)
            .spawn_scoped(s, move || catch_unwind(AssertUnwindSafe(f)))
            .expect("spawn parse thread");
        match h.join() {
            Ok(Ok(v)) => Ok(v),
            Ok(Err(p)) | Err(p) => Err(format!("panic: {}", vf_core::panic_msg(&p))),
        }
    })
}

pub fn code_of(e: &KipError) -> String {
    format!("{:?}", e.code)
}

pub fn is_resource_exhausted(e: &KipError) -> bool {
    matches!(e.code, anda_kip::KipErrorCode::ResourceExhausted)
}

/// The four command entry points on one text.
pub struct Four {
    pub kip: Result<Command, KipError>,
    pub kql: Result<KqlQuery, KipError>,
    pub kml: Result<KmlStatement, KipError>,
    pub meta: Result<MetaCommand, KipError>,
}

pub fn four(text: &str) -> Four {
    Four {
        kip: anda_kip::parse_kip(text),
        kql: anda_kip::parse_kql(text),
        kml: anda_kip::parse_kml(text),
        meta: anda_kip::parse_meta(text),
    }
}

fn short(r: Result<(), &KipError>) -> String {
    match r {
        Ok(()) => "ok".into(),
        Err(e) => code_of(e),
    }
}

/// One line: the outcome of the five entry points (`ok` or the error code).
pub fn outcome_line(text: &str) -> String {
    let f = four(text);
    let j = anda_kip::parse_json(text);
    format!(
        "kip={} kql={} kml={} meta={} json={}",
        short(f.kip.as_ref().map(|_| ())),
        short(f.kql.as_ref().map(|_| ())),
        short(f.kml.as_ref().map(|_| ())),
        short(f.meta.as_ref().map(|_| ())),
        short(j.as_ref().map(|_| ())),
    )
}

/// Developer aid (`vf-kip try <text>`).
pub fn describe(text: &str) -> String {
    let f = four(text);
    let mut s = outcome_line(text);
    match &f.kip {
        Ok(c) => {
            s.push('\n');
            s.push_str(&serde_json::to_string(c).unwrap_or_default());
            s.push_str(&format!("\nvalidate_command: {:?}", anda_kip::validate_command(c).map_err(|e| e.message)));
        }
        Err(e) => s.push_str(&format!("\n{:?}: {}", e.code, e.message)),
    }
    s
}

/// Child mode: text on stdin, outcome line on stdout.
pub fn child_main() -> ! {
    let mut text = String::new();
    std::io::stdin().read_to_string(&mut text).expect("stdin");
    std::panic::set_hook(Box::new(|_| {}));
    let line = match on_small_stack(|| outcome_line(&text)) {
        Ok(l) => l,
        Err(p) => format!("PANIC {p}"),
    };
    println!("{line}");
    std::process::exit(0);
}

/// Parses `text` with every entry point in a child process. `Err` = the child
/// crashed (stack overflow, abort) or the parser panicked. When no child can be
/// started at all the parse happens in this process (second field `false`).
pub fn in_child(text: &str) -> Result<(String, bool), String> {
    let spawned = std::env::current_exe().and_then(|exe| {
        std::process::Command::new(exe)
            .arg("__probe")
            .stdin(std::process::Stdio::piped())
            .stdout(std::process::Stdio::piped())
            .stderr(std::process::Stdio::null())
            .spawn()
    });
    let Ok(mut child) = spawned else {
        return on_small_stack(|| outcome_line(text)).map(|l| (l, false));
    };
    {
        let mut stdin = child.stdin.take().expect("stdin");
        // a child that died early closes the pipe; that is reported below
        let _ = stdin.write_all(text.as_bytes());
    }
    let out = child.wait_with_output().map_err(|e| format!("wait probe child: {e}"))?;
    if !out.status.success() {
        return Err(format!(
            "the parser crashed the process on this input ({}): a stack overflow or abort instead of a result",
            out.status
        ));
    }
    let line = String::from_utf8_lossy(&out.stdout).trim().to_string();
    if line.starts_with("PANIC") {
        return Err(format!("the parser panicked: {line}"));
    }
    Ok((line, true))
}
