//! C15 — KIP parsing is total, bounded, deterministic and classifies by content.

use crate::fixtures;
use crate::grammar::{self as gen_, Sentence, Tape};
use crate::probe::{self, code_of, is_resource_exhausted, on_small_stack};
use crate::tok::{self, Case as KwCase, K, Style, Tok, PLAIN};
use anda_kip::{
    Command, KipError, MAX_KIP_INPUT_LEN, MAX_KIP_NESTING_DEPTH, MetaCommand, MutationClause, WhereClause,
};
use proptest::prelude::*;
use serde::{Deserialize, Serialize};
use std::collections::BTreeMap;
use std::sync::{Arc, Mutex};
use vf_core::{CaseCtx, Runner};

// ---------------------------------------------------------------------------
// shape of an accepted command (for the non-trivial rule)
// ---------------------------------------------------------------------------

fn where_count(w: &[WhereClause]) -> u32 {
    w.iter()
        .map(|c| match c {
            WhereClause::Not(i) | WhereClause::Optional(i) | WhereClause::Union(i) => 1 + where_count(i),
            _ => 1,
        })
        .sum()
}

fn opt_where(w: &Option<Vec<WhereClause>>) -> u32 {
    w.as_ref().map(|w| 1 + where_count(w)).unwrap_or(0)
}

/// Number of clauses of an accepted command: patterns and blocks of every
/// WHERE, statement modifiers, plan clauses and their body clauses.
pub fn ast_clauses(c: &Command) -> u32 {
    match c {
        Command::Kql(q) => {
            where_count(&q.where_clauses)
                + q.as_of.is_some() as u32
                + q.for_time.is_some() as u32
                + q.epistemic.is_some() as u32
                + q.order_by.is_some() as u32
                + q.limit.is_some() as u32
                + q.cursor.is_some() as u32
        }
        Command::Kml(s) => s
            .clauses
            .iter()
            .map(|c| {
                1 + match c {
                    MutationClause::CreateConcept(c) => {
                        c.r#type.is_some() as u32
                            + c.client_key.is_some() as u32
                            + c.name.is_some() as u32
                            + c.set_fields.is_some() as u32
                            + c.set_attributes.is_some() as u32
                            + c.set_facets.len() as u32
                            + c.set_structural.is_some() as u32
                    }
                    MutationClause::UpsertConcept(c) => {
                        c.r#match.is_some() as u32
                            + c.expect_version.is_some() as u32
                            + c.set_fields.is_some() as u32
                            + c.set_attributes.is_some() as u32
                            + c.set_facets.len() as u32
                            + c.unset_attributes.is_some() as u32
                            + c.unset_facets.len() as u32
                            + c.set_structural.is_some() as u32
                            + c.unset_structural.is_some() as u32
                    }
                    MutationClause::CreateEvidence(c) | MutationClause::CreateAssertion(c) | MutationClause::CreateActivity(c) => {
                        c.client_key.is_some() as u32 + c.set_fields.is_some() as u32 + c.set_facets.len() as u32 + c.set_structural.is_some() as u32
                    }
                    MutationClause::EnsureProposition(c) => c.expect_version.is_some() as u32,
                    MutationClause::Update(c) => {
                        c.actions.len() as u32 + c.expect_version.is_some() as u32 + opt_where(&c.where_clauses) + c.limit.is_some() as u32
                    }
                    MutationClause::RetractAssertion(c) => opt_where(&c.where_clauses) + c.limit.is_some() as u32 + c.expect_state.is_some() as u32,
                    MutationClause::SupersedeAssertion(c) => c.expect_state.is_some() as u32,
                    MutationClause::CorrectEvidence(c) => c.expect_state.is_some() as u32,
                    MutationClause::TransitionActivity(c) => {
                        c.set_fields.is_some() as u32 + c.set_structural.is_some() as u32 + c.expect_state.is_some() as u32
                    }
                    MutationClause::SetRetention(c) => opt_where(&c.where_clauses) + c.limit.is_some() as u32 + c.expect_version.is_some() as u32,
                    MutationClause::Archive(c) | MutationClause::Tombstone(c) => {
                        opt_where(&c.where_clauses) + c.limit.is_some() as u32 + c.expect_state.is_some() as u32
                    }
                    MutationClause::Purge(c) => opt_where(&c.where_clauses) + c.limit.is_some() as u32 + c.reference_policy.is_some() as u32,
                    MutationClause::MergeConcept(c) => opt_where(&c.where_clauses) + c.expect_version.is_some() as u32,
                }
            })
            .sum(),
        Command::Meta(m) => {
            // the command itself plus the modifiers visible in its encoding
            let v = serde_json::to_value(m).unwrap_or_default();
            fn opts(v: &serde_json::Value) -> u32 {
                match v {
                    serde_json::Value::Object(o) => o
                        .iter()
                        .map(|(k, v)| {
                            let is_modifier = matches!(
                                k.as_str(),
                                "mode" | "as_of" | "status" | "limit" | "cursor" | "with_type" | "with_predicate" | "threshold" | "as_of_seq"
                                    | "options" | "from_seq" | "to_seq" | "with" | "into" | "to"
                            );
                            (is_modifier && !v.is_null()) as u32 + if k == "where_clauses" { 0 } else { opts(v) }
                        })
                        .sum(),
                    _ => 0,
                }
            }
            let extra = if let MetaCommand::ExportCapsule(e) = m { where_count(&e.where_clauses) } else { 0 };
            1 + opts(&v) + extra
        }
    }
}

/// Bracket nesting of a text outside strings and `//` comments (the quantity
/// the documented limit is about). Written independently of the parser's
/// pre-scan; used on texts whose brackets are balanced.
pub fn text_nesting(s: &str) -> usize {
    let mut cur = 0usize;
    let mut max = 0usize;
    let mut it = s.chars().peekable();
    while let Some(c) = it.next() {
        match c {
            '"' => {
                while let Some(d) = it.next() {
                    if d == '\\' {
                        it.next();
                    } else if d == '"' {
                        break;
                    }
                }
            }
            '/' if it.peek() == Some(&'/') => {
                for d in it.by_ref() {
                    if d == '\n' {
                        break;
                    }
                }
            }
            '(' | '[' | '{' => {
                cur += 1;
                max = max.max(cur);
            }
            ')' | ']' | '}' => cur = cur.saturating_sub(1),
            _ => {}
        }
    }
    max
}

// ---------------------------------------------------------------------------
// the oracles that apply to any text
// ---------------------------------------------------------------------------

fn same_err(a: &KipError, b: &KipError) -> bool {
    code_of(a) == code_of(b) && a.message == b.message
}

const JUNK: &[&str] = &[
    "trailing", "\"junk\"", "42", "?v", ":p", ")", "}", "]", ",", "DESCRIBE PRIMER", "LIMIT 1", "FIND", "{}", "( )", "x:", "|",
    "&&", "true", "null", "WHERE { }", "MUTATE", "-1", "?v.a", "SNAPSHOT", "CONFIRM \"PURGE\"",
];

fn clip(s: &str) -> String {
    if s.len() <= 600 {
        s.to_string()
    } else {
        let mut cut = 600;
        while !s.is_char_boundary(cut) {
            cut -= 1;
        }
        format!("{}… ({} bytes)", &s[..cut], s.len())
    }
}

/// Relations (1),(2),(4),(5),(6),(7) on one text. Returns the accepted command.
pub fn check_text(text: &str, seed: u64, ctx: &mut CaseCtx) -> Result<Option<Command>, String> {
    let f = probe::four(text);
    // (1) refused before parsing when beyond the length limit
    if text.len() > MAX_KIP_INPUT_LEN {
        for (name, e) in [
            ("parse_kip", f.kip.as_ref().err()),
            ("parse_kql", f.kql.as_ref().err()),
            ("parse_kml", f.kml.as_ref().err()),
            ("parse_meta", f.meta.as_ref().err()),
        ] {
            match e {
                Some(e) if is_resource_exhausted(e) => {}
                Some(e) => return Err(format!("{name}: input of {} bytes (limit {MAX_KIP_INPUT_LEN}) answered {} instead of the resource-exhausted refusal", text.len(), code_of(e))),
                None => return Err(format!("{name}: input of {} bytes (limit {MAX_KIP_INPUT_LEN}) was accepted", text.len())),
            }
        }
    }
    // (2) classification by content
    let oks = f.kql.is_ok() as u8 + f.kml.is_ok() as u8 + f.meta.is_ok() as u8;
    match &f.kip {
        Ok(Command::Kql(y)) => {
            if f.kql.as_ref().ok() != Some(y) || oks != 1 {
                return Err(format!(
                    "parse_kip says KQL but parse_kql/parse_kml/parse_meta say {}/{}/{} (or a different tree) on: {}",
                    res(&f.kql), res(&f.kml), res(&f.meta), clip(text)
                ));
            }
        }
        Ok(Command::Kml(y)) => {
            if f.kml.as_ref().ok() != Some(y) || oks != 1 {
                return Err(format!(
                    "parse_kip says KML but parse_kql/parse_kml/parse_meta say {}/{}/{} (or a different tree) on: {}",
                    res(&f.kql), res(&f.kml), res(&f.meta), clip(text)
                ));
            }
        }
        Ok(Command::Meta(y)) => {
            if f.meta.as_ref().ok() != Some(y) || oks != 1 {
                return Err(format!(
                    "parse_kip says META but parse_kql/parse_kml/parse_meta say {}/{}/{} (or a different tree) on: {}",
                    res(&f.kql), res(&f.kml), res(&f.meta), clip(text)
                ));
            }
        }
        Err(e) => {
            if oks != 0 {
                return Err(format!(
                    "parse_kip refuses ({}) what a specific entry point accepts: parse_kql/parse_kml/parse_meta say {}/{}/{} on: {}",
                    code_of(e), res(&f.kql), res(&f.kml), res(&f.meta), clip(text)
                ));
            }
        }
    }
    // (7) determinism
    let again = anda_kip::parse_kip(text);
    match (&f.kip, &again) {
        (Ok(a), Ok(b)) if a == b => {}
        (Err(a), Err(b)) if same_err(a, b) => {}
        _ => return Err(format!("two parses of the same text differ: {} vs {} on: {}", res(&f.kip), res(&again), clip(text))),
    }
    let Ok(cmd) = f.kip else {
        ctx.count("refused", 1);
        return Ok(None);
    };
    ctx.count("accepted", 1);
    // (4) the parser's own tree validator accepts
    if let Err(e) = anda_kip::validate_command(&cmd) {
        return Err(format!("validate_command refuses a command parse_kip accepted ({}: {}): {}", code_of(&e), e.message, clip(text)));
    }
    // (5) JSON encode / decode is the identity and still validates
    let enc = serde_json::to_string(&cmd).map_err(|e| format!("accepted command does not encode as JSON: {e}: {}", clip(text)))?;
    let dec: Command = match serde_json::from_str(&enc) {
        Ok(d) => d,
        Err(e) if e.to_string().contains("recursion limit") => {
            // serde_json's text decoder stops at 128 nested JSON levels by default, and a command within the
            // documented KIP nesting limit can encode deeper than that. The limit belongs to the decoder's
            // configuration, not to the tree's encoding: decode through the JSON data model instead.
            ctx.count("json_text_decoder_recursion_limit_hit", 1);
            let v = serde_json::to_value(&cmd).map_err(|e| format!("accepted command does not encode as a JSON value: {e}"))?;
            serde_json::from_value(v).map_err(|e| format!("encoded command does not decode: {e}: {}", clip(text)))?
        }
        Err(e) => return Err(format!("encoded command does not decode: {e}: {} / {}", clip(text), clip(&enc))),
    };
    if dec != cmd {
        return Err(format!("JSON round trip changed the tree of: {} (encoded {})", clip(text), clip(&enc)));
    }
    if let Err(e) = anda_kip::validate_command(&dec) {
        return Err(format!("the re-decoded tree no longer validates ({}): {}", e.message, clip(text)));
    }
    // (6) all-consuming: junk on a NEW LINE is never silently ignored
    let mut mix = tok::Mix::new(seed);
    for _ in 0..2 {
        let junk = JUNK[mix.below(JUNK.len())];
        let t2 = format!("{text}\n{junk}");
        if let Ok(c2) = anda_kip::parse_kip(&t2) {
            if c2 == cmd {
                return Err(format!("a trailing junk token on its own line ({junk:?}) was silently ignored after: {}", clip(text)));
            }
        }
        // ... nor by the specific entry point of this command's language
        let ignored = match &cmd {
            Command::Kql(q) => anda_kip::parse_kql(&t2).ok().as_ref() == Some(q),
            Command::Kml(k) => anda_kip::parse_kml(&t2).ok().as_ref() == Some(k),
            Command::Meta(m) => anda_kip::parse_meta(&t2).ok().as_ref() == Some(m),
        };
        if ignored {
            return Err(format!("the specific entry point silently ignored a trailing junk token on its own line ({junk:?}) after: {}", clip(text)));
        }
    }
    Ok(Some(cmd))
}

fn res<T>(r: &Result<T, KipError>) -> String {
    match r {
        Ok(_) => "Ok".into(),
        Err(e) => format!("Err({})", code_of(e)),
    }
}

/// Relation (3): the variants of a token sequence that differ only in keyword
/// case, inter-token whitespace and comments all parse to the same result.
fn check_variants(toks: &[Tok], seed: u64, base_text: &str, base: &Option<Command>, ctx: &mut CaseCtx) -> Result<(), String> {
    for st in tok::variant_styles(seed) {
        let v = tok::render(toks, st);
        if (v.len() > MAX_KIP_INPUT_LEN) != (base_text.len() > MAX_KIP_INPUT_LEN) {
            ctx.count("variant_crosses_length_limit", 1);
            continue;
        }
        let r = anda_kip::parse_kip(&v);
        match (base, &r) {
            (Some(a), Ok(b)) if a == b => {}
            (None, Err(_)) => {}
            (Some(_), Ok(_)) => {
                return Err(format!("variant {st:?} parses to a DIFFERENT tree.\n base: {}\n variant: {}", clip(base_text), clip(&v)));
            }
            (Some(_), Err(e)) => {
                return Err(format!(
                    "variant {st:?} (keyword case / whitespace / comments only) is refused ({}: {}) while the base parses.\n base: {}\n variant: {}",
                    code_of(e), e.message, clip(base_text), clip(&v)
                ));
            }
            (None, Ok(_)) => {
                return Err(format!("variant {st:?} parses while the base is refused.\n base: {}\n variant: {}", clip(base_text), clip(&v)));
            }
        }
        ctx.count("variants", 1);
    }
    Ok(())
}

fn nontrivial(cmd: &Option<Command>, nesting: usize, ctx: &mut CaseCtx) {
    if let Some(c) = cmd {
        let n = ast_clauses(c);
        ctx.label(match c {
            Command::Kql(_) => "accepted:kql",
            Command::Kml(_) => "accepted:kml",
            Command::Meta(_) => "accepted:meta",
        });
        if n >= 2 || nesting >= 3 {
            ctx.nontrivial = true;
        }
    }
    let lim = MAX_KIP_NESTING_DEPTH;
    if nesting + 2 >= lim && nesting <= lim + 2 {
        ctx.nontrivial = true;
        ctx.label("near_depth_limit");
    }
}

// ---------------------------------------------------------------------------
// G1
// ---------------------------------------------------------------------------

#[derive(Clone, Debug, Serialize, Deserialize)]
pub struct G1Case {
    pub sent: Sentence,
    pub seed: u64,
    /// 0 = none; 1..=4 pad the text to a length within +-2 of the limit
    pub pad: u8,
    pub pad_delta: i8,
}

fn g1_strategy() -> impl Strategy<Value = G1Case> {
    (
        prop::collection::vec(any::<u16>(), 4..260),
        any::<u64>(),
        prop_oneof![60 => Just(0u8), 1 => 1u8..=4],
        -2i8..=2,
    )
        .prop_map(|(tape, seed, pad, pad_delta)| G1Case { sent: gen_::sentence(&tape), seed, pad, pad_delta })
}

type Tally = Arc<Mutex<BTreeMap<String, (u64, u64)>>>;

fn bump(t: &Tally, key: &str, accepted: bool) {
    let mut m = t.lock().unwrap();
    let e = m.entry(key.to_string()).or_insert((0, 0));
    e.0 += 1;
    e.1 += accepted as u64;
}

fn pad_to(base: &str, kind: u8, total: usize) -> String {
    if base.len() + 8 > total {
        return base.to_string();
    }
    let n = total - base.len();
    match kind {
        1 => format!("{base}\n//{}", "x".repeat(n - 3)),
        2 => format!("{}{base}", " ".repeat(n)),
        3 => format!("{base}{}", "\n".repeat(n)),
        _ => format!("//{}\n{base}", "({[\"".repeat((n - 3) / 4 + 1).chars().take(n - 3).collect::<String>()),
    }
}

fn run_g1(c: &G1Case, ctx: &mut CaseCtx, tally: &Tally) -> Result<(), String> {
    let toks = &c.sent.toks;
    let text = tok::render(toks, PLAIN);
    let nest = tok::nesting(toks);
    let cmd = check_text(&text, c.seed, ctx)?;
    ctx.label(format!("family:{}", c.sent.family));
    bump(tally, &format!("family:{}", c.sent.family), cmd.is_some());
    for f in &c.sent.features {
        bump(tally, f, cmd.is_some());
    }
    // (1) depth beyond the limit is refused with the documented error, at or below it never
    if let Err(e) = anda_kip::parse_kip(&text) {
        let re = is_resource_exhausted(&e);
        if nest > MAX_KIP_NESTING_DEPTH && text.len() <= MAX_KIP_INPUT_LEN && !re {
            return Err(format!("nesting {nest} (limit {MAX_KIP_NESTING_DEPTH}) answered {} instead of the resource-exhausted refusal: {}", code_of(&e), clip(&text)));
        }
        if nest <= MAX_KIP_NESTING_DEPTH && text.len() <= MAX_KIP_INPUT_LEN && re {
            return Err(format!("nesting {nest} (limit {MAX_KIP_NESTING_DEPTH}) was refused as resource-exhausted: {}", clip(&text)));
        }
        if nest > MAX_KIP_NESTING_DEPTH {
            ctx.label("refused:depth");
        }
    } else if nest > MAX_KIP_NESTING_DEPTH {
        return Err(format!("nesting {nest} beyond the limit {MAX_KIP_NESTING_DEPTH} was accepted: {}", clip(&text)));
    }
    check_variants(toks, c.seed, &text, &cmd, ctx)?;
    if c.pad != 0 {
        let total = (MAX_KIP_INPUT_LEN as i64 + c.pad_delta as i64) as usize;
        let padded = pad_to(&text, c.pad, total);
        if padded.len() == total {
            let r = anda_kip::parse_kip(&padded);
            ctx.label("near_length_limit");
            ctx.nontrivial = true;
            match (&cmd, r) {
                (_, Err(e)) if total > MAX_KIP_INPUT_LEN => {
                    if !is_resource_exhausted(&e) {
                        return Err(format!("{total} bytes (limit {MAX_KIP_INPUT_LEN}) answered {} instead of the resource-exhausted refusal", code_of(&e)));
                    }
                }
                (_, Ok(_)) if total > MAX_KIP_INPUT_LEN => return Err(format!("{total} bytes (limit {MAX_KIP_INPUT_LEN}) were accepted")),
                (Some(a), Ok(b)) if *a == b => {}
                (None, Err(e)) if !(is_resource_exhausted(&e) && e.message.contains("length")) => {}
                (_, r) => {
                    return Err(format!(
                        "padding with whitespace / a comment up to {total} bytes (limit {MAX_KIP_INPUT_LEN}) changed the result ({}) of: {}",
                        res(&r), clip(&text)
                    ));
                }
            }
        }
    }
    nontrivial(&cmd, nest, ctx);
    Ok(())
}

// ---------------------------------------------------------------------------
// G2: token-level mutations
// ---------------------------------------------------------------------------

#[derive(Clone, Debug, Serialize, Deserialize)]
pub struct G2Case {
    pub origin: String,
    pub ops: Vec<String>,
    pub toks: Vec<Tok>,
    pub seed: u64,
}

const RAW_JUNK: &[&str] = &["\"", "\\", "/", "//", ".", "?", "#", "@", "\"unterminated", "/*", "*/", ";", "'", "\u{0}", "\u{feff}", "?.", ":", "::", "?x.", "\"\\", "\"\\u12", "=", "&", "0x1F", "1e999", "--1", "+1", ".5", "5.", "\u{a0}"];
const TOKEN_POOL: &[(K, &str)] = &[
    (K::Kw, "WHERE"), (K::Kw, "FIND"), (K::Kw, "LIMIT"), (K::Kw, "NOT"), (K::Kw, "SET"), (K::Kw, "FIELDS"), (K::Kw, "BELIEF"), (K::Kw, "MUTATE"),
    (K::Kw, "CONFIRM"), (K::Kw, "AS"), (K::Kw, "OF"), (K::Kw, "BY"), (K::Kw, "WITH"), (K::Kw, "DESCRIBE"), (K::Kw, "EXPORT"), (K::Kw, "CAPSULE"),
    (K::Kw, "UPSERT"), (K::Kw, "CONCEPT"), (K::Kw, "ASSERT"), (K::Kw, "SUPERSEDING"), (K::Kw, "STRUCTURAL"), (K::Kw, "UNSET"), (K::Kw, "SLOT"),
    (K::P, "("), (K::P, ")"), (K::P, "{"), (K::P, "}"), (K::P, "["), (K::P, "]"), (K::P, ","), (K::P, ":"), (K::P, "|"), (K::P, "!"), (K::P, "=="),
    (K::P, "!="), (K::P, "&&"), (K::P, "||"), (K::P, "-"), (K::P, "<"), (K::P, ">="),
    (K::Word, "true"), (K::Word, "null"), (K::Word, "TRUE"), (K::Word, "id"), (K::Word, "by"), (K::Word, "BY_"), (K::Word, "_system"), (K::Word, "governance"),
    (K::Str, "\"PURGE\""), (K::Str, "\"({[\""), (K::Str, "\"// x\""), (K::Str, "\"\\\"\""), (K::Str, "\"\""), (K::Str, "\"}\""),
    (K::Num, "0"), (K::Num, "-5"), (K::Num, "1e3"), (K::Num, "18446744073709551616"),
    (K::Path, "?x"), (K::Path, "?x.a[\"k\"]"), (K::Param, ":p"), (K::Glued, "\"p\"{1,3}"), (K::Glued, "\"p\"{3,1}"), (K::Glued, ":p{2}"),
    (K::Fn, "COUNT"), (K::Fn, "IS_NULL"), (K::Fn, "ADD"), (K::Fn, "CLAMP"),
];

fn mutate(base: Vec<Tok>, donor: &[Tok], ops: &[(u8, u16, u16, u16)], applied: &mut Vec<String>) -> Vec<Tok> {
    let mut t = base;
    for (op, a, b, c) in ops {
        let len = t.len();
        let ia = vf_core::pick_idx(*a, len.max(1));
        let ib = vf_core::pick_idx(*b, len.max(1));
        match op {
            0 if len > 0 => {
                t.remove(ia);
                applied.push("delete".into());
            }
            1 if len > 0 => {
                let x = t[ia].clone();
                t.insert(ia, x);
                applied.push("duplicate".into());
            }
            2 if len > 1 => {
                t.swap(ia, ib);
                applied.push("swap".into());
            }
            3 => {
                t.truncate(ia);
                applied.push("truncate".into());
            }
            4 if len > 0 => {
                t.drain(0..ia);
                applied.push("behead".into());
            }
            5 if !donor.is_empty() => {
                let s = vf_core::pick_idx(*b, donor.len());
                let n = 1 + vf_core::pick_idx(*c, (donor.len() - s).min(12));
                let at = vf_core::pick_idx(*a, len + 1);
                let piece: Vec<Tok> = donor[s..s + n].to_vec();
                t.splice(at..at, piece);
                applied.push("splice".into());
            }
            6 if len > 0 => {
                let (k, s) = TOKEN_POOL[vf_core::pick_idx(*b, TOKEN_POOL.len())];
                t[ia] = Tok::new(k, s);
                applied.push("replace".into());
            }
            7 => {
                let (k, s) = TOKEN_POOL[vf_core::pick_idx(*b, TOKEN_POOL.len())];
                let at = vf_core::pick_idx(*a, len + 1);
                t.insert(at, Tok::new(k, s));
                applied.push("insert".into());
            }
            8 if len > 0 => {
                // flip the case of a case-SENSITIVE word (true -> TRUE, by -> BY): a consistent refusal or a consistent other tree
                if let Some(i) = (0..len).map(|d| (ia + d) % len).find(|i| t[*i].k == K::Word) {
                    let w = &t[i].t;
                    t[i].t = if *w == w.to_ascii_uppercase() { w.to_ascii_lowercase() } else { w.to_ascii_uppercase() };
                    applied.push("word_case".into());
                }
            }
            9 if len > 0 => {
                // respell a keyword in lower case and freeze that spelling (the variants no longer touch it)
                if let Some(i) = (0..len).map(|d| (ia + d) % len).find(|i| t[*i].k == K::Kw) {
                    t[i] = Tok::new(K::Word, t[i].t.to_ascii_lowercase());
                    applied.push("keyword_lowercased".into());
                }
            }
            10 if len > 0 => {
                // quotes and brackets inside a string
                if let Some(i) = (0..len).map(|d| (ia + d) % len).find(|i| t[*i].k == K::Str) {
                    let bodies = ["\"({[\"", "\"}])\"", "\"\\\"\"", "\"// (\"", "\"a\\\\\"", "\"\\\\\\\"{\""];
                    t[i].t = bodies[vf_core::pick_idx(*b, bodies.len())].to_string();
                    applied.push("string_brackets".into());
                }
            }
            11 => {
                let at = vf_core::pick_idx(*a, len + 1);
                t.insert(at, Tok::new(K::Raw, RAW_JUNK[vf_core::pick_idx(*b, RAW_JUNK.len())]));
                applied.push("raw_junk".into());
            }
            12 if len > 0 => {
                // cut a token in the middle (char level)
                let chars: Vec<char> = t[ia].t.chars().collect();
                if chars.len() > 1 {
                    let n = 1 + vf_core::pick_idx(*b, chars.len() - 1);
                    t[ia] = Tok::new(K::Raw, chars[..n].iter().collect::<String>());
                    applied.push("cut_token".into());
                }
            }
            13 if len > 2 => {
                // duplicate a run of tokens
                let n = 1 + vf_core::pick_idx(*c, (len - ia).min(10));
                let piece: Vec<Tok> = t[ia..ia + n].to_vec();
                let at = vf_core::pick_idx(*b, len + 1);
                t.splice(at..at, piece);
                applied.push("duplicate_run".into());
            }
            _ => {}
        }
    }
    t
}

fn g2_strategy(fix: Arc<Vec<(usize, Vec<Tok>)>>) -> impl Strategy<Value = G2Case> {
    (
        any::<u16>(),
        prop::collection::vec(any::<u16>(), 4..200),
        prop::collection::vec(any::<u16>(), 4..100),
        prop_oneof![
            5 => prop::collection::vec((0u8..14, any::<u16>(), any::<u16>(), any::<u16>()), 1..2),
            3 => prop::collection::vec((0u8..14, any::<u16>(), any::<u16>(), any::<u16>()), 2..3),
            2 => prop::collection::vec((0u8..14, any::<u16>(), any::<u16>(), any::<u16>()), 3..5),
        ],
        any::<u64>(),
    )
        .prop_map(move |(sel, tape, donor_tape, ops, seed)| {
            let (origin, base) = if sel % 3 == 0 && !fix.is_empty() {
                let (i, t) = &fix[vf_core::pick_idx(sel, fix.len())];
                (format!("fixture#{i}"), t.clone())
            } else {
                let s = gen_::sentence(&tape);
                (s.family, s.toks)
            };
            let donor = if sel % 2 == 0 && !fix.is_empty() {
                fix[vf_core::pick_idx(donor_tape[0], fix.len())].1.clone()
            } else {
                gen_::sentence(&donor_tape).toks
            };
            let mut applied = vec![];
            let toks = mutate(base, &donor, &ops, &mut applied);
            G2Case { origin, ops: applied, toks, seed }
        })
}

fn run_g2(c: &G2Case, ctx: &mut CaseCtx) -> Result<(), String> {
    let text = tok::render(&c.toks, PLAIN);
    let cmd = check_text(&text, c.seed, ctx)?;
    for o in &c.ops {
        ctx.label(format!("op:{o}"));
    }
    if tok::meta_safe(&c.toks) {
        check_variants(&c.toks, c.seed, &text, &cmd, ctx)?;
        ctx.label("metamorphic_applied");
    } else {
        // raw fragments: only whitespace-free relations; also try the text with a comment that holds quotes and brackets
        let with_comment = format!("// \" ({{[\n{text}\n// }}]) \"");
        let r = anda_kip::parse_kip(&with_comment);
        match (&cmd, &r) {
            (Some(a), Ok(b)) if a == b => {}
            (None, Err(_)) => {}
            _ => {
                // a raw fragment may itself open a string that swallows the added lines: only a
                // text without quote characters is decided
                if !text.contains('"') {
                    return Err(format!("a leading and a trailing comment line changed the result ({} vs {}) of: {}", res(&r), if cmd.is_some() { "Ok" } else { "Err" }, clip(&text)));
                }
            }
        }
    }
    let nest = text_nesting(&text);
    nontrivial(&cmd, nest, ctx);
    Ok(())
}

// ---------------------------------------------------------------------------
// G3: arbitrary Unicode, lexeme soup, near-limit garbage
// ---------------------------------------------------------------------------

#[derive(Clone, Debug, Serialize, Deserialize)]
pub struct G3Case {
    /// 0 arbitrary, 1 lexeme soup, 2 near the length limit, 3 near the depth limit
    pub kind: u8,
    pub text: String,
    pub filler: u8,
    pub delta: i8,
    pub seed: u64,
}

const SOUP: &[&str] = &[
    "FIND", "(", ")", "WHERE", "{", "}", "?x", ":p", "\"s\"", ",", "|", "{1,3}", "FILTER", "!", "==", "&&", "1", "-", ".", "[", "]", "//", "\n",
    " ", "MUTATE", "ASSERT", "by", ":", "mode", "UPDATE", "SET", "FIELDS", "CONFIRM", "\"PURGE\"", "DESCRIBE", "PRIMER", "AS", "OF", "SEQ", "id",
    "BELIEF", "SLOT", "true", "null", "\\", "\"", "e9", "?", "LIMIT", "EXPORT", "CAPSULE", "\u{e9}", "\u{1F600}", "\t", "\r",
];

fn g3_strategy() -> impl Strategy<Value = G3Case> {
    let arbitrary = prop::collection::vec(any::<char>(), 0..120).prop_map(|v| v.into_iter().collect::<String>());
    let soup = prop::collection::vec(any::<u16>(), 0..60).prop_map(|v| v.into_iter().map(|i| SOUP[vf_core::pick_idx(i, SOUP.len())]).collect::<String>());
    let text = prop_oneof![arbitrary, soup.clone()];
    (prop_oneof![8 => Just(0u8), 8 => Just(1u8), 1 => Just(2u8), 6 => Just(3u8)], text, soup, any::<u8>(), -2i8..=2, any::<u64>()).prop_map(
        |(kind, text, soup, filler, delta, seed)| {
            let text = match kind {
                0 => text,
                1 => soup,
                _ => text,
            };
            G3Case { kind, text, filler, delta, seed }
        },
    )
}

fn g3_text(c: &G3Case) -> (String, Option<usize>) {
    match c.kind {
        2 => {
            let total = (MAX_KIP_INPUT_LEN as i64 + c.delta as i64) as usize;
            let fill = [" ", "x", "/", "\\", "\"", "\u{e9}", "\n", "(a)", "\u{1F600}"][c.filler as usize % 9];
            let mut s = c.text.clone();
            while s.len() + fill.len() <= total {
                s.push_str(fill);
            }
            while s.len() < total {
                s.push(' ');
            }
            (s, None)
        }
        3 => {
            // neutral prefix, then exactly `depth` open brackets in code, extra brackets only inside a comment and a string
            let depth = (MAX_KIP_NESTING_DEPTH as i64 + c.delta as i64) as usize;
            let neutral: String = c.text.chars().filter(|ch| !matches!(ch, '"' | '/' | '\\' | '(' | ')' | '[' | ']' | '{' | '}')).collect();
            let open = ["(", "[", "{"];
            let mut s = String::new();
            match c.filler % 4 {
                0 => s.push_str("// \" (((((((((( [[[[[ {{{{{\n"),
                1 => s.push_str("DESCRIBE TYPE \"((((((((((((((((((((((((((((((((((((((((((((((((((((((((((((((((((((((((\" "),
                2 => s.push_str("\"\\\" [[[[\" // (((( \"\n"),
                _ => {}
            }
            s.push_str(&neutral);
            for i in 0..depth {
                s.push_str(open[(c.filler as usize / 4 + i * (c.filler as usize % 3)) % 3]);
            }
            (s, Some(depth))
        }
        _ => (c.text.clone(), None),
    }
}

/// The g3_unicode property closure (also the body of the C15 libFuzzer target).
pub fn run_g3_small_stack(c: &G3Case, ctx: &mut CaseCtx) -> Result<(), String> {
    on_small_stack(|| run_g3(c, ctx)).and_then(|r| r)
}

fn run_g3(c: &G3Case, ctx: &mut CaseCtx) -> Result<(), String> {
    let (text, depth) = g3_text(c);
    ctx.label(["kind:arbitrary", "kind:lexeme_soup", "kind:near_length_limit", "kind:near_depth_limit"][c.kind as usize % 4]);
    let cmd = check_text(&text, c.seed, ctx)?;
    let j = anda_kip::parse_json(&text);
    let j2 = anda_kip::parse_json(&text);
    match (&j, &j2) {
        (Ok(a), Ok(b)) if a == b => {}
        (Err(a), Err(b)) if same_err(a, b) => {}
        _ => return Err(format!("two parse_json calls on the same text differ: {}", clip(&text))),
    }
    if text.len() > MAX_KIP_INPUT_LEN {
        match &j {
            Err(e) if is_resource_exhausted(e) => {}
            other => return Err(format!("parse_json: {} bytes answered {} instead of the resource-exhausted refusal", text.len(), res(other))),
        }
        ctx.nontrivial = true;
    } else if c.kind == 2 {
        ctx.nontrivial = true;
        for (name, r) in [("parse_kip", anda_kip::parse_kip(&text).err()), ("parse_json", j.as_ref().err().cloned())] {
            if let Some(e) = r {
                // only the length rule is decided here: the filler may legitimately exceed the depth rule
                if is_resource_exhausted(&e) && e.message.contains("length") {
                    return Err(format!("{name}: {} bytes (limit {MAX_KIP_INPUT_LEN}) refused for length", text.len()));
                }
            }
        }
    }
    if let Some(d) = depth {
        ctx.nontrivial = true;
        let kip = anda_kip::parse_kip(&text);
        for (name, e) in [("parse_kip", kip.as_ref().err()), ("parse_json", j.as_ref().err())] {
            match e {
                Some(e) if d > MAX_KIP_NESTING_DEPTH => {
                    if !is_resource_exhausted(e) {
                        return Err(format!("{name}: garbage nested {d} deep (limit {MAX_KIP_NESTING_DEPTH}) answered {} — the parser ran before the budget check: {}", code_of(e), clip(&text)));
                    }
                }
                Some(e) => {
                    if is_resource_exhausted(e) {
                        return Err(format!("{name}: nesting {d} (limit {MAX_KIP_NESTING_DEPTH}; further brackets only inside a string / comment) was refused as resource-exhausted: {}", clip(&text)));
                    }
                }
                None => {
                    if d > MAX_KIP_NESTING_DEPTH {
                        return Err(format!("{name}: nesting {d} beyond the limit was accepted"));
                    }
                }
            }
        }
    }
    if cmd.is_some() {
        nontrivial(&cmd, text_nesting(&text), ctx);
    }
    Ok(())
}

// ---------------------------------------------------------------------------
// explicit limit cases
// ---------------------------------------------------------------------------

#[derive(Clone, Debug, Serialize, Deserialize)]
pub struct BudgetCase {
    pub shape: String,
    /// nesting depth in code, or total length in bytes
    pub n: usize,
    pub bracket: String,
}

fn nest(open: &str, n: usize) -> (String, String) {
    let pairs = [("(", ")"), ("[", "]"), ("{", "}")];
    let mut o = String::new();
    let mut c: Vec<&str> = vec![];
    for i in 0..n {
        let (a, b) = match open {
            "(" => pairs[0],
            "[" => pairs[1],
            "{" => pairs[2],
            _ => pairs[i % 3],
        };
        o.push_str(a);
        c.push(b);
    }
    c.reverse();
    (o, c.concat())
}

/// (text, code nesting depth, must the text be accepted when within the limits?)
fn budget_text(c: &BudgetCase) -> (String, Option<usize>, bool) {
    let d = c.n;
    let (o, cl) = if c.shape.starts_with("len_") { (String::new(), String::new()) } else { nest(&c.bracket, d) };
    match c.shape.as_str() {
        // --- garbage: a syntax error here would prove the parser ran first ---
        "garbage_open" => (format!("@@ {o}"), Some(d), false),
        "garbage_closed" => (format!("FIND {o}{cl} ~~"), Some(d), false),
        "garbage_unbalanced_quote" => (format!("{o} \"unterminated"), Some(d), false),
        "garbage_after_quote_in_comment" => (format!("// \"\n{o}"), Some(d), false),
        "garbage_after_string" => (format!("\"a\\\"(\" {o}"), Some(d), false),
        "garbage_mismatched_closers" => (format!("{o})]}}"), Some(d), false),
        // --- well-formed statements whose nesting is exactly d ---
        "valid_json_array" => {
            let (o, cl) = nest("[", d);
            (format!("{o}1{cl}"), Some(d), true)
        }
        "valid_json_object" => {
            let mut s = String::new();
            for _ in 0..d {
                s.push_str("{a:");
            }
            s.push('1');
            s.push_str(&"}".repeat(d));
            (s, Some(d), true)
        }
        "valid_kml_value" => {
            let (o, cl) = nest("[", d - 1);
            (format!("UPDATE :x SET ATTRIBUTES {{a: {o}1{cl}}}"), Some(d), true)
        }
        "valid_kql_tuple" => {
            let mut s = String::from("FIND(?x) WHERE { ");
            for _ in 0..d - 1 {
                s.push_str("(:a, \"p\", ");
            }
            s.push_str(":b");
            s.push_str(&")".repeat(d - 1));
            s.push_str(" }");
            (s, Some(d), true)
        }
        "valid_filter_parens" => {
            let (o, cl) = nest("(", d - 2);
            (format!("FIND(?x) WHERE {{ FILTER({o}?x.a > 1{cl}) }}"), Some(d), true)
        }
        "valid_blocks" => {
            let mut s = String::from("FIND(?x) WHERE {");
            for i in 0..d - 2 {
                s.push_str([" NOT {", " OPTIONAL {", " UNION {"][i % 3]);
            }
            s.push_str(" ?x {} ");
            s.push_str(&"}".repeat(d - 2));
            s.push('}');
            (s, Some(d), true)
        }
        "valid_match_objects" => {
            let mut s = String::from("FIND(?x) WHERE { ?x ");
            for _ in 0..d - 1 {
                s.push_str("{a: ");
            }
            s.push('1');
            s.push_str(&"}".repeat(d - 1));
            s.push_str(" }");
            (s, Some(d), true)
        }
        "valid_epistemic_objects" => {
            let mut s = String::from("FIND(?x) WHERE { } WITH EPISTEMIC ");
            for _ in 0..d {
                s.push_str("{a: ");
            }
            s.push_str(":p");
            s.push_str(&"}".repeat(d));
            (s, Some(d), true)
        }
        "valid_update_expr" => {
            let mut s = String::from("UPDATE :x SET ATTRIBUTES {a: ");
            for _ in 0..d - 1 {
                s.push_str("ADD(");
            }
            s.push('1');
            s.push_str(&", 1)".repeat(d - 1));
            s.push('}');
            (s, Some(d), true)
        }
        // --- brackets only inside strings / comments: never a depth refusal ---
        "in_string" => (format!("DESCRIBE TYPE \"{o}\""), Some(0), true),
        "in_string_after_escaped_quote" => (format!("DESCRIBE TYPE \"\\\" {o}\""), Some(0), true),
        "in_leading_comment" => (format!("// {o}\nDESCRIBE PROTOCOL"), Some(0), true),
        "in_trailing_comment" => (format!("DESCRIBE PROTOCOL // {o}"), Some(0), true),
        "in_comment_with_quote" => (format!("// \" {o}\nDESCRIBE PROTOCOL // \" {o}"), Some(0), true),
        "in_string_with_slashes" => (format!("DESCRIBE TYPE \"// {o}\""), Some(0), true),
        "in_inner_comment" => (format!("FIND(?x) // {o}\nWHERE {{ ?x {{type: \"T\"}} // {o}\n}}"), Some(2), true),
        // --- length ---
        "len_garbage_x" => ("x".repeat(d), None, false),
        "len_garbage_slashes" => ("/".repeat(d), None, false),
        "len_garbage_quote" => (format!("\"{}", "a".repeat(d - 1)), None, false),
        "len_multibyte" => {
            let mut s = "\u{e9}".repeat(d / 2);
            while s.len() < d {
                s.push(' ');
            }
            (s, None, false)
        }
        "len_leading_spaces" => {
            let stmt = "DESCRIBE PROTOCOL";
            (format!("{}{stmt}", " ".repeat(d - stmt.len())), None, true)
        }
        "len_trailing_comment" => {
            let stmt = "DESCRIBE PROTOCOL //";
            (format!("{stmt}{}", "c".repeat(d - stmt.len())), None, true)
        }
        "len_long_string" => {
            let head = "DESCRIBE TYPE \"";
            (format!("{head}{}\"", "s".repeat(d - head.len() - 1)), None, true)
        }
        "len_json_string" => (format!("\"{}\"", "j".repeat(d - 2)), None, true),
        other => panic!("unknown budget shape {other}"),
    }
}

fn budget_cases() -> Vec<BudgetCase> {
    let lim = MAX_KIP_NESTING_DEPTH;
    let depths = [lim - 1, lim, lim + 1, lim + 2, 10 * lim];
    let mut v = vec![];
    for shape in [
        "garbage_open", "garbage_closed", "garbage_unbalanced_quote", "garbage_after_quote_in_comment", "garbage_after_string",
        "garbage_mismatched_closers", "in_string", "in_string_after_escaped_quote", "in_leading_comment", "in_trailing_comment",
        "in_comment_with_quote", "in_string_with_slashes", "in_inner_comment",
    ] {
        for b in ["(", "[", "{", "mixed"] {
            for d in depths {
                v.push(BudgetCase { shape: shape.into(), n: d, bracket: b.into() });
            }
        }
    }
    for shape in [
        "valid_json_array", "valid_json_object", "valid_kml_value", "valid_kql_tuple", "valid_filter_parens", "valid_blocks",
        "valid_match_objects", "valid_epistemic_objects", "valid_update_expr",
    ] {
        for d in depths {
            v.push(BudgetCase { shape: shape.into(), n: d, bracket: "".into() });
        }
    }
    let max = MAX_KIP_INPUT_LEN;
    for shape in [
        "len_garbage_x", "len_garbage_slashes", "len_garbage_quote", "len_multibyte", "len_leading_spaces", "len_trailing_comment",
        "len_long_string", "len_json_string",
    ] {
        for n in [max - 2, max - 1, max, max + 1, max + 2, 2 * max] {
            v.push(BudgetCase { shape: shape.into(), n, bracket: "".into() });
        }
    }
    v
}

fn run_budget(c: &BudgetCase, ctx: &mut CaseCtx) -> Result<(), String> {
    let (text, depth, must_accept) = budget_text(c);
    ctx.nontrivial = true;
    ctx.label(format!("shape:{}", c.shape));
    // every parse of this sub-check happens in a child process: a stack overflow is a reported violation, not a dead checker
    let (line, isolated) = probe::in_child(&text).map_err(|e| format!("{e} [{} n={} bracket={:?}]", c.shape, c.n, c.bracket))?;
    if !isolated {
        ctx.count("probe_child_unavailable_parsed_in_process", 1);
    }
    let fields: BTreeMap<&str, &str> = line.split(' ').filter_map(|kv| kv.split_once('=')).collect();
    if fields.len() != 5 {
        return Err(format!("probe child answered {line:?}"));
    }
    let too_long = text.len() > MAX_KIP_INPUT_LEN;
    let too_deep = depth.map(|d| d > MAX_KIP_NESTING_DEPTH).unwrap_or(false);
    for (entry, outcome) in &fields {
        if too_long || too_deep {
            if *outcome != "ResourceExhausted" {
                return Err(format!(
                    "{entry}: input beyond the documented limit ({}) answered {outcome} instead of the resource-exhausted refusal — {} [{} n={} bracket={:?}]",
                    if too_long { format!("{} bytes > {MAX_KIP_INPUT_LEN}", text.len()) } else { format!("nesting {} > {MAX_KIP_NESTING_DEPTH}", depth.unwrap()) },
                    if *outcome == "ok" { "it was accepted" } else { "the parser ran before the budget check" },
                    c.shape, c.n, c.bracket
                ));
            }
        } else if *outcome == "ResourceExhausted" {
            return Err(format!(
                "{entry}: input within the documented limits ({} bytes, code nesting {:?}; other brackets only inside strings / comments) was refused as resource-exhausted [{} n={} bracket={:?}]",
                text.len(), depth, c.shape, c.n, c.bracket
            ));
        }
    }
    if !(too_long || too_deep) {
        let accepted = fields.values().any(|o| *o == "ok");
        ctx.label(if accepted { "within_limits:accepted" } else { "within_limits:syntax_error" });
        if must_accept && !accepted {
            // not part of the property (a within-limit refusal for another reason is a result, not a crash): recorded only
            ctx.count("well_formed_within_limits_refused", 1);
        }
    } else {
        ctx.label("beyond_limits:refused");
    }
    Ok(())
}

// ---------------------------------------------------------------------------
// long runs of one lexeme inside a well-formed statement (child process)
// ---------------------------------------------------------------------------

/// Lexemes that open no bracket: the pre-parse nesting budget does not count them, so a grammar
/// rule that recurses once per occurrence is bounded only by the input length limit.
const RUN_LEXEMES: &[&str] = &[
    "-", "- ", "+", "+ ", "!", "! ", "NOT ", "not ", "~", ".", "a.", "?x.", "?x ", ":p ", "1 ", "1,", "\"s\" ", ", ", "| ", "|| ", "&& ", "= ", "== ", "!= ", "< ", "* ", "/ ",
    "% ", "@", "#", ": ", "a: ", "//\n", "// x\n", "OPTIONAL ", "UNION ", "FILTER ", "WITH ", "AS ", "SET ", "UNSET ", "ADD ", "-1 ", "--", "- -", "..", "::", "?", ";", "\\", "'",
];

#[derive(Clone, Debug, Serialize, Deserialize)]
pub struct RunCase {
    pub origin: String,
    pub toks: Vec<Tok>,
    /// token boundary (0..=len) where the run is inserted
    pub at: u16,
    pub lexeme: u8,
    /// 0 = 1500 repetitions, 1 = 20000, 2 = as many as fit under the input length limit
    pub size: u8,
    /// `at` is the boundary itself (enumerated cases), not a selector
    #[serde(default)]
    pub exact: bool,
}

/// Every token boundary x every lexeme, for the statements in which a grammar rule can recurse: the
/// nine recursive constructs of `budget` (two levels deep), a few statements with unary operators,
/// and - `all_fixtures` (thorough) - every tokenised fixture statement.
fn run_cases(fix: &[(usize, Vec<Tok>)], all_fixtures: bool) -> Vec<RunCase> {
    let mut hosts: Vec<(String, Vec<Tok>)> = vec![];
    for shape in ["valid_json_array", "valid_json_object", "valid_kml_value", "valid_kql_tuple", "valid_filter_parens", "valid_blocks", "valid_match_objects", "valid_epistemic_objects", "valid_update_expr"] {
        let (text, _, _) = budget_text(&BudgetCase { shape: shape.into(), n: 2, bracket: "".into() });
        if let Some(t) = tok::lex(&text) {
            hosts.push((format!("{shape}(2)"), t));
        }
    }
    for (i, text) in [
        "FIND(?x) WHERE { ?x {type: \"T\"} FILTER(?x.attributes.n > -1 && !(?x.attributes.m == 2)) } ORDER BY ?x.name DESC LIMIT 3",
        "UPDATE ?a SET ATTRIBUTES {n: ADD(-1, 2), m: MUL(2, -3), c: CLAMP(1, -5, 5), d: COALESCE(-1, 0)} WHERE { ?a {type: \"T\", name: \"n\"} }",
        "FIND(COUNT(?x), SUM(?x.attributes.n)) WHERE { ?x {type: \"T\"} NOT { (?x, \"p\", ?y) } OPTIONAL { (?x, \"q\", ?z) } }",
    ]
    .iter()
    .enumerate()
    {
        if let Some(t) = tok::lex(text) {
            hosts.push((format!("unary#{i}"), t));
        }
    }
    for (i, t) in fix {
        if all_fixtures {
            hosts.push((format!("fixture#{i}"), t.clone()));
        }
    }
    let mut v = vec![];
    for (origin, toks) in hosts {
        for at in 0..=toks.len() {
            for lexeme in 0..RUN_LEXEMES.len() {
                v.push(RunCase { origin: origin.clone(), toks: toks.clone(), at: at as u16, lexeme: lexeme as u8, size: 2, exact: true });
            }
        }
    }
    v
}

fn run_strategy(fix: Arc<Vec<(usize, Vec<Tok>)>>) -> impl Strategy<Value = RunCase> {
    (any::<u16>(), prop::collection::vec(any::<u16>(), 4..160), any::<u16>(), 0u8..RUN_LEXEMES.len() as u8, prop_oneof![2 => Just(0u8), 2 => Just(1u8), 3 => Just(2u8)]).prop_map(
        move |(sel, tape, at, lexeme, size)| {
            let (origin, toks) = if sel % 3 == 0 && !fix.is_empty() {
                let (i, t) = &fix[vf_core::pick_idx(sel, fix.len())];
                (format!("fixture#{i}"), t.clone())
            } else {
                let s = gen_::sentence(&tape);
                (s.family, s.toks)
            };
            RunCase { origin, toks, at, lexeme, size, exact: false }
        },
    )
}

fn run_token_run(c: &RunCase, ctx: &mut CaseCtx) -> Result<(), String> {
    let at = if c.exact { (c.at as usize).min(c.toks.len()) } else { vf_core::pick_idx(c.at, c.toks.len() + 1) };
    let head = tok::render(&c.toks[..at], PLAIN);
    let tail = tok::render(&c.toks[at..], PLAIN);
    let lex = RUN_LEXEMES[c.lexeme as usize % RUN_LEXEMES.len()];
    let room = MAX_KIP_INPUT_LEN.saturating_sub(head.len() + tail.len() + 2);
    let reps = match c.size {
        0 => 1500,
        1 => 20_000,
        _ => usize::MAX,
    }
    .min(room / lex.len());
    let text = format!("{head} {}{tail}", lex.repeat(reps));
    ctx.label(format!("lexeme:{lex:?}"));
    ctx.label(format!("size:{}", c.size));
    let (line, isolated) = probe::in_child(&text).map_err(|e| {
        format!("{e} - {reps} repetitions of {lex:?} inserted at token boundary {at} of [{}] ({} bytes in all, within the input limit; no bracket is opened, so the nesting budget cannot refuse it)", tok::render(&c.toks, PLAIN).chars().take(300).collect::<String>(), text.len())
    })?;
    if !isolated {
        ctx.count("probe_child_unavailable_parsed_in_process", 1);
    }
    let accepted = line.split(' ').filter_map(|kv| kv.split_once('=')).any(|(_, o)| o == "ok");
    ctx.label(if accepted { "answered:accepted" } else { "answered:refused" });
    ctx.count("bytes_parsed", text.len() as u64);
    // non-trivial: the run sits INSIDE the statement (something was parsed before it and something follows)
    ctx.nontrivial = at > 0 && at < c.toks.len() && reps >= 1000;
    Ok(())
}

// ---------------------------------------------------------------------------
// the KIP-JSON dialect
// ---------------------------------------------------------------------------

#[derive(Clone, Debug, Serialize, Deserialize)]
pub struct JsonCase {
    pub toks: Vec<Tok>,
    pub expect: serde_json::Value,
    pub seed: u64,
}

fn json_gen(t: &mut Tape, out: &mut Vec<Tok>, fuel: &mut i32) -> serde_json::Value {
    *fuel -= 1;
    // the top of a document is mostly a container
    let k = if *fuel == 39 && t.chance(3, 4) { 6 + t.pick(2) } else { t.pick(if *fuel > 0 { 8 } else { 6 }) };
    match k {
        0 => {
            out.push(Tok::new(K::Word, "null"));
            serde_json::Value::Null
        }
        1 => {
            let b = t.chance(1, 2);
            out.push(Tok::new(K::Word, if b { "true" } else { "false" }));
            serde_json::Value::Bool(b)
        }
        2 | 3 => {
            // `-0` is excluded: the dialect reads it as the integer 0 (documented in json.rs), JSON proper as -0.0
            let pool: Vec<&str> = gen_::NUMS.iter().copied().filter(|n| *n != "-0").collect();
            let n = pool[t.pick(pool.len())];
            out.push(Tok::new(K::Num, n));
            serde_json::from_str(n).expect("number")
        }
        4 | 5 => {
            let body = gen_::STRINGS[t.pick(gen_::STRINGS.len())];
            let src = format!("\"{body}\"");
            out.push(Tok::new(K::Str, src.clone()));
            serde_json::from_str(&src).expect("string")
        }
        6 => {
            out.push(Tok::new(K::P, "["));
            let n = t.pick(5);
            let mut v = vec![];
            for i in 0..n {
                if i > 0 {
                    out.push(Tok::new(K::P, ","));
                }
                v.push(json_gen(t, out, fuel));
            }
            if n > 0 && t.chance(1, 4) {
                out.push(Tok::new(K::P, ","));
            }
            out.push(Tok::new(K::P, "]"));
            serde_json::Value::Array(v)
        }
        _ => {
            out.push(Tok::new(K::P, "{"));
            let n = t.pick(5);
            let mut m = serde_json::Map::new();
            let mut first = true;
            for _ in 0..n {
                let bare = t.chance(2, 3);
                let (tokn, name): (Tok, String) = if bare {
                    let k = gen_::KEYS[t.pick(gen_::KEYS.len())];
                    (Tok::new(K::Word, k), k.to_string())
                } else {
                    let body = gen_::STRINGS[t.pick(gen_::STRINGS.len())];
                    let src = format!("\"{body}\"");
                    let name: String = serde_json::from_str(&src).expect("key");
                    (Tok::new(K::Str, src), name)
                };
                if m.contains_key(&name) {
                    continue;
                }
                if !first {
                    out.push(Tok::new(K::P, ","));
                }
                first = false;
                out.push(tokn);
                out.push(Tok::new(K::P, ":"));
                let v = json_gen(t, out, fuel);
                m.insert(name, v);
            }
            if !first && t.chance(1, 4) {
                out.push(Tok::new(K::P, ","));
            }
            out.push(Tok::new(K::P, "}"));
            serde_json::Value::Object(m)
        }
    }
}

fn json_strategy() -> impl Strategy<Value = JsonCase> {
    (prop::collection::vec(any::<u16>(), 1..120), any::<u64>()).prop_map(|(tape, seed)| {
        let mut t = Tape::new(&tape);
        let mut toks = vec![];
        let mut fuel = 40;
        let expect = json_gen(&mut t, &mut toks, &mut fuel);
        JsonCase { toks, expect, seed }
    })
}

fn run_json(c: &JsonCase, ctx: &mut CaseCtx) -> Result<(), String> {
    let text = tok::render(&c.toks, PLAIN);
    let v = anda_kip::parse_json(&text).map_err(|e| format!("parse_json refuses a document of its own dialect ({}): {}", e.message, clip(&text)))?;
    if v != c.expect {
        return Err(format!("parse_json({}) = {} but the document denotes {}", clip(&text), clip(&v.to_string()), clip(&c.expect.to_string())));
    }
    for st in tok::variant_styles(c.seed) {
        let t2 = tok::render(&c.toks, Style { case: KwCase::Keep, ..st });
        match anda_kip::parse_json(&t2) {
            Ok(v2) if v2 == v => {}
            other => return Err(format!("whitespace / comment variant {:?} of a JSON document changed the result ({}): {}", st.sep, res(&other), clip(&t2))),
        }
    }
    let mut mix = tok::Mix::new(c.seed);
    let junk = ["x", "1", "\"s\"", ",", "]", "}", "null", ":", "{}"][mix.below(9)];
    if let Ok(v2) = anda_kip::parse_json(&format!("{text}\n{junk}")) {
        return Err(format!("parse_json ignored (or absorbed) a trailing junk token {junk:?}: got {} for {}", clip(&v2.to_string()), clip(&text)));
    }
    // a KIP-JSON document is not a command
    let f = probe::four(&text);
    if f.kip.is_ok() || f.kql.is_ok() || f.kml.is_ok() || f.meta.is_ok() {
        return Err(format!("a bare JSON document was accepted as a command: {}", clip(&text)));
    }
    let nest = tok::nesting(&c.toks);
    ctx.label(match &v {
        serde_json::Value::Object(_) => "top:object",
        serde_json::Value::Array(_) => "top:array",
        _ => "top:scalar",
    });
    ctx.nontrivial = nest >= 3 || c.toks.len() >= 8;
    Ok(())
}

// ---------------------------------------------------------------------------
// fixtures
// ---------------------------------------------------------------------------

#[derive(Clone, Debug, Serialize, Deserialize)]
pub struct FixtureCase {
    pub index: usize,
    pub command: String,
}

fn run_fixture(c: &FixtureCase, ctx: &mut CaseCtx) -> Result<(), String> {
    let cmd = check_text(&c.command, c.index as u64, ctx)?;
    match tok::lex(&c.command) {
        Some(toks) => {
            // the lexer is trusted only when its plain re-rendering means the same as the original text
            let plain = tok::render(&toks, PLAIN);
            let r = anda_kip::parse_kip(&plain).ok();
            if r == cmd {
                for seed in 0..4u64 {
                    check_variants(&toks, seed * 7919 + c.index as u64, &plain, &cmd, ctx)?;
                }
                ctx.label("metamorphic_applied");
            } else {
                ctx.label("lexer_mismatch_skipped");
            }
        }
        None => ctx.label("not_lexed"),
    }
    nontrivial(&cmd, text_nesting(&c.command), ctx);
    if cmd.is_none() {
        ctx.label("fixture_refused");
    }
    Ok(())
}

// ---------------------------------------------------------------------------

pub fn run(r: &mut Runner) {
    r.assume("a parse thread has a 2 MiB stack (the default of tokio workers and of spawned std threads); inputs whose parse could overflow it are parsed in a child process so that a crash is a reported violation");
    r.assume("'unbounded work' is decided only in its extreme form: a case running longer than the runner's watchdog is reported as inconclusive, wall-clock time is not an oracle");
    r.assume("keyword case, whitespace and comments are varied only between typed tokens: a dot path, a :param, a number, a string and a hop-quantified predicate atom are one token each; true/false/null, `id` and object keys are case-sensitive");
    r.assume("registered function names (COUNT .. MAX, CONTAINS .. LITERAL_TYPE, ADD / MUL / CLAMP / COALESCE) are reserved words of the language and are case-flipped like keywords (the parser upper-cases them on purpose)");
    r.assume("the JSON round trip uses serde_json's text encoder / decoder; when the decoder's own 128-level recursion limit stops it (a command within KIP's nesting limit of 64 can encode deeper), the tree is decoded through serde_json::Value instead and the hit is counted");
    r.set_case_timeout_ms(60_000);

    let commands = match fixtures::load() {
        Ok(c) => c,
        Err(e) => {
            r.inconclusive(format!("fixture command strings cannot be read: {e}"));
            return;
        }
    };
    let lexed: Vec<(usize, Vec<Tok>)> = commands
        .iter()
        .enumerate()
        .filter_map(|(i, c)| {
            let toks = tok::lex(c)?;
            let plain = tok::render(&toks, PLAIN);
            // same trust rule as in run_fixture
            (anda_kip::parse_kip(&plain).ok() == anda_kip::parse_kip(c).ok()).then_some((i, toks))
        })
        .collect();
    r.extra("fixture_commands", serde_json::json!({"distinct": commands.len(), "lexed_for_token_mutation": lexed.len()}));
    if lexed.len() * 10 < commands.len() * 8 && !r.is_replay() {
        r.inconclusive(format!("only {} of {} fixture commands could be tokenised", lexed.len(), commands.len()));
    }
    let lexed = Arc::new(lexed);

    r.sub_enum(
        "fixtures",
        "every distinct command string of fixtures/kip-conformance-2.0 and tests/fixtures/kip_lang_ast.json: relations 1-7, with 20 case/whitespace/comment variants each; non-trivial = accepted with >= 2 clauses or nesting >= 3",
        true,
        commands.iter().enumerate().map(|(index, c)| FixtureCase { index, command: c.clone() }).collect(),
        |c, ctx| on_small_stack(|| run_fixture(c, ctx)).and_then(|r| r),
    );

    r.sub_enum(
        "budget",
        "explicit limit cases through all five entry points in a child process: nesting 63/64/65/66/640 (each bracket kind and mixed) as garbage, as well-formed statements of nine recursive constructs, and with the brackets only inside strings / comments; lengths limit-2..limit+2 and 2x limit as garbage, multi-byte text and padded well-formed statements; non-trivial = all",
        true,
        budget_cases(),
        run_budget,
    );

    let tally: Tally = Arc::new(Mutex::new(BTreeMap::new()));
    {
        let tally = tally.clone();
        r.sub(
            "g1_sentences",
            "grammar-derived KQL/KML/META sentences (typed tokens from a choice tape; every pattern family, clause, statement family; nesting up to and beyond 64, padded lengths within +-2 of 256 KiB): relations 1-7 incl. 5 case/whitespace/comment variants; non-trivial = accepted with >= 2 clauses or nesting >= 3, or within +-2 of a limit",
            (200_000, 6_000_000),
            g1_strategy,
            move |c: &G1Case, ctx: &mut CaseCtx| on_small_stack(|| run_g1(c, ctx, &tally)).and_then(|r| r),
        );
    }
    // family coverage: generated AND accepted
    let ran_g1 = std::env::var("VERIF_SUB").map(|s| s.is_empty() || s == "g1_sentences").unwrap_or(true) && !r.is_replay();
    if ran_g1 {
        let t = tally.lock().unwrap();
        let mut table = serde_json::Map::new();
        for (k, (g, a)) in t.iter() {
            table.insert(k.clone(), serde_json::json!({"generated": g, "accepted": a}));
        }
        r.extra("g1_family_acceptance", serde_json::Value::Object(table));
        let total: u64 = t.iter().filter(|(k, _)| k.starts_with("family:")).map(|(_, v)| v.0).sum();
        if total >= 50_000 {
            let mut missing = vec![];
            for f in gen_::required_families() {
                let (g, a) = t.get(&format!("family:{f}")).copied().unwrap_or((0, 0));
                if g == 0 || a * 10 < g {
                    missing.push(format!("{f} (generated {g}, accepted {a})"));
                }
            }
            for f in gen_::required_features() {
                let (g, a) = t.get(f).copied().unwrap_or((0, 0));
                if g == 0 || a * 20 < g {
                    missing.push(format!("{f} (generated {g}, accepted {a})"));
                }
            }
            if !missing.is_empty() {
                r.inconclusive(format!("statement families / constructs not generated or not accepted at a healthy rate: {}", missing.join("; ")));
            }
        }
    }

    {
        let lexed = lexed.clone();
        r.sub(
            "g2_token_mutations",
            "1-4 token-level mutations (delete, duplicate, swap, truncate, behead, splice from a donor, replace, insert, word case flip, frozen lower-case keyword, quotes/brackets inside strings, raw junk, cut token, duplicated run) of G1 sentences and of tokenised fixture statements: relations 1,2,4-7 always, relation 3 when every token is still a whole typed token; non-trivial = accepted with >= 2 clauses or nesting >= 3, or within +-2 of the depth limit",
            (200_000, 6_000_000),
            move || g2_strategy(lexed.clone()),
            |c: &G2Case, ctx: &mut CaseCtx| on_small_stack(|| run_g2(c, ctx)).and_then(|r| r),
        );
    }

    {
        let all = r.tier.pick(false, true);
        r.sub_enum(
            "token_runs_every_boundary",
            "EVERY token boundary x EVERY one of the 49 bracket-free lexemes (as many repetitions as fit under the input length limit) for the statements in which a grammar rule can recurse: the nine recursive constructs of `budget` two levels deep, three statements with unary operators / update functions / aggregates (thorough: also every tokenised fixture statement); parsed by all five entry points in a child process, same oracle as `token_runs`. Non-trivial = the run sits inside the statement",
            false,
            run_cases(&lexed, all),
            run_token_run,
        );
    }
    {
        let lexed = lexed.clone();
        r.sub(
            "token_runs",
            "a G1 sentence or a tokenised fixture statement with a run of 1500 / 20000 / as-many-as-fit-under-256-KiB repetitions of one bracket-free lexeme (49 lexemes: signs, NOT, dots, variables, parameters, literals, separators, operators, comment lines, clause keywords, stray characters) inserted at a generated token boundary, parsed by all five entry points in a CHILD process: the answer must be a result (accepted or refused), never a dead process - a rule that recurses once per lexeme is bounded by nothing but the length limit, because the nesting budget counts brackets only. Non-trivial = the run (>= 1000 repetitions) sits inside the statement",
            (2_400, 80_000),
            move || run_strategy(lexed.clone()),
            run_token_run,
        );
    }

    r.sub(
        "g3_unicode",
        "arbitrary Unicode strings, KIP lexeme soup, and both padded to within +-2 of the length limit or followed by 62..66 open brackets (further brackets only inside a comment / string): relations 1,2,4-7 through parse_kip/kql/kml/meta/json; non-trivial = within +-2 of a limit, or accepted with >= 2 clauses",
        (60_000, 1_800_000),
        g3_strategy,
        run_g3_small_stack,
    );

    r.sub(
        "json_dialect",
        "generated KIP-JSON documents (identifier keys incl. keyword-like ones, trailing commas, escapes, 64-bit boundary integers) rendered with whitespace / comment variants: parse_json equals the denoted value (serde_json as reference), variants agree, junk on a new line is refused, no command entry point accepts it; non-trivial = nesting >= 3 or >= 8 tokens",
        (30_000, 900_000),
        json_strategy,
        |c: &JsonCase, ctx: &mut CaseCtx| on_small_stack(|| run_json(c, ctx)).and_then(|r| r),
    );
}
