fn main() {
    eprintln!("vf-kip: not built yet");
    std::process::exit(2);
}
