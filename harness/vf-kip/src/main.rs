//! vf-kip: checks of the KIP parser crate `anda_kip` (C15, C16 static half).

use vf_core::Runner;
use vf_kip::*;

fn main() {
    let prop = std::env::args().nth(1).unwrap_or_default();
    match prop.as_str() {
        "C15" => {
            let mut r = Runner::from_env("C15", "exploration");
            c15::run(&mut r);
            r.finish();
        }
        "C16" => {
            let mut r = Runner::from_env("C16", "exploration");
            c16::run(&mut r);
            r.finish();
        }
        // child-process mode of the C15 budget sub-check (see probe.rs)
        "__probe" => probe::child_main(),
        // developer aid: print what the parser says about a text
        "try" => {
            let text = std::env::args().nth(2).unwrap_or_default();
            println!("{}", probe::describe(&text));
        }
        other => {
            eprintln!("usage: vf-kip <C15|C16> <quick|thorough|replay FILE> (got {other:?})");
            std::process::exit(2);
        }
    }
}
