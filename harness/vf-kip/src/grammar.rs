//! G1: grammar-based sentence generator for KQL / KML / META, written from
//! KIPSyntax.md and the parser modules. It consumes a *choice tape* (a vector of
//! u16 drawn by proptest) and emits typed tokens; the all-zero tape yields the
//! simplest sentence of the first family, so proptest's shrinking of the tape
//! (shorter, smaller values) shrinks the sentence.

use crate::tok::{K, Tok};
use serde::{Deserialize, Serialize};
use std::collections::BTreeSet;

#[derive(Clone, Debug, Serialize, Deserialize)]
pub struct Sentence {
    /// statement family, e.g. `kml.update`
    pub family: String,
    /// constructs used (label histogram)
    pub features: Vec<String>,
    pub toks: Vec<Tok>,
    /// number of clauses (where-clauses, body clauses, statement modifiers, plan clauses)
    pub clauses: u32,
}

pub struct Tape<'a> {
    data: &'a [u16],
    pos: usize,
}

impl<'a> Tape<'a> {
    pub fn new(data: &'a [u16]) -> Self {
        Tape { data, pos: 0 }
    }
    pub fn next(&mut self) -> u16 {
        let v = self.data.get(self.pos).copied().unwrap_or(0);
        self.pos += 1;
        v
    }
    /// index in 0..n, monotone in the tape value (0 -> 0)
    pub fn pick(&mut self, n: usize) -> usize {
        vf_core::pick_idx(self.next(), n)
    }
    /// true with probability num/den; a zero tape value is always `false`
    pub fn chance(&mut self, num: u32, den: u32) -> bool {
        let v = self.next() as u32;
        v >= 65536 - (65536 * num / den).min(65535)
    }
    pub fn range(&mut self, lo: usize, hi_incl: usize) -> usize {
        lo + self.pick(hi_incl - lo + 1)
    }
}

#[derive(Clone, Copy, PartialEq, Eq)]
pub enum Fl {
    Kql,
    Exact,
}

pub const VARS: &[&str] = &["x", "y", "z", "a", "p", "s", "o", "e", "act", "m", "b", "slot", "drug", "person", "t1", "_v"];
pub const PARAMS: &[&str] = &["p", "id", "alice", "dark_mode", "time", "n", "limit", "key", "type", "tx", "_x", "P9", "where"];
pub const KEYS: &[&str] = &[
    "name", "type", "key", "id", "status", "confidence", "attributes", "facets", "by", "mode", "limit", "from", "until",
    "where", "find", "_private", "A1", "stance", "proposition", "role", "index", "purpose", "risk", "true_", "null_x",
    "null", "true",
];
pub const DESCRIBE_TARGETS: &[&str] = &[
    "PRIMER", "PROTOCOL", "EXECUTION CONTEXT", "CAPABILITIES", "PROJECTION CAPABILITY", "SPACE", "SCHEMA ENVIRONMENT",
    "SNAPSHOT", "TYPE", "PREDICATE", "FACET", "STRUCTURAL FIELD", "PACKAGE", "COMPATIBILITY", "ERROR", "CAPSULE",
    "EPISTEMIC POLICY", "TRUST", "ACCESS", "TRANSACTION", "TRANSACTION BY IDEMPOTENCY KEY",
];
pub const LIST_TARGETS: &[&str] = &["SPACES", "TYPES", "PREDICATES", "FACETS", "STRUCTURAL FIELDS", "EPISTEMIC POLICIES", "SCHEMA PACKAGES"];
fn label_of(prefix: &str, target: &str) -> String {
    format!("{prefix}.{}", target.to_ascii_lowercase().replace(' ', "_"))
}
pub const QKEYS: &[&str] = &["\"legacy-field\"", "\"with space\"", "\"\u{fc}n\u{ef}\"", "\"a.b\"", "\"\"", "\"k}\"", "\"q\\\"q\"", "\"// k\""];
pub const FIELDS: &[&str] = &[
    "goal", "outcome_status", "note", "salience", "memory_strength", "name", "summary", "status", "utility", "key",
    "ended_at", "retention_class", "expires_at", "legal_hold", "risk_level", "success_count",
];
pub const PATH_FIELDS: &[&str] = &[
    "id", "name", "attributes", "goal", "facets", "memory_strength", "lifecycle", "status", "_system", "version",
    "confidence", "index", "type", "key", "salience",
];
/// string bodies, already escaped (without the surrounding quotes)
pub const STRINGS: &[&str] = &[
    "T", "Person", "Drug", "prefers", "timezone", "+01:00", "alice", "hello world", "", "a\\\"b", "back\\\\slash",
    "line\\nbreak", "tab\\t", "\\u00e9\\u4e2d", "\\ud83d\\ude00", "\u{e9}\u{2713}\u{4e2d}", "// not a comment", "({[",
    "}])", "it's", "semi;colon", "MnemonicState", "kip://pkg@1.0/symbol", "PURGE", "a}{b", "x // y \\\" z", "has_step",
    "evidence", "support", "stated", "active", "P-1", "C-1", "E-1", "\\/slash", "\\b\\f\\r",
];
pub const NUMS: &[&str] = &[
    "0", "1", "2", "10", "42", "100", "-1", "-7", "0.5", "0.95", "-0.25", "1.0", "1e3", "1E-2", "2.5e+10",
    "18446744073709551615", "-9223372036854775808", "9007199254740993", "0.1", "3.14159", "-0", "1e-7",
    "123456789012", "0.8", "0.99",
];
const AGGS: &[&str] = &["COUNT", "SUM", "AVG", "MIN", "MAX"];
const FILTER_FNS: &[(&str, usize)] = &[
    ("CONTAINS", 2), ("STARTS_WITH", 2), ("ENDS_WITH", 2), ("REGEX", 2), ("IN", 2), ("IS_NULL", 1), ("IS_NOT_NULL", 1),
    ("IS_LITERAL", 1), ("IS_ELEMENT", 1), ("IS_KIND", 2), ("LITERAL_TYPE", 1),
];
const UPDATE_FNS: &[(&str, usize)] = &[("ADD", 2), ("MUL", 2), ("CLAMP", 3), ("COALESCE", 2)];
const CMP: &[&str] = &["==", "!=", "<", ">", "<=", ">="];

pub struct G<'a> {
    pub t: Tape<'a>,
    pub out: Vec<Tok>,
    pub feats: BTreeSet<&'static str>,
    pub clauses: u32,
    fuel: i32,
    /// one deep nest per sentence at most
    deep_used: bool,
}

impl<'a> G<'a> {
    pub fn new(data: &'a [u16]) -> Self {
        G { t: Tape::new(data), out: vec![], feats: BTreeSet::new(), clauses: 0, fuel: 60, deep_used: false }
    }

    // -- emit helpers -------------------------------------------------------
    fn kw(&mut self, words: &str) {
        for w in words.split(' ') {
            self.out.push(Tok::new(K::Kw, w));
        }
    }
    fn func(&mut self, w: &str) {
        self.out.push(Tok::new(K::Fn, w));
    }
    fn p(&mut self, s: &str) {
        self.out.push(Tok::new(K::P, s));
    }
    fn word(&mut self, s: &str) {
        self.out.push(Tok::new(K::Word, s));
    }
    fn str_body(&mut self, body: &str) {
        self.out.push(Tok::new(K::Str, format!("\"{body}\"")));
    }
    fn feat(&mut self, f: &'static str) {
        self.feats.insert(f);
    }
    fn spend(&mut self) -> bool {
        self.fuel -= 1;
        self.fuel > 0
    }

    fn any_str(&mut self) {
        let i = self.t.pick(STRINGS.len());
        self.str_body(STRINGS[i]);
    }
    fn any_num(&mut self) {
        let i = self.t.pick(NUMS.len());
        self.out.push(Tok::new(K::Num, NUMS[i]));
    }
    fn var_name(&mut self) -> String {
        VARS[self.t.pick(VARS.len())].to_string()
    }
    fn var(&mut self) -> String {
        let v = self.var_name();
        self.out.push(Tok::new(K::Path, format!("?{v}")));
        v
    }
    fn var_named(&mut self, v: &str) {
        self.out.push(Tok::new(K::Path, format!("?{v}")));
    }
    fn param(&mut self) {
        let i = self.t.pick(PARAMS.len());
        self.out.push(Tok::new(K::Param, format!(":{}", PARAMS[i])));
    }
    fn key(&mut self, used: &mut BTreeSet<String>) -> bool {
        // an object key not yet used in this object; bare identifier or quoted
        for _ in 0..6 {
            let (tok, name) = if self.t.chance(1, 6) {
                let q = QKEYS[self.t.pick(QKEYS.len())];
                (Tok::new(K::Str, q), q.to_string())
            } else {
                let k = KEYS[self.t.pick(KEYS.len())];
                if self.t.chance(1, 8) {
                    (Tok::new(K::Str, format!("\"{k}\"")), format!("\"{k}\""))
                } else {
                    (Tok::new(K::Word, k), format!("\"{k}\""))
                }
            };
            if used.insert(name) {
                self.out.push(tok);
                return true;
            }
        }
        false
    }
    fn literal(&mut self) {
        match self.t.pick(5) {
            0 => self.any_str(),
            1 => self.any_num(),
            2 => self.word("true"),
            3 => self.word("false"),
            _ => self.word("null"),
        }
    }
    fn scalar(&mut self) {
        if self.t.chance(1, 2) { self.param() } else { self.literal() }
    }
    fn symbol_ref(&mut self) {
        if self.t.chance(1, 4) { self.param() } else { self.any_str() }
    }
    fn dot_path_of(&mut self, v: &str, min_steps: usize) {
        let n = self.t.range(min_steps, 3);
        let mut s = format!("?{v}");
        for _ in 0..n {
            if self.t.chance(1, 4) {
                let body = STRINGS[self.t.pick(STRINGS.len())];
                match self.t.pick(3) {
                    0 => s.push_str(&format!("[\"{body}\"]")),
                    1 => s.push_str(&format!("[ \"{body}\" ]")),
                    _ => s.push_str(&format!("[\"{body}\"\t]")),
                }
                self.feat("path.key_step");
            } else {
                s.push('.');
                s.push_str(PATH_FIELDS[self.t.pick(PATH_FIELDS.len())]);
            }
        }
        self.out.push(Tok::new(K::Path, s));
    }
    fn sep_list(&mut self, n: usize, mut item: impl FnMut(&mut Self), trailing_ok: bool) {
        for i in 0..n {
            if i > 0 {
                self.p(",");
            }
            item(self);
        }
        if trailing_ok && n > 0 && self.t.chance(1, 8) {
            self.p(",");
            self.feat("trailing_comma");
        }
    }

    /// nesting depth for a deliberately deep construct: mostly none
    fn deep(&mut self) -> Option<usize> {
        if self.deep_used || !self.t.chance(1, 30) {
            return None;
        }
        self.deep_used = true;
        Some(match self.t.pick(10) {
            0..=5 => self.t.range(3, 12),
            6 | 7 => self.t.range(56, 70),
            8 => self.t.range(60, 66),
            _ => self.t.range(100, 700),
        })
    }

    // -- values -------------------------------------------------------------
    /// `data_value`; `handles` are the bare `?h` names that are legal here
    fn bound_value(&mut self, handles: &[String], read_var: Option<&str>) {
        if let Some(d) = self.deep() {
            self.feat("deep.value");
            let arr = self.t.chance(1, 2);
            for i in 0..d {
                if arr {
                    self.p("[");
                } else {
                    self.p("{");
                    self.word(if i % 2 == 0 { "a" } else { "by" });
                    self.p(":");
                }
            }
            self.any_num();
            for _ in 0..d {
                self.p(if arr { "]" } else { "}" });
            }
            return;
        }
        let recursive = self.spend();
        match self.t.pick(if recursive { 7 } else { 5 }) {
            0 => self.literal(),
            1 => self.param(),
            2 => self.any_num(),
            3 => {
                if !handles.is_empty() && self.t.chance(1, 2) {
                    let h = handles[self.t.pick(handles.len())].clone();
                    self.var_named(&h);
                    self.feat("value.handle");
                } else {
                    self.any_str()
                }
            }
            4 => match read_var {
                Some(v) => {
                    let v = v.to_string();
                    self.dot_path_of(&v, 1);
                    self.feat("value.read_path");
                }
                None => self.literal(),
            },
            5 => {
                self.p("[");
                let n = self.t.pick(4);
                self.sep_list(n, |g| g.bound_value(handles, read_var), true);
                self.p("]");
                self.feat("value.array");
            }
            _ => self.bound_object(handles, read_var),
        }
    }
    fn bound_object(&mut self, handles: &[String], read_var: Option<&str>) {
        self.p("{");
        let n = self.t.pick(4);
        let mut used = BTreeSet::new();
        let mut first = true;
        for _ in 0..n {
            let mark = self.out.len();
            if !first {
                self.p(",");
            }
            if !self.key(&mut used) {
                self.out.truncate(mark);
                break;
            }
            self.p(":");
            self.bound_value(handles, read_var);
            first = false;
        }
        if !first && self.t.chance(1, 8) {
            self.p(",");
            self.feat("trailing_comma");
        }
        self.p("}");
        self.feat("value.object");
    }
    fn update_expr(&mut self, read_var: Option<&str>, depth: usize) {
        let recursive = self.spend() && depth < 5;
        match self.t.pick(if recursive { 5 } else { 3 }) {
            0 => self.any_num(),
            1 => self.param(),
            2 => match read_var {
                Some(v) => {
                    let v = v.to_string();
                    self.dot_path_of(&v, 1)
                }
                None => self.any_num(),
            },
            3 => {
                self.p("-");
                let i = self.t.pick(6);
                self.out.push(Tok::new(K::Num, ["1", "0.5", "9223372036854775808", "2", "1e3", "0"][i]));
                self.feat("update.unary_minus");
            }
            _ => self.update_call(read_var, depth + 1),
        }
    }
    fn update_call(&mut self, read_var: Option<&str>, depth: usize) {
        let (name, arity) = UPDATE_FNS[self.t.pick(UPDATE_FNS.len())];
        self.func(name);
        self.p("(");
        self.sep_list(arity, |g| g.update_expr(read_var, depth), true);
        self.p(")");
        self.feat("update.expr");
    }
    fn mutation_value(&mut self, handles: &[String], read_var: Option<&str>) {
        if self.t.chance(1, 6) {
            if let Some(d) = self.deep() {
                self.feat("deep.update_expr");
                for _ in 0..d {
                    self.func("ADD");
                    self.p("(");
                }
                self.any_num();
                for _ in 0..d {
                    self.p(",");
                    self.any_num();
                    self.p(")");
                }
                return;
            }
            self.update_call(read_var, 0)
        } else {
            self.bound_value(handles, read_var)
        }
    }
    /// `{ field: value, ... }` with unique, writable field names
    fn assignments(&mut self, handles: &[String], read_var: Option<&str>, min: usize) {
        self.p("{");
        let n = self.t.range(min, 4);
        let mut used = BTreeSet::new();
        let mut first = true;
        for _ in 0..n {
            let f = FIELDS[self.t.pick(FIELDS.len())];
            if !used.insert(f) {
                continue;
            }
            if !first {
                self.p(",");
            }
            if self.t.chance(1, 8) {
                self.str_body(f);
                self.feat("assign.quoted_key");
            } else {
                self.word(f);
            }
            self.p(":");
            self.mutation_value(handles, read_var);
            first = false;
        }
        if !first && self.t.chance(1, 8) {
            self.p(",");
        }
        self.p("}");
    }
    fn unset_set(&mut self) {
        self.p("{");
        let n = self.t.range(0, 3);
        let mut used = BTreeSet::new();
        let mut first = true;
        for _ in 0..n {
            let f = FIELDS[self.t.pick(FIELDS.len())];
            if !used.insert(f) {
                continue;
            }
            if !first {
                self.p(",");
            }
            if self.t.chance(1, 4) { self.str_body(f) } else { self.word(f) }
            first = false;
        }
        if !first && self.t.chance(1, 8) {
            self.p(",");
        }
        self.p("}");
    }
    fn structural_entry(&mut self, handles: &[String], read_var: Option<&str>, with_options: bool) {
        self.p("(");
        self.symbol_ref();
        self.p(",");
        match self.t.pick(4) {
            0 => self.param(),
            1 if !handles.is_empty() => {
                let h = handles[self.t.pick(handles.len())].clone();
                self.var_named(&h);
            }
            2 => self.any_str(),
            _ => self.mutation_value(handles, read_var),
        }
        self.p(")");
        if with_options && self.t.chance(1, 2) {
            self.p("{");
            match self.t.pick(3) {
                0 => {
                    self.word("index");
                    self.p(":");
                    self.any_num();
                }
                1 => {
                    self.word("role");
                    self.p(":");
                    self.any_str();
                }
                _ => {}
            }
            self.p("}");
        }
    }
    fn structural_block(&mut self, handles: &[String], read_var: Option<&str>, with_options: bool, min: usize) {
        self.p("{");
        let n = self.t.range(min, 3);
        for _ in 0..n {
            self.structural_entry(handles, read_var, with_options);
        }
        self.p("}");
    }

    // -- patterns -----------------------------------------------------------
    fn pred_atom(&mut self, allow_var: bool) -> Tok {
        match self.t.pick(if allow_var { 3 } else { 2 }) {
            0 => Tok::new(K::Str, format!("\"{}\"", STRINGS[self.t.pick(STRINGS.len())])),
            1 => Tok::new(K::Param, format!(":{}", PARAMS[self.t.pick(PARAMS.len())])),
            _ => Tok::new(K::Path, format!("?{}", VARS[self.t.pick(VARS.len())])),
        }
    }
    fn predicate(&mut self, fl: Fl) {
        if fl == Fl::Exact {
            let a = self.pred_atom(true);
            self.out.push(a);
            return;
        }
        let n = 1 + if self.t.chance(1, 4) { self.t.range(1, 2) } else { 0 };
        for i in 0..n {
            if i > 0 {
                self.p("|");
                self.feat("kql.path.alternation");
            }
            let a = self.pred_atom(true);
            if self.t.chance(1, 4) {
                let lo = self.t.pick(4);
                let q = match self.t.pick(5) {
                    0 => format!("{{{lo}}}"),
                    1 => format!("{{{lo},}}"),
                    2 => format!("{{{lo},{}}}", lo + self.t.pick(4)),
                    3 => format!("{{ {lo} , {} }}", lo + self.t.pick(4)),
                    _ => format!("{{{lo}, }}"),
                };
                self.out.push(Tok::new(K::Glued, format!("{}{q}", a.t)));
                self.feat("kql.path.quantifier");
            } else {
                self.out.push(a);
            }
        }
    }
    fn id_form(&mut self) {
        self.p("(");
        self.word("id");
        self.p(":");
        self.scalar();
        self.p(")");
    }
    fn prop_matcher(&mut self, fl: Fl, vars: &[String]) {
        if self.t.chance(1, 8) {
            self.id_form();
            self.feat("pattern.id_form");
            return;
        }
        self.p("(");
        self.term(fl, vars, false);
        self.p(",");
        self.predicate(fl);
        self.p(",");
        self.term(fl, vars, true);
        self.p(")");
    }
    fn term_var(&mut self, vars: &[String]) {
        if !vars.is_empty() && self.t.chance(2, 3) {
            let v = vars[self.t.pick(vars.len())].clone();
            self.var_named(&v);
        } else {
            self.var();
        }
    }
    fn term(&mut self, fl: Fl, vars: &[String], literal_ok: bool) {
        if let Some(d) = self.deep() {
            // nested tuples: a statement about a statement about ...
            self.feat("deep.tuple");
            for _ in 0..d {
                self.p("(");
                self.param();
                self.p(",");
                self.any_str();
                self.p(",");
            }
            self.param();
            for _ in 0..d {
                self.p(")");
            }
            return;
        }
        let recursive = self.spend();
        match self.t.pick(if recursive { 5 } else { 3 }) {
            0 => self.term_var(vars),
            1 => self.param(),
            2 => {
                if literal_ok {
                    self.literal();
                    self.feat("term.literal");
                } else {
                    self.param()
                }
            }
            3 => {
                self.object_matcher(fl, vars);
                self.feat("term.inline_match");
            }
            _ => {
                self.prop_matcher(fl, vars);
                self.feat("term.nested_tuple");
            }
        }
    }
    fn object_matcher(&mut self, fl: Fl, vars: &[String]) {
        self.p("{");
        let n = self.t.pick(4);
        let mut used = BTreeSet::new();
        let mut first = true;
        for _ in 0..n {
            let mark = self.out.len();
            if !first {
                self.p(",");
            }
            if !self.key(&mut used) {
                self.out.truncate(mark);
                break;
            }
            self.p(":");
            self.match_value(fl, vars);
            first = false;
        }
        if !first && self.t.chance(1, 8) {
            self.p(",");
            self.feat("trailing_comma");
        }
        self.p("}");
    }
    fn match_value(&mut self, fl: Fl, vars: &[String]) {
        if let Some(d) = self.deep() {
            self.feat("deep.match");
            let arr = self.t.chance(1, 2);
            for _ in 0..d {
                if arr {
                    self.p("[");
                } else {
                    self.p("{");
                    self.word("attributes");
                    self.p(":");
                }
            }
            self.any_str();
            for _ in 0..d {
                self.p(if arr { "]" } else { "}" });
            }
            return;
        }
        let recursive = self.spend();
        match self.t.pick(if recursive { 7 } else { 4 }) {
            0 => self.literal(),
            1 => self.any_str(),
            2 => self.param(),
            3 => self.term_var(vars),
            4 => {
                self.p("[");
                let n = self.t.pick(4);
                self.sep_list(n, |g| g.match_value(fl, vars), true);
                self.p("]");
                self.feat("match.array");
            }
            5 => {
                self.object_matcher(fl, vars);
                self.feat("match.nested");
            }
            _ => {
                self.prop_matcher(fl, vars);
                self.feat("match.proposition");
            }
        }
    }

    // -- filters ------------------------------------------------------------
    fn filter_or(&mut self, vars: &[String], depth: usize) {
        let n = if self.t.chance(1, 4) { self.t.range(1, 2) } else { 0 };
        self.filter_and(vars, depth);
        for _ in 0..n {
            self.p("||");
            self.feat("filter.or");
            self.filter_and(vars, depth);
        }
    }
    fn filter_and(&mut self, vars: &[String], depth: usize) {
        let n = if self.t.chance(1, 3) { self.t.range(1, 2) } else { 0 };
        self.filter_unary(vars, depth);
        for _ in 0..n {
            self.p("&&");
            self.feat("filter.and");
            self.filter_unary(vars, depth);
        }
    }
    fn filter_unary(&mut self, vars: &[String], depth: usize) {
        if self.t.chance(1, 6) {
            let n = self.t.range(1, 2);
            for _ in 0..n {
                self.p("!");
            }
            self.feat("filter.not");
        }
        self.filter_primary(vars, depth)
    }
    fn filter_primary(&mut self, vars: &[String], depth: usize) {
        let recursive = self.spend() && depth < 6;
        match self.t.pick(if recursive { 4 } else { 2 }) {
            0 | 3 => {
                self.filter_operand(vars, depth, false);
                let op = CMP[self.t.pick(CMP.len())];
                self.p(op);
                self.filter_operand(vars, depth, false);
                self.feat("filter.comparison");
            }
            1 => {
                let (name, arity) = FILTER_FNS[self.t.pick(FILTER_FNS.len())];
                self.func(name);
                self.p("(");
                let list_second = name == "IN";
                for i in 0..arity {
                    if i > 0 {
                        self.p(",");
                    }
                    self.filter_operand(vars, depth + 1, list_second && i == 1);
                }
                if self.t.chance(1, 10) {
                    self.p(",");
                }
                self.p(")");
                self.feat("filter.function");
            }
            _ => {
                self.p("(");
                self.filter_or(vars, depth + 1);
                self.p(")");
                self.feat("filter.group");
            }
        }
    }
    fn filter_var_path(&mut self, vars: &[String]) {
        let v = if !vars.is_empty() && self.t.chance(3, 4) { vars[self.t.pick(vars.len())].clone() } else { self.var_name() };
        self.dot_path_of(&v, 0);
    }
    fn filter_operand(&mut self, vars: &[String], depth: usize, want_list: bool) {
        let recursive = self.spend() && depth < 6;
        let choice = if want_list && recursive { 4 } else { self.t.pick(if recursive { 8 } else { 4 }) };
        match choice {
            0 => self.filter_var_path(vars),
            1 => self.literal(),
            2 => self.param(),
            3 => self.any_num(),
            4 => {
                self.p("[");
                let n = self.t.pick(4);
                self.sep_list(n, |g| g.filter_operand(vars, depth + 1, false), false);
                self.p("]");
                self.feat("filter.list");
            }
            5 => {
                self.p("-");
                self.filter_var_path(vars);
                self.feat("filter.negate");
            }
            6 => {
                // a wholly literal object operand
                self.p("{");
                self.word("a");
                self.p(":");
                self.literal();
                self.p("}");
                self.feat("filter.object_literal");
            }
            _ => {
                self.p("(");
                self.filter_var_path(vars);
                self.p(")");
                self.feat("filter.paren_operand");
            }
        }
    }
    fn filter_clause(&mut self, vars: &[String]) {
        self.kw("FILTER");
        self.p("(");
        if let Some(d) = self.deep() {
            match self.t.pick(4) {
                0 => {
                    self.feat("deep.filter_parens");
                    for _ in 0..d {
                        self.p("(");
                    }
                    self.filter_var_path(vars);
                    self.p(">");
                    self.any_num();
                    for _ in 0..d {
                        self.p(")");
                    }
                }
                1 => {
                    self.feat("deep.filter_bangs");
                    for _ in 0..d {
                        self.p("!");
                    }
                    self.func("IS_NULL");
                    self.p("(");
                    self.filter_var_path(vars);
                    self.p(")");
                }
                2 => {
                    self.feat("deep.filter_chain");
                    for i in 0..=d {
                        if i > 0 {
                            let op = if self.t.chance(1, 2) { "&&" } else { "||" };
                            self.p(op);
                        }
                        self.filter_var_path(vars);
                        self.p("==");
                        self.any_num();
                    }
                }
                _ => {
                    self.feat("deep.filter_list");
                    self.func("IN");
                    self.p("(");
                    self.filter_var_path(vars);
                    self.p(",");
                    for _ in 0..d {
                        self.p("[");
                    }
                    self.any_num();
                    for _ in 0..d {
                        self.p("]");
                    }
                    self.p(")");
                }
            }
        } else {
            self.filter_or(vars, 0);
        }
        self.p(")");
    }

    // -- WHERE --------------------------------------------------------------
    fn where_block(&mut self, fl: Fl, vars: &mut Vec<String>, min: usize, max: usize) {
        self.p("{");
        let n = self.t.range(min, max);
        for _ in 0..n {
            self.where_clause(fl, vars);
        }
        self.p("}");
    }
    fn bind_var(&mut self, vars: &mut Vec<String>) -> String {
        let v = self.var();
        if !vars.contains(&v) {
            vars.push(v.clone());
        }
        v
    }
    fn where_clause(&mut self, fl: Fl, vars: &mut Vec<String>) {
        self.clauses += 1;
        let recursive = self.spend();
        let n_kinds = if fl == Fl::Kql { 14 } else { 11 };
        let mut k = self.t.pick(n_kinds);
        if !recursive && (8..=10).contains(&k) {
            k = 0;
        }
        match k {
            0 => {
                self.bind_var(vars);
                if self.t.chance(1, 3) {
                    self.kw("CONCEPT");
                    self.feat("pattern.concept_kw");
                }
                self.object_matcher(fl, &vars.clone());
                self.feat("pattern.concept");
            }
            1 => {
                // proposition: four spellings
                let sp = self.t.pick(4);
                if sp & 1 == 1 {
                    self.bind_var(vars);
                }
                if sp & 2 == 2 {
                    self.kw("PROPOSITION");
                }
                self.prop_matcher(fl, &vars.clone());
                self.feat(match sp {
                    0 => "pattern.tuple_bare",
                    1 => "pattern.tuple_var",
                    2 => "pattern.proposition_kw",
                    _ => "pattern.proposition_kw_var",
                });
            }
            2 => {
                self.bind_var(vars);
                self.kw("ASSERTION");
                self.object_matcher(fl, &vars.clone());
                self.feat("pattern.assertion");
            }
            3 => {
                self.bind_var(vars);
                self.kw("EVIDENCE");
                self.object_matcher(fl, &vars.clone());
                self.feat("pattern.evidence");
            }
            4 => {
                self.bind_var(vars);
                self.kw("ACTIVITY");
                self.object_matcher(fl, &vars.clone());
                self.feat("pattern.activity");
            }
            5 => {
                if self.t.chance(1, 2) {
                    self.bind_var(vars);
                    self.feat("pattern.structural_var");
                }
                self.kw("STRUCTURAL");
                self.p("(");
                let vs = vars.clone();
                self.term(fl, &vs, true);
                self.p(",");
                self.symbol_ref();
                self.p(",");
                self.term(fl, &vs, true);
                self.p(")");
                self.feat("pattern.structural");
            }
            6 | 7 => {
                let vs = vars.clone();
                self.filter_clause(&vs);
                self.feat("clause.filter");
            }
            8 | 9 | 10 => {
                if let Some(d) = self.deep() {
                    self.feat("deep.blocks");
                    for i in 0..d {
                        self.kw(["NOT", "OPTIONAL", "UNION"][i % 3]);
                        self.p("{");
                    }
                    self.bind_var(vars);
                    self.p("{");
                    self.p("}");
                    for _ in 0..d {
                        self.p("}");
                    }
                    return;
                }
                let (w, f) = [("NOT", "clause.not"), ("OPTIONAL", "clause.optional"), ("UNION", "clause.union")][k - 8];
                self.kw(w);
                self.feat(f);
                self.where_block(fl, vars, 0, 2);
            }
            11 => {
                // BELIEF (KQL only)
                self.bind_var(vars);
                self.kw("BELIEF");
                let vs = vars.clone();
                match self.t.pick(3) {
                    0 => {
                        self.p("(");
                        self.term(fl, &vs, false);
                        self.p(",");
                        let a = self.pred_atom(true);
                        self.out.push(a);
                        self.p(",");
                        self.term(fl, &vs, true);
                        self.p(")");
                        self.feat("pattern.belief_tuple");
                    }
                    1 => {
                        self.p("(");
                        self.term_var(&vs);
                        self.p(")");
                        self.feat("pattern.belief_var");
                    }
                    _ => {
                        self.id_form();
                        self.feat("pattern.belief_id");
                    }
                }
            }
            12 => {
                self.bind_var(vars);
                self.kw("BELIEF SLOT");
                self.p("(");
                let vs = vars.clone();
                self.term(fl, &vs, false);
                self.p(",");
                let a = self.pred_atom(true);
                self.out.push(a);
                self.p(")");
                self.feat("pattern.belief_slot");
            }
            _ => {
                // predicate variable
                self.bind_var(vars);
                self.p("(");
                let vs = vars.clone();
                self.term_var(&vs);
                self.p(",");
                self.term_var(&vs);
                self.p(",");
                self.term_var(&vs);
                self.p(")");
                self.feat("pattern.pred_variable");
            }
        }
    }

    // -- KQL ----------------------------------------------------------------
    fn as_of(&mut self) {
        self.kw("AS OF");
        let (w, f) = [("SEQ", "as_of.seq"), ("TX", "as_of.tx"), ("TIME", "as_of.time")][self.t.pick(3)];
        self.kw(w);
        self.feat(f);
        self.scalar();
        self.clauses += 1;
    }
    fn find_expr(&mut self, vars: &[String]) {
        if self.t.chance(1, 4) {
            let a = AGGS[self.t.pick(AGGS.len())];
            self.func(a);
            self.p("(");
            if self.t.chance(1, 3) {
                self.kw("DISTINCT");
            }
            self.filter_var_path(vars);
            self.p(")");
            self.feat("kql.aggregate");
        } else {
            self.filter_var_path(vars);
        }
    }
    pub fn kql(&mut self) {
        let mut vars: Vec<String> = vec![];
        // the projection is emitted first but should mention bound variables: draw them first
        let mut body = G { t: Tape::new(&[]), out: vec![], feats: BTreeSet::new(), clauses: 0, fuel: self.fuel, deep_used: self.deep_used };
        std::mem::swap(&mut body.t, &mut self.t);
        body.where_block(Fl::Kql, &mut vars, 0, 5);
        std::mem::swap(&mut body.t, &mut self.t);
        self.fuel = body.fuel;
        self.deep_used = body.deep_used;
        self.clauses += body.clauses;
        self.feats.extend(body.feats.iter().copied());

        self.kw("FIND");
        self.p("(");
        let n = self.t.range(1, 3);
        let vs = vars.clone();
        self.sep_list(n, |g| g.find_expr(&vs), false);
        self.p(")");
        self.kw("WHERE");
        self.out.extend(body.out);
        if self.t.chance(1, 4) {
            self.as_of();
        }
        if self.t.chance(1, 5) {
            self.kw("FOR TIME");
            self.scalar();
            self.feat("kql.for_time");
            self.clauses += 1;
        }
        if self.t.chance(1, 4) {
            self.kw("WITH EPISTEMIC");
            self.bound_object(&[], None);
            self.feat("kql.epistemic");
            self.clauses += 1;
        }
        if self.t.chance(1, 4) {
            self.kw("ORDER BY");
            let n = self.t.range(1, 3);
            for i in 0..n {
                if i > 0 {
                    self.p(",");
                }
                self.find_expr(&vs);
                match self.t.pick(3) {
                    1 => self.kw("ASC"),
                    2 => self.kw("DESC"),
                    _ => {}
                }
            }
            self.feat("kql.order_by");
            self.clauses += 1;
        }
        if self.t.chance(1, 3) {
            self.kw("LIMIT");
            self.scalar();
            self.feat("kql.limit");
            self.clauses += 1;
        }
        if self.t.chance(1, 6) {
            self.kw("CURSOR");
            self.scalar();
            self.feat("kql.cursor");
            self.clauses += 1;
        }
    }

    // -- KML ----------------------------------------------------------------
    /// `target_ref`; returns the variable name when it is a `?handle`
    fn element_ref(&mut self, handles: &[String]) -> Option<String> {
        match self.t.pick(3) {
            0 => {
                self.param();
                None
            }
            1 => {
                self.any_str();
                None
            }
            _ => {
                if handles.is_empty() {
                    self.param();
                    None
                } else {
                    let h = handles[self.t.pick(handles.len())].clone();
                    self.var_named(&h);
                    Some(h)
                }
            }
        }
    }
    /// a target that a WHERE block may bind: returns (var bound by WHERE?)
    fn selected_target(&mut self, handles: &[String]) -> Option<String> {
        match self.t.pick(4) {
            0 => {
                self.param();
                None
            }
            1 => {
                self.any_str();
                None
            }
            2 if !handles.is_empty() => {
                let h = handles[self.t.pick(handles.len())].clone();
                self.var_named(&h);
                None
            }
            _ => {
                let v = format!("t_{}", VARS[self.t.pick(VARS.len())]);
                self.var_named(&v);
                Some(v)
            }
        }
    }
    /// WHERE block that binds `var` (when given) as the first pattern
    fn selection(&mut self, var: Option<&str>) {
        self.kw("WHERE");
        self.clauses += 1;
        self.p("{");
        let mut vars: Vec<String> = vec![];
        if let Some(v) = var {
            vars.push(v.to_string());
            self.var_named(v);
            match self.t.pick(6) {
                0 => self.object_matcher(Fl::Exact, &[]),
                1 => {
                    self.kw("CONCEPT");
                    self.object_matcher(Fl::Exact, &[]);
                }
                2 => {
                    self.kw("ASSERTION");
                    self.object_matcher(Fl::Exact, &[]);
                }
                3 => {
                    self.kw("EVIDENCE");
                    self.object_matcher(Fl::Exact, &[]);
                }
                4 => {
                    self.kw("ACTIVITY");
                    self.object_matcher(Fl::Exact, &[]);
                }
                _ => {
                    self.p("(");
                    self.param();
                    self.p(",");
                    self.any_str();
                    self.p(",");
                    self.param();
                    self.p(")");
                }
            }
        }
        let n = self.t.pick(3);
        for _ in 0..n {
            self.where_clause(Fl::Exact, &mut vars);
        }
        self.p("}");
    }
    fn opt_selection_limit(&mut self, var: Option<&str>) {
        if var.is_some() || self.t.chance(1, 4) {
            self.selection(var);
        }
        if self.t.chance(1, 4) {
            self.kw("LIMIT");
            self.scalar();
            self.clauses += 1;
        }
    }
    fn opt_expect(&mut self, what: &str) {
        if self.t.chance(1, 4) {
            self.kw("EXPECT");
            self.kw(what);
            self.scalar();
            self.clauses += 1;
        }
    }
    fn shuffled<T: Clone>(&mut self, items: &[T]) -> Vec<T> {
        let mut pool: Vec<T> = items.to_vec();
        let mut out = vec![];
        while !pool.is_empty() {
            let i = self.t.pick(pool.len());
            out.push(pool.remove(i));
        }
        out
    }
    fn body(&mut self, admitted: &[&'static str], required: &[&'static str], handles: &[String]) {
        // each clause kind at most once (SET/UNSET FACET possibly twice), any order
        let mut chosen: Vec<&'static str> = required.to_vec();
        for c in admitted {
            if !required.contains(c) && self.t.chance(1, 3) {
                chosen.push(c);
                if c.ends_with("FACET") && self.t.chance(1, 4) {
                    chosen.push(c);
                }
            }
        }
        let order = self.shuffled(&chosen);
        self.p("{");
        for c in order {
            self.clauses += 1;
            match c {
                "TYPE" => {
                    self.kw("TYPE");
                    self.symbol_ref();
                }
                "CLIENT KEY" => {
                    self.kw("CLIENT KEY");
                    self.scalar();
                }
                "NAME" => {
                    self.kw("NAME");
                    self.scalar();
                }
                "MATCH" => {
                    self.kw("MATCH");
                    self.p("{");
                    let idk = if self.t.chance(1, 3) { "id" } else { "key" };
                    let with_type = self.t.chance(1, 2);
                    if with_type && self.t.chance(1, 2) {
                        self.word("type");
                        self.p(":");
                        self.any_str();
                        self.p(",");
                    }
                    self.word(idk);
                    self.p(":");
                    if self.t.chance(1, 2) { self.param() } else { self.any_str() }
                    if self.t.chance(1, 4) {
                        self.p(",");
                        self.word("name");
                        self.p(":");
                        self.any_str();
                    }
                    self.p("}");
                }
                "EXPECT VERSION" => {
                    self.kw("EXPECT VERSION");
                    self.scalar();
                }
                "SET FIELDS" => {
                    self.kw("SET FIELDS");
                    self.assignments(handles, None, 0);
                    self.feat("block.set_fields");
                }
                "SET ATTRIBUTES" => {
                    self.kw("SET ATTRIBUTES");
                    self.assignments(handles, None, 0);
                    self.feat("block.set_attributes");
                }
                "SET FACET" => {
                    self.kw("SET FACET");
                    self.symbol_ref();
                    self.assignments(handles, None, 0);
                    self.feat("block.set_facet");
                }
                "SET STRUCTURAL" => {
                    self.kw("SET STRUCTURAL");
                    self.structural_block(handles, None, true, 0);
                    self.feat("block.set_structural");
                }
                "UNSET ATTRIBUTES" => {
                    self.kw("UNSET ATTRIBUTES");
                    self.unset_set();
                    self.feat("block.unset_attributes");
                }
                "UNSET FACET" => {
                    self.kw("UNSET FACET");
                    self.symbol_ref();
                    self.unset_set();
                    self.feat("block.unset_facet");
                }
                "UNSET STRUCTURAL" => {
                    self.kw("UNSET STRUCTURAL");
                    self.structural_block(handles, None, false, 1);
                    self.feat("block.unset_structural");
                }
                _ => unreachable!(),
            }
        }
        self.p("}");
    }
    fn exact_tuple(&mut self, handles: &[String]) {
        self.p("(");
        self.exact_endpoint(handles, false);
        self.p(",");
        let a = self.pred_atom(false);
        self.out.push(a);
        self.p(",");
        self.exact_endpoint(handles, true);
        self.p(")");
    }
    fn exact_endpoint(&mut self, handles: &[String], literal_ok: bool) {
        let recursive = self.spend();
        match self.t.pick(if recursive { 6 } else { 3 }) {
            0 | 1 => self.param(),
            2 => {
                if handles.is_empty() {
                    self.param()
                } else {
                    let h = handles[self.t.pick(handles.len())].clone();
                    self.var_named(&h);
                }
            }
            3 => {
                if literal_ok { self.literal() } else { self.param() }
            }
            4 => {
                self.object_matcher(Fl::Exact, &[]);
                self.feat("term.inline_match");
            }
            _ => {
                if self.t.chance(1, 4) {
                    self.id_form();
                } else {
                    self.exact_tuple(handles);
                }
                self.feat("term.nested_tuple");
            }
        }
    }
    fn assert_sugar(&mut self, handle: Option<&str>, handles: &[String]) {
        self.kw("ASSERT");
        if let Some(h) = handle {
            self.var_named(h);
            self.feat("assert.handle");
        }
        self.exact_tuple(handles);
        let mut members: Vec<&'static str> = vec!["by", "mode"];
        for m in ["stance", "confidence", "at", "valid", "evidence", "key"] {
            if self.t.chance(1, 3) {
                members.push(m);
            }
        }
        let order = self.shuffled(&members);
        self.p("{");
        for (i, m) in order.iter().enumerate() {
            if i > 0 {
                self.p(",");
            }
            if self.t.chance(1, 10) { self.str_body(m) } else { self.word(m) }
            self.p(":");
            match *m {
                "by" => {
                    self.element_ref(handles);
                }
                "mode" => {
                    let i = self.t.pick(6);
                    self.str_body(["stated", "observed", "inferred", "predicted", "hypothetical", "imported"][i]);
                }
                "stance" => {
                    let i = self.t.pick(3);
                    self.str_body(["support", "reject", "uncertain"][i]);
                }
                "confidence" => self.any_num(),
                "at" => self.scalar(),
                "valid" => {
                    self.p("{");
                    self.word("from");
                    self.p(":");
                    self.scalar();
                    if self.t.chance(1, 2) {
                        self.p(",");
                        self.word("until");
                        self.p(":");
                        self.scalar();
                    }
                    self.p("}");
                }
                "evidence" => {
                    if self.t.chance(1, 2) {
                        self.p("[");
                        let n = self.t.pick(4);
                        self.sep_list(n, |g| {
                            g.element_ref(handles);
                        }, true);
                        self.p("]");
                        self.feat("assert.evidence_array");
                    } else {
                        self.element_ref(handles);
                    }
                }
                _ => {
                    if self.t.chance(1, 2) { self.param() } else { self.any_str() }
                }
            }
        }
        if self.t.chance(1, 8) {
            self.p(",");
        }
        self.p("}");
        if self.t.chance(1, 3) {
            self.kw("SUPERSEDING");
            self.element_ref(handles);
            self.feat("assert.superseding");
        }
    }
    fn update_actions(&mut self, handles: &[String], read_var: Option<&str>) {
        let n = self.t.range(1, 3);
        for _ in 0..n {
            self.clauses += 1;
            match self.t.pick(7) {
                0 => {
                    self.kw("SET ATTRIBUTES");
                    self.assignments(handles, read_var, 0);
                    self.feat("block.set_attributes");
                }
                1 => {
                    self.kw("SET FACET");
                    self.symbol_ref();
                    self.assignments(handles, read_var, 0);
                    self.feat("block.set_facet");
                }
                2 => {
                    self.kw("SET FIELDS");
                    self.assignments(handles, read_var, 0);
                    self.feat("block.set_fields");
                }
                3 => {
                    self.kw("UNSET ATTRIBUTES");
                    self.unset_set();
                    self.feat("block.unset_attributes");
                }
                4 => {
                    self.kw("UNSET FACET");
                    self.symbol_ref();
                    self.unset_set();
                    self.feat("block.unset_facet");
                }
                5 => {
                    self.kw("SET STRUCTURAL");
                    self.structural_block(handles, read_var, true, 0);
                    self.feat("block.set_structural");
                }
                _ => {
                    self.kw("UNSET STRUCTURAL");
                    self.structural_block(handles, read_var, false, 1);
                    self.feat("block.unset_structural");
                }
            }
        }
    }

    pub const KML_KINDS: &'static [&'static str] = &[
        "assert", "create_concept", "upsert_concept", "ensure_proposition", "create_evidence", "create_assertion",
        "create_activity", "update", "retract_assertion", "supersede_assertion", "correct_evidence",
        "transition_activity", "set_retention", "archive", "tombstone", "purge", "merge_concept",
    ];

    fn kml_clause(&mut self, kind: &str, handle: Option<&str>, handles: &[String]) {
        self.clauses += 1;
        match kind {
            "assert" => self.assert_sugar(handle, handles),
            "create_concept" => {
                self.kw("CREATE CONCEPT");
                self.var_named(handle.unwrap());
                let req: &[&'static str] = if self.t.chance(7, 8) { &["TYPE"] } else { &[] };
                self.body(&["TYPE", "CLIENT KEY", "NAME", "SET FIELDS", "SET ATTRIBUTES", "SET FACET", "SET STRUCTURAL"], req, handles);
            }
            "upsert_concept" => {
                self.kw("UPSERT CONCEPT");
                self.var_named(handle.unwrap());
                self.body(
                    &["MATCH", "EXPECT VERSION", "SET FIELDS", "SET ATTRIBUTES", "SET FACET", "UNSET ATTRIBUTES", "UNSET FACET", "SET STRUCTURAL", "UNSET STRUCTURAL"],
                    &["MATCH"],
                    handles,
                );
            }
            "ensure_proposition" => {
                self.kw("ENSURE PROPOSITION");
                if let Some(h) = handle {
                    self.var_named(h);
                }
                self.exact_tuple(handles);
                self.opt_expect("VERSION");
            }
            "create_evidence" | "create_assertion" | "create_activity" => {
                self.kw("CREATE");
                self.kw(match kind {
                    "create_evidence" => "EVIDENCE",
                    "create_assertion" => "ASSERTION",
                    _ => "ACTIVITY",
                });
                self.var_named(handle.unwrap());
                self.body(&["CLIENT KEY", "SET FIELDS", "SET FACET", "SET STRUCTURAL"], &[], handles);
            }
            "update" => {
                self.kw("UPDATE");
                let mark = self.out.len();
                let sel = self.selected_target(handles);
                let target_var: Option<String> = match (&sel, self.out[mark].k) {
                    (Some(v), _) => Some(v.clone()),
                    (None, K::Path) => Some(self.out[mark].t[1..].to_string()),
                    _ => None,
                };
                self.opt_expect("VERSION");
                self.update_actions(handles, target_var.as_deref());
                self.opt_selection_limit(sel.as_deref());
            }
            "retract_assertion" => {
                self.kw("RETRACT ASSERTION");
                let sel = self.selected_target(handles);
                self.opt_selection_limit(sel.as_deref());
                self.opt_expect("STATE");
            }
            "supersede_assertion" | "correct_evidence" => {
                self.kw(if kind == "supersede_assertion" { "SUPERSEDE ASSERTION" } else { "CORRECT EVIDENCE" });
                self.element_ref(handles);
                self.kw("BY");
                self.element_ref(handles);
                self.opt_expect("STATE");
            }
            "transition_activity" => {
                self.kw("TRANSITION ACTIVITY");
                self.element_ref(handles);
                self.kw("TO");
                self.scalar();
                let which = self.t.pick(5);
                let parts: &[&str] = match which {
                    0 => &[],
                    1 => &["F"],
                    2 => &["S"],
                    3 => &["F", "S"],
                    _ => &["S", "F"],
                };
                for p in parts {
                    self.clauses += 1;
                    if *p == "F" {
                        self.kw("SET FIELDS");
                        self.assignments(handles, None, 0);
                    } else {
                        self.kw("SET STRUCTURAL");
                        self.structural_block(handles, None, true, 0);
                    }
                }
                self.opt_expect("STATE");
            }
            "set_retention" => {
                self.kw("SET RETENTION");
                let sel = self.selected_target(handles);
                self.assignments(handles, None, 0);
                self.opt_selection_limit(sel.as_deref());
                self.opt_expect("VERSION");
            }
            "archive" | "tombstone" => {
                self.kw(if kind == "archive" { "ARCHIVE" } else { "TOMBSTONE" });
                let sel = self.selected_target(handles);
                self.opt_selection_limit(sel.as_deref());
                self.opt_expect("STATE");
            }
            "purge" => {
                self.kw("PURGE");
                let sel = self.selected_target(handles);
                self.opt_selection_limit(sel.as_deref());
                if self.t.chance(1, 3) {
                    self.kw("REFERENCE POLICY");
                    self.scalar();
                    self.clauses += 1;
                }
                self.kw("CONFIRM");
                self.str_body("PURGE");
            }
            "merge_concept" => {
                self.kw("MERGE CONCEPT");
                self.element_ref(handles);
                self.kw("INTO");
                self.element_ref(handles);
                if self.t.chance(1, 4) {
                    self.selection(None);
                }
                self.opt_expect("VERSION");
            }
            _ => unreachable!(),
        }
    }

    /// Returns the family label.
    pub fn kml(&mut self) -> String {
        let explicit = self.t.chance(1, 3);
        let n = if explicit { self.t.range(1, 5) } else { 1 };
        let kinds: Vec<&'static str> = (0..n).map(|_| Self::KML_KINDS[self.t.pick(Self::KML_KINDS.len())]).collect();
        // handles of the whole plan are known up front: forward references are legal
        let mut handles: Vec<String> = vec![];
        let mut own: Vec<Option<String>> = vec![];
        for (i, k) in kinds.iter().enumerate() {
            let h = match *k {
                "create_concept" | "upsert_concept" | "create_evidence" | "create_assertion" | "create_activity" => Some(format!("h{i}")),
                "ensure_proposition" | "assert" => {
                    if self.t.chance(1, 2) { Some(format!("h{i}")) } else { None }
                }
                _ => None,
            };
            if let Some(h) = &h {
                handles.push(h.clone());
            }
            own.push(h);
        }
        if explicit {
            self.kw("MUTATE");
            self.p("{");
            self.feat("kml.mutate_block");
        }
        for (k, h) in kinds.iter().zip(own.iter()) {
            self.kml_clause(k, h.as_deref(), &handles);
            self.feats.insert(match *k {
                "assert" => "kml.assert",
                "create_concept" => "kml.create_concept",
                "upsert_concept" => "kml.upsert_concept",
                "ensure_proposition" => "kml.ensure_proposition",
                "create_evidence" => "kml.create_evidence",
                "create_assertion" => "kml.create_assertion",
                "create_activity" => "kml.create_activity",
                "update" => "kml.update",
                "retract_assertion" => "kml.retract_assertion",
                "supersede_assertion" => "kml.supersede_assertion",
                "correct_evidence" => "kml.correct_evidence",
                "transition_activity" => "kml.transition_activity",
                "set_retention" => "kml.set_retention",
                "archive" => "kml.archive",
                "tombstone" => "kml.tombstone",
                "purge" => "kml.purge",
                _ => "kml.merge_concept",
            });
        }
        if explicit {
            self.p("}");
            "kml.mutate".to_string()
        } else {
            format!("kml.{}", kinds[0])
        }
    }

    // -- META ---------------------------------------------------------------
    fn paging(&mut self) {
        if self.t.chance(1, 3) {
            self.kw("LIMIT");
            self.scalar();
            self.clauses += 1;
        }
        if self.t.chance(1, 4) {
            self.kw("CURSOR");
            self.scalar();
            self.clauses += 1;
        }
    }
    fn opt_as_of(&mut self) {
        if self.t.chance(1, 2) {
            self.as_of();
        }
    }
    pub const META_KINDS: &'static [&'static str] = &[
        "describe", "list", "search", "verify", "validate", "preview", "history", "changes", "snapshot", "export",
    ];
    pub fn meta(&mut self) -> String {
        self.clauses += 1;
        let kind = Self::META_KINDS[self.t.pick(Self::META_KINDS.len())];
        match kind {
            "describe" => {
                self.kw("DESCRIBE");
                let t = DESCRIBE_TARGETS[self.t.pick(DESCRIBE_TARGETS.len())];
                self.kw(t);
                match t {
                    "PRIMER" => {
                        if self.t.chance(1, 2) {
                            self.kw("MODE");
                            self.scalar();
                            self.clauses += 1;
                        }
                    }
                    "SPACE" | "EPISTEMIC POLICY" | "TRUST" => {
                        if self.t.chance(1, 2) {
                            self.scalar();
                            self.clauses += 1;
                        }
                    }
                    "SCHEMA ENVIRONMENT" | "SNAPSHOT" => self.opt_as_of(),
                    "TYPE" | "PREDICATE" | "FACET" | "STRUCTURAL FIELD" | "PACKAGE" | "ERROR" | "CAPSULE" | "TRANSACTION"
                    | "TRANSACTION BY IDEMPOTENCY KEY" => self.scalar(),
                    "COMPATIBILITY" => {
                        self.kw("FROM");
                        self.scalar();
                        self.kw("TO");
                        self.scalar();
                        self.clauses += 1;
                    }
                    "ACCESS" => {
                        if self.t.chance(1, 2) {
                            self.kw("WITH");
                            self.bound_object(&[], None);
                            self.clauses += 1;
                        }
                    }
                    _ => {}
                }
                return label_of("meta.describe", t);
            }
            "list" => {
                self.kw("LIST");
                let t = LIST_TARGETS[self.t.pick(LIST_TARGETS.len())];
                self.kw(t);
                if t == "SCHEMA PACKAGES" && self.t.chance(1, 2) {
                    self.kw("STATUS");
                    self.scalar();
                    self.clauses += 1;
                }
                self.paging();
                return label_of("meta.list", t);
            }
            "search" => {
                self.kw("SEARCH");
                let t = ["CONCEPT", "PROPOSITION", "ASSERTION", "EVIDENCE", "ACTIVITY", "COGNITION"][self.t.pick(6)];
                self.kw(t);
                self.scalar();
                for (w, den) in [("WITH TYPE", 3), ("WITH PREDICATE", 4), ("MODE", 3), ("THRESHOLD", 3), ("AS OF SEQ", 4)] {
                    if self.t.chance(1, den) {
                        self.kw(w);
                        self.scalar();
                        self.clauses += 1;
                    }
                }
                self.paging();
            }
            "verify" => {
                self.kw("VERIFY");
                let t = ["CAPSULE", "SCHEMA PACKAGE", "RECEIPT", "BLOB", "CHECKPOINT"][self.t.pick(5)];
                self.kw(t);
                self.scalar();
            }
            "validate" => {
                self.kw("VALIDATE");
                let t = ["KQL", "KML", "CAPSULE", "SCHEMA PACKAGE", "IMPORT PLAN"][self.t.pick(5)];
                self.kw(t);
                self.scalar();
                if self.t.chance(1, 2) {
                    self.kw("WITH");
                    self.bound_object(&[], None);
                    self.clauses += 1;
                }
            }
            "preview" => {
                self.kw("PREVIEW");
                if self.t.chance(1, 2) {
                    self.kw("IMPORT CAPSULE");
                    self.scalar();
                    self.kw("INTO");
                    self.scalar();
                    self.clauses += 1;
                } else {
                    self.kw("KML");
                    self.scalar();
                }
            }
            "history" => {
                self.kw("HISTORY");
                if self.t.chance(1, 2) {
                    self.kw("SPACE");
                } else {
                    self.kw("ELEMENT");
                    self.scalar();
                }
                if self.t.chance(1, 3) {
                    self.kw("FROM SEQ");
                    self.scalar();
                    self.clauses += 1;
                }
                if self.t.chance(1, 3) {
                    self.kw("TO SEQ");
                    self.scalar();
                    self.clauses += 1;
                }
                self.paging();
            }
            "changes" => {
                self.kw("CHANGES");
                if self.t.chance(1, 2) {
                    self.kw("AFTER SEQ");
                } else {
                    self.kw("SINCE");
                }
                self.scalar();
                if self.t.chance(1, 2) {
                    self.kw("LIMIT");
                    self.scalar();
                    self.clauses += 1;
                }
            }
            "snapshot" => {
                self.kw("SNAPSHOT");
                self.opt_as_of();
            }
            _ => {
                self.kw("EXPORT CAPSULE");
                let mut vars: Vec<String> = vec![];
                match self.t.pick(3) {
                    0 => self.param(),
                    1 => self.any_str(),
                    _ => {
                        self.var_named("roots");
                        vars.push("roots".into());
                    }
                }
                self.kw("WHERE");
                self.where_block(Fl::Exact, &mut vars, 1, 4);
                if self.t.chance(1, 3) {
                    self.kw("WITH");
                    self.bound_object(&[], None);
                    self.clauses += 1;
                }
                if self.t.chance(1, 3) {
                    self.as_of();
                }
            }
        }
        format!("meta.{kind}")
    }
}

/// One sentence from a tape.
pub fn sentence(tape: &[u16]) -> Sentence {
    let mut g = G::new(tape);
    let family = match g.t.pick(6) {
        0 | 3 => {
            g.kql();
            "kql".to_string()
        }
        1 | 4 => g.kml(),
        _ => g.meta(),
    };
    Sentence { family, features: g.feats.iter().map(|s| s.to_string()).collect(), toks: g.out, clauses: g.clauses }
}

/// Every family / feature label the generator can emit and that a healthy run
/// must both generate and see accepted.
pub fn required_families() -> Vec<String> {
    let mut v: Vec<String> = vec!["kql".into(), "kml.mutate".into()];
    for k in G::KML_KINDS {
        v.push(format!("kml.{k}"));
    }
    for k in ["search", "verify", "validate", "preview", "history", "changes", "snapshot", "export"] {
        v.push(format!("meta.{k}"));
    }
    for t in DESCRIBE_TARGETS {
        v.push(label_of("meta.describe", t));
    }
    for t in LIST_TARGETS {
        v.push(label_of("meta.list", t));
    }
    v
}

pub fn required_features() -> Vec<&'static str> {
    vec![
        "pattern.concept", "pattern.concept_kw", "pattern.tuple_bare", "pattern.tuple_var", "pattern.proposition_kw",
        "pattern.proposition_kw_var", "pattern.assertion", "pattern.evidence", "pattern.activity", "pattern.structural",
        "pattern.structural_var", "pattern.belief_tuple", "pattern.belief_var", "pattern.belief_id", "pattern.belief_slot",
        "pattern.pred_variable", "pattern.id_form", "term.inline_match", "term.nested_tuple", "term.literal",
        "match.array", "match.nested", "match.proposition", "kql.path.alternation", "kql.path.quantifier",
        "clause.filter", "clause.not", "clause.optional", "clause.union", "filter.comparison", "filter.function",
        "filter.group", "filter.and", "filter.or", "filter.not", "filter.list", "filter.negate", "kql.aggregate",
        "kql.order_by", "kql.limit", "kql.cursor", "kql.for_time", "kql.epistemic", "as_of.seq", "as_of.tx", "as_of.time",
        "kml.mutate_block", "assert.handle", "assert.superseding", "assert.evidence_array", "block.set_fields",
        "block.set_attributes", "block.set_facet", "block.set_structural", "block.unset_attributes", "block.unset_facet",
        "block.unset_structural", "update.expr", "value.array", "value.object", "value.handle", "value.read_path",
        "path.key_step", "trailing_comma",
    ]
}
