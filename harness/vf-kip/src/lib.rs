//! Library face of the driver (modules are shared with the fuzz targets).
pub mod c15;
pub mod c16;
pub mod fixtures;
pub mod grammar;
pub mod probe;
pub mod tok;
pub mod walker;
