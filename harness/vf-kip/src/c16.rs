//! C16 (static half) — no accepted KIP mutation can touch engine-owned or
//! immutable state.
//!
//! Everything `parse_kip` or `validate_command` ACCEPTS is handed to the
//! independent walker (`walker.rs`); text and tree routes are compared.

use crate::fixtures;
use crate::grammar::Tape;
use crate::walker::{self, Finding};
use anda_kip::{Command, validate_command};
use proptest::prelude::*;
use serde::{Deserialize, Serialize};
use serde_json::{Value, json};
use std::sync::Arc;
use vf_core::{CaseCtx, Runner};

fn clip(s: &str) -> String {
    if s.len() <= 700 { s.to_string() } else { format!("{}… ({} bytes)", s.chars().take(700).collect::<String>(), s.len()) }
}

fn report(ctx: &mut CaseCtx, route: &str, what: &str, f: &[Finding]) -> Result<(), String> {
    let first = &f[0];
    ctx.fail_sig(
        first.sig.clone(),
        format!(
            "{route} ACCEPTED a command the walker refuses [{}]: {} — {}{}",
            first.sig,
            first.msg,
            clip(what),
            if f.len() > 1 { format!(" (+{} more findings)", f.len() - 1) } else { String::new() }
        ),
    )
}

/// Walks a command the text route accepted.
fn walk_accepted_text(text: &str, cmd: &Command, ctx: &mut CaseCtx) -> Result<(), String> {
    let f = walker::walk(cmd);
    if f.is_empty() { Ok(()) } else { report(ctx, "parse_kip", text, &f) }
}

/// The text route: `parse_kip`, and the two specific entry points that can yield a mutation or an export.
/// Whatever any of them accepts is walked. Returns `parse_kip`'s answer.
fn parse_text(text: &str, ctx: &mut CaseCtx) -> Result<Result<Command, anda_kip::KipError>, String> {
    let r = anda_kip::parse_kip(text);
    if let Ok(cmd) = &r {
        walk_accepted_text(text, cmd, ctx)?;
    }
    if let Ok(k) = anda_kip::parse_kml(text) {
        let f = walker::walk(&Command::Kml(k));
        if !f.is_empty() {
            report(ctx, "parse_kml", text, &f)?;
        }
    }
    if let Ok(m) = anda_kip::parse_meta(text) {
        let f = walker::walk(&Command::Meta(m));
        if !f.is_empty() {
            report(ctx, "parse_meta", text, &f)?;
        }
    }
    Ok(r)
}

/// Walks a tree the validator accepted.
fn walk_accepted_tree(tree: &Command, ctx: &mut CaseCtx) -> Result<(), String> {
    let f = walker::walk(tree);
    if f.is_empty() {
        Ok(())
    } else {
        report(ctx, "validate_command", &serde_json::to_string(tree).unwrap_or_default(), &f)
    }
}

// ===========================================================================
// (M) the matrix
// ===========================================================================

#[derive(Clone, Debug, Serialize, Deserialize)]
pub struct Cell {
    pub family: String,
    /// how the target is bound: `<pattern>@<wrapper>`, `direct_*`, or `-` for families without a selection
    pub shape: String,
    pub block: String,
    pub name: String,
    pub spelling: String,
}

const FAMILIES: &[&str] = &[
    "create_concept", "upsert_concept", "create_evidence", "create_assertion", "create_activity", "update", "transition_activity",
    "set_retention", "assert",
];
const PATTERNS: &[&str] = &[
    "concept", "concept_kw", "proposition_kw", "proposition_bare", "proposition_id", "assertion", "evidence", "activity",
    "structural_edge", "matcher_value_only",
];
const WRAPPERS: &[&str] = &["top", "not", "optional", "union", "optional_not", "after_other_var", "union_after_concept_binding"];
const DIRECT: &[&str] = &["direct_param", "direct_id", "direct_param_guard_where"];
const BLOCKS: &[&str] = &["SET FIELDS", "SET ATTRIBUTES", "SET FACET", "SET STRUCTURAL", "UNSET ATTRIBUTES", "UNSET FACET", "UNSET STRUCTURAL"];
const SPELLINGS: &[&str] = &["bare", "quoted", "upper", "title_quoted", "padded", "dotted", "nested", "expr_target", "expr_read"];
const PLACEHOLDER: &str = "zzfield";

fn names() -> Vec<&'static str> {
    let mut v: Vec<&'static str> = vec!["_system", "governance", "space_id", "space_seq"];
    // every name any of the documents (or the parser) treats as immutable payload, plus ordinary names
    v.extend(["proposition_id", "proposition", "asserted_by", "stance", "mode", "confidence", "asserted_at", "valid_time", "evidence", "evidence_refs"]);
    v.extend(["evidence_class", "payload", "content_digest", "media_type", "observed_at"]);
    v.extend(["subject", "predicate", "object"]);
    v.extend(["note", "name", "salience"]);
    v
}

fn blocks_of(family: &str) -> Vec<&'static str> {
    match family {
        "set_retention" => vec!["VALUES"],
        "assert" => vec!["MEMBERS"],
        _ => BLOCKS.to_vec(),
    }
}

fn spellings_of(block: &str) -> Vec<&'static str> {
    match block {
        "UNSET ATTRIBUTES" | "UNSET FACET" => vec!["bare", "quoted", "upper", "title_quoted", "padded", "dotted"],
        "SET STRUCTURAL" => vec!["quoted", "upper", "nested"],
        "UNSET STRUCTURAL" => vec!["quoted", "upper"],
        _ => SPELLINGS.to_vec(),
    }
}

fn matrix() -> Vec<Cell> {
    let mut v = vec![];
    for family in FAMILIES {
        let shapes: Vec<String> = if matches!(*family, "update" | "set_retention") {
            let mut s: Vec<String> = DIRECT.iter().map(|d| d.to_string()).collect();
            for p in PATTERNS {
                for w in WRAPPERS {
                    s.push(format!("{p}@{w}"));
                }
            }
            s
        } else {
            vec!["-".to_string()]
        };
        for shape in &shapes {
            for block in blocks_of(family) {
                for name in names() {
                    for spelling in spellings_of(block) {
                        v.push(Cell { family: family.to_string(), shape: shape.clone(), block: block.to_string(), name: name.to_string(), spelling: spelling.to_string() });
                    }
                }
            }
        }
    }
    v
}

/// The key string a spelling produces in the tree.
fn key_of(name: &str, spelling: &str) -> String {
    match spelling {
        "upper" => name.to_ascii_uppercase(),
        "title_quoted" => {
            let mut done = false;
            name.chars()
                .map(|c| {
                    if !done && c.is_ascii_alphabetic() {
                        done = true;
                        c.to_ascii_uppercase()
                    } else {
                        c
                    }
                })
                .collect()
        }
        "padded" => format!(" {name}"),
        "dotted" => format!("{name}.version"),
        _ => name.to_string(),
    }
}

/// `(target text, WHERE text, target variable)`
fn selection(shape: &str) -> (String, String, Option<&'static str>) {
    match shape {
        "-" => (String::new(), String::new(), None),
        "direct_param" => (":t".into(), String::new(), None),
        "direct_id" => ("\"C-1\"".into(), String::new(), None),
        "direct_param_guard_where" => (":t".into(), " WHERE { ?g ASSERTION {id: \"A-1\"} }".into(), None),
        s => {
            let (pattern, wrapper) = s.split_once('@').expect("shape");
            let b = match pattern {
                "concept" => "?t {type: \"T\"}",
                "concept_kw" => "?t CONCEPT {id: \"C-1\"}",
                "proposition_kw" => "?t PROPOSITION (:a, \"p\", :b)",
                "proposition_bare" => "?t (:a, \"p\", :b)",
                "proposition_id" => "?t (id: \"P-1\")",
                "assertion" => "?t ASSERTION {id: \"A-1\"}",
                "evidence" => "?t EVIDENCE {evidence_class: \"message\"}",
                "activity" => "?t ACTIVITY {status: \"running\"}",
                "structural_edge" => "?t STRUCTURAL (:a, \"has_step\", :b)",
                "matcher_value_only" => "?y ASSERTION {id: ?t}",
                other => panic!("pattern {other}"),
            };
            let w = match wrapper {
                "top" => format!("{{ {b} }}"),
                "not" => format!("{{ NOT {{ {b} }} }}"),
                "optional" => format!("{{ OPTIONAL {{ {b} }} }}"),
                "union" => format!("{{ UNION {{ {b} }} }}"),
                "optional_not" => format!("{{ OPTIONAL {{ NOT {{ {b} }} }} }}"),
                "after_other_var" => format!("{{ ?d {{type: \"D\"}} {b} }}"),
                "union_after_concept_binding" => format!("{{ ?t {{type: \"Decoy\"}} UNION {{ {b} }} }}"),
                other => panic!("wrapper {other}"),
            };
            ("?t".into(), format!(" WHERE {w}"), Some("t"))
        }
    }
}

fn entry(name: &str, spelling: &str, target_var: Option<&str>) -> Option<String> {
    let k = key_of(name, spelling);
    Some(match spelling {
        "bare" | "upper" => format!("{k}: 1"),
        "quoted" | "title_quoted" | "padded" | "dotted" => format!("\"{k}\": 1"),
        "nested" => format!("wrapper_x: {{{k}: 1}}"),
        "expr_target" => match target_var {
            Some(v) => format!("{k}: ADD(?{v}.{k}, 1)"),
            None => format!("{k}: ADD(:p, 1)"),
        },
        "expr_read" => format!("note_x: COALESCE(?{}.{k}, 1)", target_var?),
        _ => return None,
    })
}

fn block_text(block: &str, name: &str, spelling: &str, target_var: Option<&str>) -> Option<String> {
    let k = key_of(name, spelling);
    Some(match block {
        "SET FIELDS" | "SET ATTRIBUTES" => format!("{block} {{ {} }}", entry(name, spelling, target_var)?),
        "SET FACET" => format!("SET FACET \"MnemonicState\" {{ {} }}", entry(name, spelling, target_var)?),
        "VALUES" => format!("{{ {} }}", entry(name, spelling, target_var)?),
        "MEMBERS" => format!("{{ by: :me, mode: \"stated\", {} }}", entry(name, spelling, target_var)?),
        "SET STRUCTURAL" => match spelling {
            "nested" => format!("SET STRUCTURAL {{ (\"has_step\", :y) {{{k}: 1}} }}"),
            _ => format!("SET STRUCTURAL {{ (\"{k}\", :y) }}"),
        },
        "UNSET STRUCTURAL" => format!("UNSET STRUCTURAL {{ (\"{k}\", :y) }}"),
        "UNSET ATTRIBUTES" => match spelling {
            "bare" | "upper" => format!("UNSET ATTRIBUTES {{ {k} }}"),
            _ => format!("UNSET ATTRIBUTES {{ \"{k}\" }}"),
        },
        "UNSET FACET" => match spelling {
            "bare" | "upper" => format!("UNSET FACET \"MnemonicState\" {{ {k} }}"),
            _ => format!("UNSET FACET \"MnemonicState\" {{ \"{k}\" }}"),
        },
        _ => return None,
    })
}

fn cell_text(c: &Cell, name: &str) -> Option<String> {
    let (target, where_text, tv) = selection(&c.shape);
    let b = block_text(&c.block, name, &c.spelling, tv)?;
    Some(match c.family.as_str() {
        "create_concept" => format!("CREATE CONCEPT ?c {{ TYPE \"T\" {b} }}"),
        "upsert_concept" => format!("UPSERT CONCEPT ?c {{ MATCH {{key: \"k\"}} {b} }}"),
        "create_evidence" => format!("CREATE EVIDENCE ?c {{ {b} }}"),
        "create_assertion" => format!("CREATE ASSERTION ?c {{ {b} }}"),
        "create_activity" => format!("CREATE ACTIVITY ?c {{ {b} }}"),
        "update" => format!("UPDATE {target} {b}{where_text}"),
        "transition_activity" => format!("TRANSITION ACTIVITY :act TO \"completed\" {b}"),
        "set_retention" => format!("SET RETENTION {target} {b}{where_text}"),
        "assert" => format!("ASSERT (:a, \"p\", :b) {b}"),
        other => panic!("family {other}"),
    })
}

/// Replaces every string / object key equal to `from` by `to`.
fn inject(v: &mut Value, from: &str, to: &str) {
    match v {
        Value::String(s) => {
            if s == from {
                *s = to.to_string();
            }
        }
        Value::Array(a) => a.iter_mut().for_each(|x| inject(x, from, to)),
        Value::Object(o) => {
            let keys: Vec<String> = o.keys().cloned().collect();
            for k in keys {
                if let Some(mut val) = o.remove(&k) {
                    inject(&mut val, from, to);
                    o.insert(if k == from { to.to_string() } else { k }, val);
                }
            }
        }
        _ => {}
    }
}

fn run_cell(c: &Cell, ctx: &mut CaseCtx) -> Result<(), String> {
    let Some(text) = cell_text(c, &c.name) else {
        ctx.label("cell:not_expressible");
        return Ok(());
    };
    let benign = cell_text(c, PLACEHOLDER).expect("same shape");
    for wrap in [false, true] {
        let (text, benign) = if wrap { (format!("MUTATE {{ {text} }}"), format!("MUTATE {{ {benign} }}")) } else { (text.clone(), benign.clone()) };
        let r = parse_text(&text, ctx)?;
        let rb = anda_kip::parse_kip(&benign);
        if r.is_ok() {
            ctx.nontrivial = true;
            ctx.count("text_accepted", 1);
        } else {
            ctx.count("text_refused", 1);
        }
        // the tree route: the sibling's accepted tree with the field name injected = the would-be AST of `text`
        let Ok(sibling) = rb else {
            ctx.count("no_sibling_tree", 1);
            continue;
        };
        ctx.nontrivial = true; // one tree mutation away from an accepted command
        let mut v = serde_json::to_value(&sibling).map_err(|e| e.to_string())?;
        inject(&mut v, &key_of(PLACEHOLDER, &c.spelling), &key_of(&c.name, &c.spelling));
        let tree: Command = serde_json::from_value(v).map_err(|e| format!("injected tree does not decode: {e} ({text})"))?;
        let vr = validate_command(&tree);
        if vr.is_ok() {
            ctx.count("tree_accepted", 1);
            walk_accepted_tree(&tree, ctx)?;
        } else {
            ctx.count("tree_refused", 1);
        }
        match (&r, &vr) {
            (Ok(cmd), Ok(())) => {
                if *cmd != tree {
                    return Err(format!("the tree parse_kip builds for {text:?} differs from the injected would-be tree"));
                }
            }
            (Err(_), Err(_)) => {}
            (Ok(_), Err(e)) => {
                return Err(format!("routes disagree: parse_kip accepts {text:?} but validate_command refuses the equal tree ({})", e.message));
            }
            (Err(e), Ok(())) => {
                return Err(format!(
                    "routes disagree: parse_kip refuses {text:?} ({}) but validate_command accepts the tree that text would have produced",
                    e.message.lines().next().unwrap_or("")
                ));
            }
        }
    }
    ctx.label(format!("family:{}", c.family));
    ctx.label(format!("block:{}", c.block));
    ctx.label(format!("spelling:{}", c.spelling));
    Ok(())
}

// ===========================================================================
// a small value model with its own text and tree encodings
// ===========================================================================

#[derive(Clone, Debug, Serialize, Deserialize, PartialEq)]
pub enum V {
    Null,
    Bool(bool),
    Num(String),
    Str(String),
    Param(String),
    Handle(String),
    Arr(Vec<V>),
    Obj(Vec<(String, V)>),
}

impl V {
    fn text(&self) -> String {
        match self {
            V::Null => "null".into(),
            V::Bool(b) => b.to_string(),
            V::Num(n) => n.clone(),
            V::Str(s) => format!("\"{s}\""),
            V::Param(p) => format!(":{p}"),
            V::Handle(h) => format!("?{h}"),
            V::Arr(a) => format!("[{}]", a.iter().map(|v| v.text()).collect::<Vec<_>>().join(", ")),
            V::Obj(o) => format!("{{{}}}", o.iter().map(|(k, v)| format!("{k}: {}", v.text())).collect::<Vec<_>>().join(", ")),
        }
    }
    fn is_literal(&self) -> bool {
        match self {
            V::Param(_) | V::Handle(_) => false,
            V::Arr(a) => a.iter().all(|v| v.is_literal()),
            V::Obj(o) => o.iter().all(|(_, v)| v.is_literal()),
            _ => true,
        }
    }
    /// `KipValue` encoding of a literal subtree
    fn kip(&self) -> Value {
        match self {
            V::Null => json!("Null"),
            V::Bool(b) => json!({"Bool": b}),
            V::Num(n) => json!({"Number": serde_json::from_str::<Value>(n).expect("number")}),
            V::Str(s) => json!({"String": s}),
            V::Arr(a) => json!({"Array": a.iter().map(|v| v.kip()).collect::<Vec<_>>()}),
            V::Obj(o) => {
                let m: serde_json::Map<String, Value> = o.iter().map(|(k, v)| (k.clone(), v.kip())).collect();
                json!({"Object": m})
            }
            V::Param(_) | V::Handle(_) => unreachable!("not a literal"),
        }
    }
    /// `BoundValue` / `MutationValue` encoding (they coincide on these shapes): a wholly literal subtree is one `Value`
    fn bound(&self) -> Value {
        if self.is_literal() {
            return json!({"Value": self.kip()});
        }
        match self {
            V::Param(p) => json!({"Param": p}),
            V::Handle(h) => json!({"Handle": h}),
            V::Arr(a) => json!({"Array": a.iter().map(|v| v.bound()).collect::<Vec<_>>()}),
            V::Obj(o) => json!({"Object": o.iter().map(|(k, v)| json!([k, v.bound()])).collect::<Vec<_>>()}),
            _ => unreachable!(),
        }
    }
    /// tuple endpoint
    fn term(&self) -> Value {
        match self {
            V::Param(p) => json!({"Param": p}),
            V::Handle(h) => json!({"Variable": h}),
            other => json!({"Literal": other.kip()}),
        }
    }
    fn element_ref(&self) -> Value {
        match self {
            V::Param(p) => json!({"Param": p}),
            V::Handle(h) => json!({"Handle": h}),
            V::Str(s) => json!({"Id": s}),
            _ => unreachable!("not a target_ref"),
        }
    }
    fn scalar(&self) -> Value {
        match self {
            V::Param(p) => json!({"Param": p}),
            other => json!({"Literal": other.kip()}),
        }
    }
}

const WORDS: &[&str] = &["alice", "dark mode", "prefers", "stated", "T", "E-1", "2026-01-01T00:00:00Z", "k 1", "support", "x"];
const NUMS: &[&str] = &["0", "1", "0.9", "0.25", "42", "-3"];
const PNAMES: &[&str] = &["alice", "me", "msg", "time", "old", "k", "t1", "t2"];

fn v_ref(t: &mut Tape, handles: &[String]) -> V {
    match t.pick(3) {
        0 => V::Param(PNAMES[t.pick(PNAMES.len())].into()),
        1 if !handles.is_empty() => V::Handle(handles[t.pick(handles.len())].clone()),
        1 => V::Param("p".into()),
        _ => V::Str(WORDS[t.pick(WORDS.len())].into()),
    }
}

fn v_scalar(t: &mut Tape) -> V {
    match t.pick(5) {
        0 => V::Param(PNAMES[t.pick(PNAMES.len())].into()),
        1 => V::Str(WORDS[t.pick(WORDS.len())].into()),
        2 => V::Num(NUMS[t.pick(NUMS.len())].into()),
        3 => V::Bool(t.chance(1, 2)),
        _ => V::Null,
    }
}

// ===========================================================================
// ASSERT sugar
// ===========================================================================

#[derive(Clone, Debug, Serialize, Deserialize)]
pub struct AssertCase {
    pub handle: Option<String>,
    pub subject: V,
    pub predicate: V,
    pub object: V,
    /// in source order
    pub members: Vec<(String, V)>,
    pub superseding: Option<V>,
    /// statements before / after inside MUTATE (empty + `false` = standalone)
    pub in_mutate: bool,
    pub before: Vec<String>,
    pub after: Vec<String>,
    /// "" | "id_form" | "unknown_member" | "no_by" | "no_mode"
    pub defect: String,
}

fn assert_case(tape: &[u16]) -> AssertCase {
    let mut t = Tape::new(tape);
    let in_mutate = t.chance(1, 2);
    let mut plan_handles: Vec<String> = vec![];
    let mut before = vec![];
    let mut after = vec![];
    if in_mutate {
        let nb = t.pick(3);
        for i in 0..nb {
            match t.pick(3) {
                0 => {
                    before.push(format!("CREATE CONCEPT ?c{i} {{ TYPE \"Person\" }}"));
                    plan_handles.push(format!("c{i}"));
                }
                1 => {
                    before.push(format!("CREATE EVIDENCE ?e{i} {{ SET FIELDS {{ evidence_class: \"user_statement\" }} }}"));
                    plan_handles.push(format!("e{i}"));
                }
                _ => before.push("ASSERT (:x, \"knows\", :y) { by: :x, mode: \"observed\" }".to_string()),
            }
        }
        let na = t.pick(3);
        for i in 0..na {
            match t.pick(3) {
                0 => {
                    after.push(format!("CREATE CONCEPT ?d{i} {{ TYPE \"Preference\" }}"));
                    plan_handles.push(format!("d{i}"));
                }
                1 => after.push("ARCHIVE :obsolete".to_string()),
                _ => after.push("ASSERT (:x, \"likes\", :z) { mode: \"stated\", by: :x }".to_string()),
            }
        }
    }
    let handle = if t.chance(1, 2) { Some(["a", "claim", "new_assertion"][t.pick(3)].to_string()) } else { None };
    let subject = match t.pick(2) {
        1 if !plan_handles.is_empty() => V::Handle(plan_handles[t.pick(plan_handles.len())].clone()),
        _ => V::Param(PNAMES[t.pick(PNAMES.len())].into()),
    };
    let predicate = if t.chance(1, 4) { V::Param("pred".into()) } else { V::Str(["prefers", "timezone", "knows"][t.pick(3)].into()) };
    let object = match t.pick(4) {
        0 => V::Param(PNAMES[t.pick(PNAMES.len())].into()),
        1 if !plan_handles.is_empty() => V::Handle(plan_handles[t.pick(plan_handles.len())].clone()),
        1 => V::Param("o".into()),
        2 => V::Str(WORDS[t.pick(WORDS.len())].into()),
        _ => v_scalar(&mut t),
    };
    let mut members: Vec<(String, V)> = vec![
        ("by".into(), v_ref(&mut t, &plan_handles)),
        ("mode".into(), V::Str(["stated", "observed", "inferred", "predicted", "hypothetical", "imported"][t.pick(6)].into())),
    ];
    if t.chance(1, 3) {
        members.push(("stance".into(), V::Str(["support", "reject", "uncertain"][t.pick(3)].into())));
    }
    if t.chance(1, 3) {
        members.push(("confidence".into(), V::Num(NUMS[t.pick(NUMS.len())].into())));
    }
    if t.chance(1, 3) {
        members.push(("at".into(), v_scalar(&mut t)));
    }
    if t.chance(1, 3) {
        let mut o = vec![("from".to_string(), v_scalar(&mut t))];
        if t.chance(1, 2) {
            o.push(("until".to_string(), v_scalar(&mut t)));
        }
        members.push(("valid".into(), V::Obj(o)));
    }
    if t.chance(1, 2) {
        let e = if t.chance(1, 2) {
            let n = t.pick(4);
            V::Arr((0..n).map(|_| v_ref(&mut t, &plan_handles)).collect())
        } else {
            v_ref(&mut t, &plan_handles)
        };
        members.push(("evidence".into(), e));
    }
    if t.chance(1, 3) {
        let k = match t.pick(3) {
            0 => V::Param("k".into()),
            1 => V::Str(WORDS[t.pick(WORDS.len())].into()),
            _ => V::Num(NUMS[t.pick(NUMS.len())].into()),
        };
        members.push(("key".into(), k));
    }
    // source order is the author's business
    let mut ordered = vec![];
    while !members.is_empty() {
        let i = t.pick(members.len());
        ordered.push(members.remove(i));
    }
    let superseding = if t.chance(1, 3) { Some(v_ref(&mut t, &plan_handles)) } else { None };
    let defect = if t.chance(1, 5) { ["id_form", "unknown_member", "no_by", "no_mode"][t.pick(4)].to_string() } else { String::new() };
    AssertCase { handle, subject, predicate, object, members: ordered, superseding, in_mutate, before, after, defect }
}

fn assert_text(c: &AssertCase) -> String {
    let mut members = c.members.clone();
    match c.defect.as_str() {
        "unknown_member" => members.push(("asserted_at".into(), V::Param("time".into()))),
        "no_by" => members.retain(|(k, _)| k != "by"),
        "no_mode" => members.retain(|(k, _)| k != "mode"),
        _ => {}
    }
    let tuple = if c.defect == "id_form" { "(id: \"P-1\")".to_string() } else { format!("({}, {}, {})", c.subject.text(), c.predicate.text(), c.object.text()) };
    let mut s = String::from("ASSERT ");
    if let Some(h) = &c.handle {
        s.push_str(&format!("?{h} "));
    }
    s.push_str(&tuple);
    s.push_str(&format!(" {{ {} }}", members.iter().map(|(k, v)| format!("{k}: {}", v.text())).collect::<Vec<_>>().join(", ")));
    if let Some(x) = &c.superseding {
        s.push_str(&format!(" SUPERSEDING {}", x.text()));
    }
    if c.in_mutate {
        let mut all: Vec<String> = c.before.clone();
        all.push(s);
        all.extend(c.after.iter().cloned());
        format!("MUTATE {{\n  {}\n}}", all.join("\n  "))
    } else {
        s
    }
}

/// Number of clauses a helper statement of `assert_case` lowers to.
fn lowered_len(stmt: &str) -> usize {
    if stmt.starts_with("ASSERT") { 2 } else { 1 }
}

fn sorted_fields(v: &Value) -> Result<Vec<(String, Value)>, String> {
    let arr = v.as_array().ok_or("set_fields is not a list of pairs")?;
    let mut out = vec![];
    for p in arr {
        let k = p[0].as_str().ok_or("assignment key")?.to_string();
        out.push((k, p[1].clone()));
    }
    out.sort_by(|a, b| a.0.cmp(&b.0));
    for w in out.windows(2) {
        if w[0].0 == w[1].0 {
            return Err(format!("field {} assigned twice", w[0].0));
        }
    }
    Ok(out)
}

fn run_assert(c: &AssertCase, ctx: &mut CaseCtx) -> Result<(), String> {
    let text = assert_text(c);
    let r = parse_text(&text, ctx)?;
    if !c.defect.is_empty() {
        ctx.label(format!("refusal:{}", c.defect));
        ctx.nontrivial = true; // one member away from an accepted ASSERT
        return match r {
            Err(_) => Ok(()),
            Ok(_) => ctx.fail_sig(format!("assert-accepted:{}", c.defect), format!("an ASSERT that must be refused ({}) was accepted: {text}", c.defect)),
        };
    }
    let cmd = r.map_err(|e| format!("a well-formed ASSERT was refused ({}): {text}", e.message.lines().next().unwrap_or("")))?;
    ctx.nontrivial = true;
    let Command::Kml(stmt) = &cmd else {
        return Err(format!("ASSERT classified as something else than KML: {text}"));
    };
    if stmt.explicit_transaction != c.in_mutate {
        return Err(format!("explicit_transaction = {} for: {text}", stmt.explicit_transaction));
    }
    let all = serde_json::to_value(&stmt.clauses).map_err(|e| e.to_string())?;
    let all = all.as_array().cloned().unwrap_or_default();
    let skip: usize = c.before.iter().map(|s| lowered_len(s)).sum();
    let tail: usize = c.after.iter().map(|s| lowered_len(s)).sum();
    let own = 2 + c.superseding.is_some() as usize;
    if all.len() != skip + own + tail {
        return Err(format!(
            "the ASSERT lowered to {} clauses, its definition has {own} (ENSURE PROPOSITION + CREATE ASSERTION{}): {text}",
            all.len() as i64 - skip as i64 - tail as i64,
            if c.superseding.is_some() { " + SUPERSEDE" } else { "" }
        ));
    }
    let got = &all[skip..skip + own];
    // handles: read the two names the lowering chose, check what the spec fixes about them
    let hp = got[0]["EnsureProposition"]["handle"].as_str().ok_or_else(|| format!("first clause is not an ENSURE PROPOSITION with a handle: {}", got[0]))?.to_string();
    let ha = got[1]["CreateAssertion"]["handle"].as_str().ok_or_else(|| format!("second clause is not a CREATE ASSERTION: {}", got[1]))?.to_string();
    if let Some(h) = &c.handle {
        if &ha != h {
            return Err(format!("the written handle ?{h} does not bind the created Assertion (it is ?{ha}): {text}"));
        }
    }
    let get = |k: &str| c.members.iter().find(|(n, _)| n == k).map(|(_, v)| v);
    // ENSURE PROPOSITION ?p (s, p, o)
    let predicate = match &c.predicate {
        V::Param(p) => json!({"Param": p}),
        V::Str(s) => json!({"Literal": s}),
        _ => unreachable!(),
    };
    let want0 = json!({"EnsureProposition": {
        "handle": hp, "subject": c.subject.term(), "predicate": predicate, "object": c.object.term(), "expect_version": null
    }});
    if got[0] != want0 {
        return Err(format!("ENSURE PROPOSITION of the lowering is {} but the definition gives {want0}: {text}", got[0]));
    }
    // CREATE ASSERTION ?a { CLIENT KEY k SET FIELDS {...} SET STRUCTURAL {("evidence", x) {role: "support"}} }
    let mut fields: Vec<(String, Value)> = vec![
        ("proposition".into(), json!({"Handle": hp})),
        ("asserted_by".into(), get("by").unwrap().bound()),
        ("mode".into(), get("mode").unwrap().bound()),
        // the one default the normative desugared form materialises
        ("stance".into(), get("stance").map(|v| v.bound()).unwrap_or(json!({"Value": {"String": "support"}}))),
    ];
    for (member, field) in [("confidence", "confidence"), ("at", "asserted_at"), ("valid", "valid_time")] {
        if let Some(v) = get(member) {
            fields.push((field.into(), v.bound()));
        }
    }
    fields.sort_by(|a, b| a.0.cmp(&b.0));
    let cited: Vec<&V> = match get("evidence") {
        None => vec![],
        Some(V::Arr(items)) => items.iter().collect(),
        Some(one) => vec![one],
    };
    let edges: Vec<Value> = cited
        .iter()
        .map(|v| json!({"field": {"Name": "evidence"}, "value": v.bound(), "options": {"role": {"Value": {"String": "support"}}}}))
        .collect();
    let ca = &got[1]["CreateAssertion"];
    let got_fields = sorted_fields(&ca["set_fields"]).map_err(|e| format!("{e}: {text}"))?;
    if got_fields != fields {
        let names = |f: &Vec<(String, Value)>| f.iter().map(|(k, v)| format!("{k}={v}")).collect::<Vec<_>>().join(", ");
        return Err(format!(
            "CREATE ASSERTION of the lowering sets [{}] but the author wrote (plus the normative default stance) [{}]: {text}",
            names(&got_fields), names(&fields)
        ));
    }
    let want_key = get("key").map(|k| k.scalar()).unwrap_or(Value::Null);
    if ca["client_key"] != want_key {
        return Err(format!("CLIENT KEY of the lowering is {} but the author wrote {want_key}: {text}", ca["client_key"]));
    }
    let want_edges = if edges.is_empty() { Value::Null } else { Value::Array(edges) };
    if ca["set_structural"] != want_edges {
        return Err(format!("evidence citations of the lowering are {} but the definition gives {want_edges}: {text}", ca["set_structural"]));
    }
    if ca["set_facets"] != json!([]) {
        return Err(format!("the lowering fabricates facet state {}: {text}", ca["set_facets"]));
    }
    if ca.as_object().map(|o| o.len()) != Some(5) {
        return Err(format!("CREATE ASSERTION of the lowering has unexpected members: {ca}"));
    }
    if let Some(x) = &c.superseding {
        let want2 = json!({"SupersedeAssertion": {"target": x.element_ref(), "by": {"Handle": ha}, "expect_state": null}});
        if got[2] != want2 {
            return Err(format!("SUPERSEDE of the lowering is {} but the definition gives {want2}: {text}", got[2]));
        }
    }
    ctx.label(if c.in_mutate { "inside_mutate" } else { "standalone" });
    ctx.label(if c.handle.is_some() { "handle:written" } else { "handle:synthesised" });
    if c.superseding.is_some() {
        ctx.label("superseding");
    }
    for (k, _) in &c.members {
        ctx.label(format!("member:{k}"));
    }
    Ok(())
}

// ===========================================================================
// (P) multi-clause plans with handle graphs
// ===========================================================================

#[derive(Clone, Debug, Serialize, Deserialize)]
pub struct PlanCase {
    pub clauses: Vec<String>,
    /// what the harness's own model of §53 says: "legal" | "duplicate" | "unbound"
    pub model: String,
}

struct PlanGen<'a> {
    t: Tape<'a>,
    declared: Vec<String>,
}

impl<'a> PlanGen<'a> {
    /// a handle name to DECLARE: mostly fresh, sometimes one that is taken
    fn declare(&mut self) -> String {
        let fresh = format!("h{}", self.declared.len());
        let name = if !self.declared.is_empty() && self.t.chance(1, 10) { self.declared[self.t.pick(self.declared.len())].clone() } else { fresh };
        self.declared.push(name.clone());
        name
    }
}

/// a reference: to some handle of the plan (possibly declared LATER: `all` is the final list), rarely to nothing
fn plan_ref(t: &mut Tape, all: &[String], own_where: &[&str], unbound: &mut bool) -> String {
    match t.pick(24) {
        0 => {
            *unbound = true;
            if t.chance(1, 2) {
                "?ghost".to_string()
            } else {
                // a variable that only ANOTHER clause's WHERE binds: not in scope here
                let v = ["w", "o", "g"][t.pick(3)];
                if own_where.contains(&v) { "?ghost".to_string() } else { format!("?{v}") }
            }
        }
        1..=4 if !own_where.is_empty() => format!("?{}", own_where[t.pick(own_where.len())]),
        5..=9 => format!(":p{}", t.pick(3)),
        _ => {
            if all.is_empty() {
                format!(":p{}", t.pick(3))
            } else {
                format!("?{}", all[t.pick(all.len())])
            }
        }
    }
}

fn plan_case(tape: &[u16]) -> PlanCase {
    // pass 1: kinds and declared handles, so that pass 2 can make forward references
    let mut g = PlanGen { t: Tape::new(tape), declared: vec![] };
    let n = g.t.range(1, 7);
    let mut kinds = vec![];
    let mut own: Vec<Option<String>> = vec![];
    for _ in 0..n {
        let k = g.t.pick(16);
        let h = match k {
            0 | 1 | 3 | 4 | 5 => Some(g.declare()),
            2 | 6 => {
                if g.t.chance(1, 2) { Some(g.declare()) } else { None }
            }
            _ => None,
        };
        kinds.push(k);
        own.push(h);
    }
    let all = g.declared.clone();
    let mut unbound = false;
    let mut clauses = vec![];
    let t = &mut g.t;
    for (k, h) in kinds.iter().zip(own.iter()) {
        let hs = h.clone().unwrap_or_default();
        let mut r = |t: &mut Tape, w: &[&str]| plan_ref(t, &all, w, &mut unbound);
        let s = match k {
            0 => {
                let mut b = format!("CREATE CONCEPT ?{hs} {{ TYPE \"T\"");
                if t.chance(1, 2) {
                    b.push_str(&format!(" SET STRUCTURAL {{ (\"rel\", {}) }}", r(t, &[])));
                }
                if t.chance(1, 3) {
                    b.push_str(&format!(" SET ATTRIBUTES {{ peer: {}, list: [{}, 1] }}", r(t, &[]), r(t, &[])));
                }
                b + " }"
            }
            1 => {
                let mut b = format!("UPSERT CONCEPT ?{hs} {{ MATCH {{key: \"k{}\"}}", t.pick(3));
                if t.chance(1, 2) {
                    b.push_str(&format!(" SET STRUCTURAL {{ (\"rel\", {}) {{index: 0, via: {}}} }}", r(t, &[]), r(t, &[])));
                }
                if t.chance(1, 3) {
                    b.push_str(&format!(" UNSET STRUCTURAL {{ (\"rel\", {}) }}", r(t, &[])));
                }
                b + " }"
            }
            2 => format!(
                "ENSURE PROPOSITION {}({}, \"p\", {})",
                if h.is_some() { format!("?{hs} ") } else { String::new() },
                r(t, &[]),
                if t.chance(1, 4) { "\"lit\"".to_string() } else { r(t, &[]) }
            ),
            3 => format!(
                "CREATE EVIDENCE ?{hs} {{ SET FIELDS {{ evidence_class: \"m\" }}{} }}",
                if t.chance(1, 2) { format!(" SET STRUCTURAL {{ (\"source\", {}) }}", r(t, &[])) } else { String::new() }
            ),
            4 => format!(
                "CREATE ASSERTION ?{hs} {{ SET FIELDS {{ proposition: {}, asserted_by: {}, mode: \"stated\" }}{} }}",
                r(t, &[]),
                r(t, &[]),
                if t.chance(1, 2) { format!(" SET STRUCTURAL {{ (\"evidence\", {}) {{role: \"support\"}} }}", r(t, &[])) } else { String::new() }
            ),
            5 => format!("CREATE ACTIVITY ?{hs} {{ SET STRUCTURAL {{ (\"inputs\", {}) (\"outputs\", {}) }} }}", r(t, &[]), r(t, &[])),
            6 => format!(
                "ASSERT {}({}, \"p\", :o) {{ by: {}, mode: \"stated\"{} }}{}",
                if h.is_some() { format!("?{hs} ") } else { String::new() },
                r(t, &[]),
                r(t, &[]),
                match t.pick(3) {
                    0 => String::new(),
                    1 => format!(", evidence: {}", r(t, &[])),
                    _ => format!(", evidence: [{}, :e]", r(t, &[])),
                },
                if t.chance(1, 3) { format!(" SUPERSEDING {}", r(t, &[])) } else { String::new() }
            ),
            7 => {
                if t.chance(1, 2) {
                    format!("UPDATE ?w SET ATTRIBUTES {{ a: {} }} SET STRUCTURAL {{ (\"rel\", {}) }} WHERE {{ ?w {{type: \"T\"}} (?w, \"p\", ?o) }}", r(t, &["w", "o"]), r(t, &["w", "o"]))
                } else {
                    format!("UPDATE {} SET ATTRIBUTES {{ a: {} }}", r(t, &[]), r(t, &[]))
                }
            }
            8 => format!("SUPERSEDE ASSERTION {} BY {}", r(t, &[]), r(t, &[])),
            9 => format!("CORRECT EVIDENCE {} BY {}", r(t, &[]), r(t, &[])),
            10 => format!(
                "TRANSITION ACTIVITY {} TO \"completed\"{}",
                r(t, &[]),
                if t.chance(1, 2) { format!(" SET STRUCTURAL {{ (\"outputs\", {}) }}", r(t, &[])) } else { String::new() }
            ),
            11 => {
                if t.chance(1, 2) {
                    "RETRACT ASSERTION ?w WHERE { ?w ASSERTION {stance: \"support\"} } LIMIT 1".to_string()
                } else {
                    format!("RETRACT ASSERTION {}", r(t, &[]))
                }
            }
            12 => {
                let verb = if t.chance(1, 2) { "ARCHIVE" } else { "TOMBSTONE" };
                if t.chance(1, 2) {
                    format!("{verb} ?w WHERE {{ OPTIONAL {{ ?w {{type: \"T\"}} }} }}")
                } else {
                    format!("{verb} {}", r(t, &[]))
                }
            }
            13 => format!("SET RETENTION {} {{ retention_class: \"short\", ward: {} }}", r(t, &[]), r(t, &[])),
            14 => {
                if t.chance(1, 2) {
                    format!("MERGE CONCEPT ?g INTO {} WHERE {{ ?g {{type: \"T\"}} }}", r(t, &["g"]))
                } else {
                    format!("MERGE CONCEPT {} INTO {}", r(t, &[]), r(t, &[]))
                }
            }
            _ => {
                if t.chance(1, 2) {
                    "PURGE ?w WHERE { NOT { ?w EVIDENCE {} } } CONFIRM \"PURGE\"".to_string()
                } else {
                    format!("PURGE {} CONFIRM \"PURGE\"", r(t, &[]))
                }
            }
        };
        clauses.push(s);
    }
    let mut seen = std::collections::BTreeSet::new();
    let duplicate = all.iter().any(|h| !seen.insert(h.clone()));
    let model = if duplicate { "duplicate" } else if unbound { "unbound" } else { "legal" };
    PlanCase { clauses, model: model.to_string() }
}

fn plan_text(c: &PlanCase) -> String {
    if c.clauses.len() == 1 && !c.model.is_empty() && c.clauses[0].len() % 2 == 0 {
        c.clauses[0].clone()
    } else {
        format!("MUTATE {{\n  {}\n}}", c.clauses.join("\n  "))
    }
}

fn run_plan(c: &PlanCase, ctx: &mut CaseCtx) -> Result<(), String> {
    let text = plan_text(c);
    ctx.label(format!("model:{}", c.model));
    match parse_text(&text, ctx)? {
        Ok(cmd) => {
            ctx.nontrivial = true;
            ctx.label(format!("accepted|model:{}", c.model));
            // the tree route agrees with itself
            if let Err(e) = validate_command(&cmd) {
                return Err(format!("validate_command refuses a plan parse_kip accepted ({}): {text}", e.message));
            }
        }
        Err(e) => {
            ctx.label(format!("refused|model:{}|{:?}", c.model, e.code));
            if c.model == "legal" {
                // not part of the property; kept visible so that a generator that is refused for unrelated reasons is noticed
                ctx.count("legal_by_the_model_but_refused", 1);
            }
        }
    }
    Ok(())
}


// ===========================================================================
// (R) statement rules and selection patterns, enumerated as text and as tree
// ===========================================================================

#[derive(Clone, Debug, Serialize, Deserialize)]
pub struct RuleCase {
    pub rule: String,
    pub text: String,
    /// "refuse": the documents forbid it; "accept": a legal sibling (keeps the sub-check from being vacuous); "walk": decided by the walker alone
    pub expect: String,
    /// for selection cases: a KQL text whose WHERE block, transplanted into `sibling`'s tree, is the would-be tree of `text`
    pub kql_where: Option<String>,
    pub sibling: Option<String>,
}

fn rule_cases() -> Vec<RuleCase> {
    let mut v = vec![];
    let mut push = |rule: &str, text: String, expect: &str| {
        for wrap in [false, true] {
            let text = if wrap { format!("MUTATE {{ {text} }}") } else { text.clone() };
            v.push(RuleCase { rule: rule.into(), text, expect: expect.into(), kql_where: None, sibling: None });
        }
    };
    // PURGE: the confirmation is the literal, nothing near it
    for tail in ["", " WHERE { ?x {type: \"T\"} }", " WHERE { ?x {type: \"T\"} } LIMIT 3", " REFERENCE POLICY \"deny_if_referenced\""] {
        for target in [":x", "?x", "\"E-1\""] {
            if target == "?x" && !tail.contains("WHERE") {
                continue;
            }
            push("purge.confirm", format!("PURGE {target}{tail} CONFIRM \"PURGE\""), "accept");
            for c in ["purge", "Purge", "PURGE ", " PURGE", "", "PURGE!", "P U R G E", "PURGE\\n", "\\u0050URGE_", "PURG", "PURGEE", "CONFIRM"] {
                push("purge.confirm", format!("PURGE {target}{tail} CONFIRM \"{c}\""), "refuse");
            }
            push("purge.confirm", format!("PURGE {target}{tail}"), "refuse");
            push("purge.confirm", format!("PURGE {target}{tail} CONFIRM PURGE"), "refuse");
            push("purge.confirm", format!("PURGE {target}{tail} CONFIRM :p"), "refuse");
            push("purge.confirm", format!("PURGE {target}{tail} \"PURGE\""), "refuse");
        }
    }
    // an escaped spelling of the very same string is the literal
    push("purge.confirm", "PURGE :x CONFIRM \"\\u0050URGE\"".to_string(), "accept");
    // UPSERT: identity is id or key; a name never identifies
    for (m, e) in [
        ("MATCH {key: \"k\"}", "accept"), ("MATCH {id: \"C-1\"}", "accept"), ("MATCH {id: :p}", "accept"), ("MATCH {type: \"T\", key: :k}", "accept"),
        ("MATCH {\"key\": \"k\", name: \"A\"}", "accept"), ("MATCH {name: \"A\"}", "refuse"), ("MATCH {type: \"T\", name: \"A\"}", "refuse"),
        ("MATCH {}", "refuse"), ("", "refuse"), ("MATCH {KEY: \"k\"}", "refuse"), ("MATCH {Id: \"C-1\"}", "refuse"), ("MATCH {\"key \": \"k\"}", "refuse"),
        ("MATCH {\" id\": \"k\"}", "refuse"), ("MATCH {canonical_id: \"x\"}", "refuse"), ("MATCH {attributes: {key: \"k\"}}", "refuse"),
        ("MATCH {name: \"A\", display_key: \"k\"}", "refuse"), ("MATCH {id: ?v}", "walk"), ("MATCH {key: ?v}", "walk"), ("MATCH {key: [\"k\"]}", "walk"),
        ("MATCH {key: {k: 1}}", "walk"),
    ] {
        for rest in ["", " SET FIELDS {name: \"N\"}", " EXPECT VERSION 0 SET ATTRIBUTES {a: 1}"] {
            push("upsert.identity", format!("UPSERT CONCEPT ?c {{ {m}{rest} }}"), e);
            if !m.is_empty() {
                push("upsert.identity", format!("UPSERT CONCEPT ?c {{{rest} {m} }}"), e);
            }
        }
    }
    // ENSURE PROPOSITION / ASSERT: a structural tuple with an exact predicate and an element subject
    for (t, e) in [
        ("(:a, \"p\", :b)", "accept"), ("(:a, :pred, \"lit\")", "accept"), ("(:a, \"p\", 1)", "accept"), ("(:a, \"p\", null)", "accept"),
        ("((id: \"P-1\"), \"about\", :b)", "accept"), ("(:a, \"p\", (id: :p2))", "accept"), ("(:a, \"p\", (:c, \"q\", :d))", "accept"),
        ("({type: \"Person\", key: \"alice\"}, \"p\", :b)", "accept"),
        ("(id: \"P-1\")", "refuse"), ("(id: :p)", "refuse"), ("( id : \"P-1\" )", "refuse"), ("(:a, ?pv, :b)", "refuse"), ("(\"lit\", \"p\", :b)", "refuse"),
        ("(1, \"p\", :b)", "refuse"), ("(null, \"p\", :b)", "refuse"), ("(true, \"p\", :b)", "refuse"), ("(:a, \"p\" | \"q\", :b)", "refuse"),
        ("(:a, \"p\"{1,2}, :b)", "refuse"), ("(:a, \"p\"{1}, :b)", "refuse"), ("(:a, p, :b)", "refuse"), ("(:a, \"p\")", "refuse"),
        ("(:a, \"p\", :b, :c)", "refuse"), ("(:a, \"p\", [1, 2])", "refuse"),
    ] {
        push("ensure.tuple", format!("ENSURE PROPOSITION {t}"), e);
        push("ensure.tuple", format!("ENSURE PROPOSITION ?p {t} EXPECT VERSION 0"), e);
        push("assert.tuple", format!("ASSERT {t} {{ by: :me, mode: \"stated\" }}"), e);
        push("assert.tuple", format!("ASSERT ?a {t} {{ mode: \"observed\", by: :me, confidence: 0.5 }} SUPERSEDING :old"), e);
    }
    // ASSERT: actor and mode have no default; members are closed
    for (m, e) in [
        ("by: :me, mode: \"stated\"", "accept"), ("mode: \"stated\", by: \"C-1\"", "accept"), ("\"by\": :me, \"mode\": \"stated\"", "accept"),
        ("mode: \"stated\"", "refuse"), ("by: :me", "refuse"), ("", "refuse"), ("BY: :me, mode: \"stated\"", "refuse"), ("by: :me, Mode: \"stated\"", "refuse"),
        ("by: :me, mode: \"stated\", asserted_by: :other", "refuse"), ("by: :me, mode: \"stated\", proposition: :p", "refuse"),
        ("by: :me, mode: \"stated\", _system: 1", "refuse"), ("by: :me, mode: \"stated\", governance: {}", "refuse"),
        ("by: :me, mode: \"stated\", by: :other", "refuse"), ("asserted_by: :me, mode: \"stated\"", "refuse"), ("by: :me, stance: \"support\"", "refuse"),
        ("\" by\": :me, mode: \"stated\"", "refuse"), ("by: :me, mode: \"stated\", lifecycle: {status: \"active\"}", "refuse"),
    ] {
        push("assert.members", format!("ASSERT (:a, \"p\", :b) {{ {m} }}"), e);
        push("assert.members", format!("ASSERT ?a (:a, \"p\", :b) {{ {m} }} SUPERSEDING :old"), e);
    }
    drop(push);
    // selections: BELIEF (any form, any depth) never selects for a mutation or an export; neither does a raw path
    let patterns: &[(&str, &str, &str)] = &[
        ("ordinary", "?t {type: \"T\"}", "accept"),
        ("belief_tuple", "?t BELIEF (:a, \"p\", ?o)", "refuse"),
        ("belief_var", "?p (:a, \"p\", ?o) ?t BELIEF (?p)", "refuse"),
        ("belief_id", "?t BELIEF (id: \"P-1\")", "refuse"),
        ("belief_slot", "?t BELIEF SLOT (:a, \"p\")", "refuse"),
        ("belief_lowercase", "?t belief (:a, \"p\", ?o)", "refuse"),
        ("belief_beside_binding", "?t {type: \"T\"} ?b BELIEF (?t, \"p\", ?o)", "refuse"),
        ("path_alternation", "?t (:a, \"p\" | \"q\", ?o)", "refuse"),
        ("path_quantifier", "?t (:a, \"p\"{1,3}, ?o)", "refuse"),
        ("literal_subject", "?t (\"lit\", \"p\", ?o)", "refuse"),
    ];
    let wrappers: &[(&str, &str, &str)] = &[
        ("top", "", ""), ("not", "?t {type: \"T\"} NOT { ", " }"), ("optional", "OPTIONAL { ", " }"), ("union", "?t {type: \"T\"} UNION { ", " }"),
        ("deep", "?t {type: \"T\"} OPTIONAL { NOT { UNION { ", " } } }"),
    ];
    let statements: &[(&str, &str, &str)] = &[
        ("update", "UPDATE ?t SET ATTRIBUTES {a: 1} WHERE { ", " } LIMIT 1"),
        ("retract", "RETRACT ASSERTION ?t WHERE { ", " }"),
        ("set_retention", "SET RETENTION ?t {retention_class: \"short\"} WHERE { ", " }"),
        ("archive", "ARCHIVE ?t WHERE { ", " } LIMIT 2"),
        ("tombstone", "TOMBSTONE ?t WHERE { ", " }"),
        ("purge", "PURGE ?t WHERE { ", " } CONFIRM \"PURGE\""),
        ("merge", "MERGE CONCEPT :src INTO :dst WHERE { ", " }"),
        ("export", "EXPORT CAPSULE ?t WHERE { ", " } WITH {closure: \"referential\"}"),
        ("export_direct", "EXPORT CAPSULE :root WHERE { ", " }"),
    ];
    for (sname, head, tail) in statements {
        for (pname, pat, e) in patterns {
            for (wname, wo, wc) in wrappers {
                let block = format!("{wo}{pat}{wc}");
                let benign = format!("{wo}?t {{type: \"T\"}}{wc}");
                for wrap in [false, true] {
                    let is_export = sname.starts_with("export");
                    if wrap && is_export {
                        continue;
                    }
                    let mk = |b: &str| if wrap { format!("MUTATE {{ {head}{b}{tail} }}") } else { format!("{head}{b}{tail}") };
                    v.push(RuleCase {
                        rule: format!("selection.{sname}.{pname}.{wname}"),
                        text: mk(&block),
                        expect: e.to_string(),
                        kql_where: Some(format!("FIND(?t) WHERE {{ {block} }}")),
                        sibling: Some(mk(&benign)),
                    });
                }
            }
        }
    }
    v
}

/// Replaces the first `where_clauses` array found in `tree` by `w`.
fn transplant_where(tree: &mut Value, w: &Value) -> bool {
    at_site(tree, 0, &|k, x| k == Some("where_clauses") && x.is_array(), |s| *s = w.clone())
}

fn run_rule(c: &RuleCase, ctx: &mut CaseCtx) -> Result<(), String> {
    ctx.label(format!("rule:{}", c.rule.split('.').take(2).collect::<Vec<_>>().join(".")));
    let r = parse_text(&c.text, ctx)?;
    if c.expect == "refuse" && (anda_kip::parse_kml(&c.text).is_ok() || anda_kip::parse_meta(&c.text).is_ok()) && r.is_err() {
        return ctx.fail_sig(
            format!("accepted:{}", c.rule.split('.').take(2).collect::<Vec<_>>().join(".")),
            format!("a statement the documents forbid ({}) was accepted by a specific entry point (parse_kml / parse_meta): {}", c.rule, c.text),
        );
    }
    match (&r, c.expect.as_str()) {
        (Ok(_), e) => {
            ctx.nontrivial = true;
            if e == "refuse" {
                return ctx.fail_sig(format!("accepted:{}", c.rule.split('.').take(2).collect::<Vec<_>>().join(".")), format!("a statement the documents forbid ({}) was accepted: {}", c.rule, c.text));
            }
            ctx.label("accepted");
        }
        (Err(_), "accept") => {
            // a refused legal sibling is not a violation of this property; kept visible
            ctx.count("legal_sibling_refused", 1);
            ctx.label("legal_sibling_refused");
        }
        (Err(_), _) => {
            ctx.nontrivial = true; // one token away from a legal sibling of the same rule
            ctx.label("refused");
        }
    }
    // the tree route for selections: the KQL reading of the same block, transplanted into the accepted sibling
    if let (Some(kql), Some(sib)) = (&c.kql_where, &c.sibling) {
        let (Ok(q), Ok(s)) = (anda_kip::parse_kql(kql), anda_kip::parse_kip(sib)) else {
            ctx.count("no_would_be_tree", 1);
            return Ok(());
        };
        let w = serde_json::to_value(&q.where_clauses).map_err(|e| e.to_string())?;
        let mut t = serde_json::to_value(&s).map_err(|e| e.to_string())?;
        if !transplant_where(&mut t, &w) {
            return Err(format!("no WHERE block in the sibling tree of {}", c.text));
        }
        let tree: Command = serde_json::from_value(t).map_err(|e| format!("transplanted tree does not decode: {e}"))?;
        ctx.nontrivial = true;
        match (validate_command(&tree), &r) {
            (Ok(()), Ok(cmd)) => {
                walk_accepted_tree(&tree, ctx)?;
                if *cmd != tree {
                    return Err(format!("the tree parse_kip builds for {:?} differs from the transplanted would-be tree", c.text));
                }
            }
            (Ok(()), Err(e)) => {
                walk_accepted_tree(&tree, ctx)?;
                return Err(format!(
                    "routes disagree: parse_kip refuses {:?} ({}) but validate_command accepts the tree that text would have produced",
                    c.text,
                    e.message.lines().next().unwrap_or("")
                ));
            }
            (Err(e), Ok(_)) => {
                return Err(format!("routes disagree: parse_kip accepts {:?} but validate_command refuses the equal tree ({})", c.text, e.message));
            }
            (Err(_), Err(_)) => {}
        }
    }
    Ok(())
}

// ===========================================================================
// (J) JSON mutations of accepted trees
// ===========================================================================

#[derive(Clone, Debug, Serialize, Deserialize)]
pub struct TreeCase {
    pub base: String,
    pub op: String,
    pub a: u16,
    pub b: u16,
}

const TREE_OPS: &[&str] = &[
    "inject_protected_assignment", "rename_assignment_to_protected", "inject_protected_unset", "insert_belief", "insert_belief_slot",
    "insert_belief_in_optional", "ensure_predicate_variable", "ensure_literal_subject", "upsert_name_only", "upsert_no_match",
    "purge_confirm_altered", "duplicate_handle", "unbind_handle", "update_assertion_payload", "update_assertion_payload_behind_binding",
    "update_structural_of_evidence", "empty_clauses", "benign_rename", "benign_extra_pattern", "ensure_unbound_endpoint",
];

const BASES: &[&str] = &[
    "MUTATE { CREATE CONCEPT ?c { TYPE \"Person\" NAME \"Alice\" SET FIELDS {key: \"k\"} SET ATTRIBUTES {goal: \"g\"} SET FACET \"MnemonicState\" {salience: 0.5} } UPSERT CONCEPT ?d { MATCH {type: \"P\", key: \"kk\"} SET FIELDS {name: \"n\"} UNSET ATTRIBUTES {old} UNSET FACET \"MnemonicState\" {salience} SET STRUCTURAL { (\"rel\", ?c) } } ENSURE PROPOSITION ?p (?c, \"prefers\", ?d) CREATE ASSERTION ?a { SET FIELDS {proposition: ?p, asserted_by: ?c, mode: \"stated\"} } }",
    "UPDATE ?m EXPECT VERSION 1 SET FIELDS {name: \"x\"} SET ATTRIBUTES {goal: \"y\"} SET FACET \"MnemonicState\" {salience: ADD(?m.facets[\"MnemonicState\"].salience, 0.1)} UNSET ATTRIBUTES {legacy} WHERE { ?m {type: \"Experience\"} OPTIONAL { ?e EVIDENCE {evidence_class: \"m\"} } } LIMIT 5",
    "UPDATE ?m SET STRUCTURAL { (\"has_step\", :s) {index: 0} } UNSET STRUCTURAL { (\"has_step\", :old) } WHERE { ?m CONCEPT {id: \"C-1\"} }",
    "UPDATE :t SET FACET \"MnemonicState\" { memory_strength: CLAMP(MUL(:t, 0.9), 0, 1) }",
    "PURGE ?x WHERE { ?x {type: \"T\"} NOT { (?x, \"keep\", :y) } } LIMIT 5 REFERENCE POLICY \"deny_if_referenced\" CONFIRM \"PURGE\"",
    "SET RETENTION ?x { retention_class: \"short\", expires_at: :t } WHERE { ?x EVIDENCE {evidence_class: \"m\"} } LIMIT 3",
    "TRANSITION ACTIVITY :act TO \"completed\" SET FIELDS {ended_at: :now} SET STRUCTURAL { (\"outputs\", :o) } EXPECT STATE \"running\"",
    "EXPORT CAPSULE ?roots WHERE { ?roots {type: \"T\"} (?roots, \"p\", ?o) UNION { ?roots ASSERTION {stance: \"support\"} } } WITH {closure: \"referential\"} AS OF SEQ 3",
    "MUTATE { CREATE EVIDENCE ?e { CLIENT KEY :k SET FIELDS { evidence_class: \"user_statement\", payload: :payload } SET STRUCTURAL { (\"source\", :alice) } } ASSERT ?a (:alice, \"timezone\", \"+01:00\") { by: :alice, mode: \"stated\", evidence: ?e } SUPERSEDING :a_old CREATE ACTIVITY ?rev { SET FIELDS { activity_class: \"belief_revision\" } SET STRUCTURAL { (\"inputs\", :a_old) (\"inputs\", ?e) (\"outputs\", ?a) } } }",
    "MUTATE { RETRACT ASSERTION ?a WHERE { ?a ASSERTION {id: \"A-1\"} } LIMIT 1 ARCHIVE ?old WHERE { ?old ACTIVITY {status: \"failed\"} } MERGE CONCEPT :js INTO :javascript WHERE { ?g {type: \"T\"} } }",
];

#[derive(Clone, Debug)]
enum Seg {
    Idx(usize),
    Key(String),
}

fn sites(v: &Value, pred: &dyn Fn(Option<&str>, &Value) -> bool, parent_key: Option<&str>, path: &mut Vec<Seg>, out: &mut Vec<Vec<Seg>>) {
    if pred(parent_key, v) {
        out.push(path.clone());
    }
    match v {
        Value::Array(a) => {
            for (i, x) in a.iter().enumerate() {
                path.push(Seg::Idx(i));
                sites(x, pred, None, path, out);
                path.pop();
            }
        }
        Value::Object(o) => {
            for (k, x) in o.iter() {
                path.push(Seg::Key(k.clone()));
                sites(x, pred, Some(k), path, out);
                path.pop();
            }
        }
        _ => {}
    }
}

fn get_mut<'v>(v: &'v mut Value, path: &[Seg]) -> &'v mut Value {
    let mut cur = v;
    for s in path {
        cur = match s {
            Seg::Idx(i) => &mut cur[*i],
            Seg::Key(k) => &mut cur[k.as_str()],
        };
    }
    cur
}

/// Picks the `i`-th site matching `pred` and applies `f` to it.
fn at_site(v: &mut Value, i: u16, pred: &dyn Fn(Option<&str>, &Value) -> bool, f: impl FnOnce(&mut Value)) -> bool {
    let mut found: Vec<Vec<Seg>> = vec![];
    sites(v, pred, None, &mut vec![], &mut found);
    if found.is_empty() {
        return false;
    }
    let p = found[vf_core::pick_idx(i, found.len())].clone();
    f(get_mut(v, &p));
    true
}

fn is_assignments(k: Option<&str>, v: &Value) -> bool {
    matches!(k, Some("set_fields" | "set_attributes" | "values" | "SetFields" | "SetAttributes")) && v.is_array()
}
fn is_unset_list(k: Option<&str>, v: &Value) -> bool {
    matches!(k, Some("unset_attributes" | "fields" | "UnsetAttributes")) && v.is_array()
}
fn is_where_list(k: Option<&str>, v: &Value) -> bool {
    matches!(k, Some("where_clauses" | "Not" | "Optional" | "Union")) && v.is_array()
}

fn belief() -> Value {
    json!({"Belief": {"variable": "b", "target": {"Tuple": {"subject": {"Param": "alice"}, "predicate": {"Atom": {"Literal": "timezone"}}, "object": {"Variable": "tz"}}}}})
}

fn mutate_tree(v: &mut Value, op: &str, a: u16, b: u16) -> bool {
    let prot = walker::PROTECTED[vf_core::pick_idx(b, walker::PROTECTED.len())];
    match op {
        "inject_protected_assignment" => at_site(v, a, &is_assignments, |s| {
            s.as_array_mut().unwrap().push(json!([prot, {"Value": {"Number": 1}}]));
        }),
        "rename_assignment_to_protected" => at_site(v, a, &|k, x| is_assignments(k, x) && !x.as_array().unwrap().is_empty(), |s| {
            let arr = s.as_array_mut().unwrap();
            let i = vf_core::pick_idx(b, arr.len());
            arr[i][0] = json!(prot);
        }),
        "inject_protected_unset" => at_site(v, a, &is_unset_list, |s| {
            s.as_array_mut().unwrap().insert(0, json!(prot));
        }),
        "insert_belief" => at_site(v, a, &is_where_list, |s| {
            s.as_array_mut().unwrap().push(belief());
        }),
        "insert_belief_slot" => at_site(v, a, &is_where_list, |s| {
            s.as_array_mut().unwrap().insert(0, json!({"BeliefSlot": {"variable": "slot", "subject": {"Param": "alice"}, "predicate": {"Literal": "timezone"}}}));
        }),
        "insert_belief_in_optional" => at_site(v, a, &is_where_list, |s| {
            s.as_array_mut().unwrap().push(json!({"Optional": [{"Not": [belief()]}]}));
        }),
        "ensure_predicate_variable" => at_site(v, a, &|k, _| k == Some("EnsureProposition"), |s| {
            s["predicate"] = json!({"Variable": "pv"});
        }),
        "ensure_literal_subject" => at_site(v, a, &|k, _| k == Some("EnsureProposition"), |s| {
            s["subject"] = json!({"Literal": {"String": "not an element"}});
        }),
        "ensure_unbound_endpoint" => at_site(v, a, &|k, _| k == Some("EnsureProposition"), |s| {
            s["object"] = json!({"Variable": "ghost_zz"});
        }),
        "upsert_name_only" => at_site(v, a, &|k, _| k == Some("UpsertConcept"), |s| {
            s["match"] = json!({"name": {"Literal": {"String": "Alice"}}, "type": {"Literal": {"String": "Person"}}});
        }),
        "upsert_no_match" => at_site(v, a, &|k, _| k == Some("UpsertConcept"), |s| {
            s["match"] = Value::Null;
        }),
        "purge_confirm_altered" => at_site(v, a, &|k, _| k == Some("Purge"), |s| {
            s["confirm"] = json!(["purge", "PURGE ", "", "Purge", " PURGE", "PURGE\n", "PURGE!"][vf_core::pick_idx(b, 7)]);
        }),
        "duplicate_handle" => {
            // two clauses claim one name
            let mut names: Vec<String> = vec![];
            let mut found: Vec<Vec<Seg>> = vec![];
            sites(v, &|k, x| k == Some("handle") && x.is_string(), None, &mut vec![], &mut found);
            for p in &found {
                names.push(get_mut(v, p).as_str().unwrap().to_string());
            }
            if names.len() < 2 {
                return false;
            }
            let target = names[vf_core::pick_idx(b, names.len())].clone();
            at_site(v, a, &|k, x| k == Some("handle") && x.is_string() && x.as_str() != Some(target.as_str()), |s| {
                *s = json!(target);
            })
        }
        "unbind_handle" => at_site(v, a, &|k, x| k == Some("Handle") && x.is_string(), |s| {
            *s = json!("ghost_zz");
        }),
        "update_assertion_payload" | "update_assertion_payload_behind_binding" | "update_structural_of_evidence" => {
            at_site(v, a, &|k, x| k == Some("Update") && x["target"]["Handle"].is_string() && x["where_clauses"].is_array(), |s| {
                let var = s["target"]["Handle"].as_str().unwrap().to_string();
                let (pattern, action) = match op {
                    "update_structural_of_evidence" => (
                        json!({"Evidence": {"variable": var, "matcher": {}}}),
                        json!({"SetStructural": [{"field": {"Name": "source"}, "value": {"Param": "x"}, "options": null}]}),
                    ),
                    _ => {
                        let field = ["confidence", "stance", "asserted_by", "valid_time"][vf_core::pick_idx(b, 4)];
                        (json!({"Assertion": {"variable": var, "matcher": {}}}), json!({"SetFields": [[field, {"Value": {"Number": 1}}]]}))
                    }
                };
                let w = s["where_clauses"].as_array_mut().unwrap();
                if op == "update_assertion_payload_behind_binding" {
                    w.push(json!({"Union": [pattern]}));
                } else {
                    w.insert(0, pattern);
                }
                s["actions"].as_array_mut().unwrap().push(action);
            })
        }
        "empty_clauses" => at_site(v, a, &|k, x| k == Some("clauses") && x.is_array(), |s| {
            *s = json!([]);
        }),
        "benign_rename" => at_site(v, a, &|k, x| is_assignments(k, x) && !x.as_array().unwrap().is_empty(), |s| {
            let arr = s.as_array_mut().unwrap();
            let i = vf_core::pick_idx(b, arr.len());
            arr[i][0] = json!("renamed_by_the_harness");
        }),
        "benign_extra_pattern" => at_site(v, a, &is_where_list, |s| {
            s.as_array_mut().unwrap().push(json!({"Concept": {"variable": "extra", "matcher": {"type": {"Literal": {"String": "T"}}}}}));
        }),
        _ => false,
    }
}

fn run_tree(c: &TreeCase, pool: &[String], ctx: &mut CaseCtx) -> Result<(), String> {
    // a generated plan that is refused is replaced by a corpus statement (a pure function of the case)
    let base = match anda_kip::parse_kip(&c.base) {
        Ok(b) => b,
        Err(_) => {
            ctx.label("generated_base_refused:corpus_base_used");
            match anda_kip::parse_kip(&pool[vf_core::pick_idx(c.a ^ c.b, pool.len())]) {
                Ok(b) => b,
                Err(_) => return Ok(()),
            }
        }
    };
    if !matches!(base, Command::Kml(_) | Command::Meta(anda_kip::MetaCommand::ExportCapsule(_))) {
        ctx.label("base_not_a_mutation_or_export");
        return Ok(());
    }
    let clean = serde_json::to_value(&base).map_err(|e| e.to_string())?;
    // the drawn mutation; when this tree has no site for it, one of those that have (chosen by the case's own numbers)
    let mut applicable: Vec<(&str, Value)> = vec![];
    let mut drawn: Option<(&str, Value)> = None;
    for op in TREE_OPS {
        let mut v = clean.clone();
        if mutate_tree(&mut v, op, c.a, c.b) {
            if *op == c.op {
                drawn = Some((op, v));
                break;
            }
            applicable.push((op, v));
        }
    }
    let Some((op, v)) = drawn.or_else(|| {
        if applicable.is_empty() { None } else { Some(applicable.swap_remove(vf_core::pick_idx(c.a.wrapping_mul(31).wrapping_add(c.b), applicable.len()))) }
    }) else {
        ctx.label("no_site_for_any_mutation");
        return Ok(());
    };
    let c = &TreeCase { base: c.base.clone(), op: op.to_string(), a: c.a, b: c.b };
    ctx.nontrivial = true; // one tree mutation away from an accepted command
    ctx.label(format!("op:{}", c.op));
    let tree: Command = match serde_json::from_value(v.clone()) {
        Ok(t) => t,
        Err(_) => {
            ctx.label(format!("refused_at_decode|{}", c.op));
            return Ok(());
        }
    };
    match validate_command(&tree) {
        Ok(()) => {
            ctx.label(format!("accepted|{}", c.op));
            walk_accepted_tree(&tree, ctx)?;
            if !c.op.starts_with("benign") && c.op != "empty_clauses" {
                // the mutation was meant to break a rule; if the walker is silent the site was not what it seemed
                ctx.count("mutation_accepted_and_clean", 1);
            }
        }
        Err(_) => {
            ctx.label(format!("refused|{}", c.op));
            if c.op.starts_with("benign") {
                ctx.count("benign_mutation_refused", 1);
            }
        }
    }
    Ok(())
}

fn tree_strategy(pool: Arc<Vec<String>>) -> impl Strategy<Value = TreeCase> {
    (any::<u16>(), prop::collection::vec(any::<u16>(), 4..80), any::<u16>(), any::<u16>(), any::<u16>()).prop_map(move |(sel, tape, op, a, b)| {
        let base = if sel % 4 == 0 {
            let p = plan_case(&tape);
            plan_text(&p)
        } else {
            pool[vf_core::pick_idx(sel, pool.len())].clone()
        };
        TreeCase { base, op: TREE_OPS[vf_core::pick_idx(op, TREE_OPS.len())].to_string(), a, b }
    })
}

// ===========================================================================

pub fn run(r: &mut Runner) {
    r.assume("static half only: what parse_kip / validate_command accept is walked; executing the accepted commands against a store is the dynamic half (vf-nexus)");
    r.assume("the walker flags only what SPECIFICATION.md / KIPSyntax.md forbid (list at the top of walker.rs); the kind of a target is what the statement's own WHERE binds it as");

    let fixture_cmds = match fixtures::load() {
        Ok(c) => c,
        Err(e) => {
            r.inconclusive(format!("fixture command strings cannot be read: {e}"));
            return;
        }
    };

    r.extra(
        "matrix_dimensions",
        json!({
            "families": FAMILIES, "patterns": PATTERNS, "positions": WRAPPERS, "direct_targets": DIRECT, "blocks": BLOCKS,
            "extra_blocks": ["VALUES (SET RETENTION)", "MEMBERS (ASSERT)"], "field_names": names(), "spellings": SPELLINGS,
            "note": "UPDATE and SET RETENTION take every target binding; the other families have no selection. Spellings that a block cannot express (an expression in an UNSET list, a bare structural field symbol) are not cells."
        }),
    );
    r.sub_enum(
        "matrix",
        "complete matrix: 9 clause families x target binding (10 pattern kinds x 7 positions incl. NOT / OPTIONAL / UNION / behind another binding, + 3 direct targets) x assignment block (SET FIELDS / ATTRIBUTES / FACET / STRUCTURAL, UNSET ATTRIBUTES / FACET / STRUCTURAL, retention values, ASSERT members) x 25 field names (4 engine-owned, every immutable payload name, 3 ordinary) x 9 spellings (bare, quoted, other case, padded, dotted, nested, update-expression target / read), each as bare statement and inside MUTATE, as text and as the would-be tree (accepted sibling tree with the name injected) fed to validate_command; non-trivial = accepted by either route, or one tree mutation away from an accepted command",
        true,
        matrix(),
        run_cell,
    );

    r.sub_enum(
        "rules",
        "enumerated statement rules, each bare and inside MUTATE: PURGE x 12 near-miss confirmations x targets x tails; UPSERT x 20 MATCH shapes x clause order; ENSURE PROPOSITION / ASSERT x 23 tuple forms (id form, variable / path predicate, literal subject, arity); ASSERT x 17 member sets; and 9 selection-bearing statements (UPDATE .. MERGE, EXPORT) x 10 patterns (4 BELIEF forms, lower-case BELIEF, BELIEF beside a binding, path alternation / quantifier, literal subject, ordinary) x 5 positions (top, NOT, OPTIONAL, UNION, 3 deep) as text and as the would-be tree (KQL reading of the block transplanted into the accepted sibling); accepted ones are walked, forbidden ones must be refused by both routes; non-trivial = accepted, or one token / one tree mutation away from an accepted sibling",
        true,
        rule_cases(),
        run_rule,
    );

    r.sub(
        "assert_sugar",
        "generated ASSERT statements (handle or none, every member subset in any order, scalar / array / handle evidence, SUPERSEDING, standalone or between other statements of a MUTATE incl. further ASSERTs) compared clause by clause with the harness's own expansion written from Spec 55.1; 20% carry one defect (id-form tuple, unknown member, by / mode missing) and must be refused; non-trivial = accepted, or one member away from accepted",
        (100_000, 3_000_000),
        || prop::collection::vec(any::<u16>(), 4..80).prop_map(|t| assert_case(&t)),
        run_assert,
    );

    r.sub(
        "plans",
        "generated 1-7 clause plans over 16 clause kinds with handle graphs: forward references, handles bound only by the using clause's WHERE, ~10% re-declared handles, ~1/24 references to nothing or to a variable that only another clause's WHERE binds; every accepted plan is walked; non-trivial = accepted",
        (300_000, 9_000_000),
        || prop::collection::vec(any::<u16>(), 4..120).prop_map(|t| plan_case(&t)),
        run_plan,
    );

    // every fixture / generated statement that is a mutation or an export, walked as accepted text
    let mut pool: Vec<String> = BASES.iter().map(|s| s.to_string()).collect();
    for c in &fixture_cmds {
        if matches!(anda_kip::parse_kip(c), Ok(Command::Kml(_)) | Ok(Command::Meta(anda_kip::MetaCommand::ExportCapsule(_)))) {
            pool.push(c.clone());
        }
    }
    r.extra("tree_mutation_bases", json!({"built_in": BASES.len(), "from_fixtures": pool.len() - BASES.len()}));
    let pool = Arc::new(pool);
    {
        let pool2 = pool.clone();
        r.sub_enum(
            "accepted_corpus",
            "every KML / EXPORT statement of the fixtures and of the built-in bases, walked as accepted text and as re-decoded tree; non-trivial = accepted",
            true,
            pool2.iter().cloned().collect::<Vec<String>>(),
            |text: &String, ctx: &mut CaseCtx| {
                let cmd = anda_kip::parse_kip(text).map_err(|e| format!("corpus statement refused: {}: {text}", e.message))?;
                ctx.nontrivial = true;
                walk_accepted_text(text, &cmd, ctx)?;
                let back: Command = serde_json::from_value(serde_json::to_value(&cmd).map_err(|e| e.to_string())?).map_err(|e| e.to_string())?;
                validate_command(&back).map_err(|e| format!("validate_command refuses the re-decoded tree of an accepted statement: {}", e.message))?;
                walk_accepted_tree(&back, ctx)
            },
        );
    }
    r.sub(
        "tree_mutations",
        "one JSON mutation (20 kinds: protected field injected / renamed / unset, BELIEF / BELIEF SLOT inserted at any depth of a mutation or EXPORT selection, variable predicate / literal subject / unbound endpoint in ENSURE, name-only or missing UPSERT matcher, altered PURGE confirm, duplicated handle, unbound handle, immutable payload or structural action added for a WHERE-bound Assertion / Evidence, emptied plan, benign renames) of an accepted tree (fixtures, built-in bases, generated plans) fed to validate_command; what it accepts is walked; non-trivial = a mutation was applied to an accepted tree",
        (300_000, 9_000_000),
        {
            let pool = pool.clone();
            move || tree_strategy(pool.clone())
        },
        move |c: &TreeCase, ctx: &mut CaseCtx| run_tree(c, &pool, ctx),
    );
}
