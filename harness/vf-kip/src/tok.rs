//! Typed tokens of KIP text, their rendering under the variations the language
//! promises not to care about (keyword case, inter-token whitespace, `//`
//! comments), and a small lexer that turns fixture statements into tokens.
//!
//! What is ONE token here is exactly what the grammar treats as glued: a dot
//! path (`?x.a["k"]`), a `:param`, a number (with its sign), a string, and a
//! hop-quantified predicate atom (`"b"{1,3}`).

use serde::{Deserialize, Serialize};

#[derive(Clone, Copy, Debug, Serialize, Deserialize, PartialEq, Eq, Hash)]
pub enum K {
    /// protocol keyword: ASCII case-insensitive
    Kw,
    /// registered function name (aggregate / filter / update): case-insensitive
    Fn,
    /// case-sensitive identifier: object key, `true` / `false` / `null`, `id`
    Word,
    /// string literal, stored as its source text including the quotes
    Str,
    /// number literal with its sign
    Num,
    /// punctuation / operator
    P,
    /// `?var` with its dot / key path
    Path,
    /// `:param`
    Param,
    /// predicate atom with a glued hop quantifier
    Glued,
    /// anything else (mutations only); disables the metamorphic relation
    Raw,
}

#[derive(Clone, Debug, Serialize, Deserialize, PartialEq, Eq, Hash)]
pub struct Tok {
    pub k: K,
    pub t: String,
}

impl Tok {
    pub fn new(k: K, t: impl Into<String>) -> Tok {
        Tok { k, t: t.into() }
    }
}

pub const KEYWORDS: &[&str] = &[
    "FIND", "WHERE", "FILTER", "NOT", "OPTIONAL", "UNION", "CONCEPT", "PROPOSITION", "ASSERTION", "EVIDENCE",
    "ACTIVITY", "STRUCTURAL", "BELIEF", "SLOT", "AS", "OF", "SEQ", "TX", "TIME", "FOR", "WITH", "EPISTEMIC", "ORDER",
    "BY", "ASC", "DESC", "LIMIT", "CURSOR", "DISTINCT", "MUTATE", "CREATE", "UPSERT", "ENSURE", "ASSERT",
    "SUPERSEDING", "UPDATE", "SET", "UNSET", "FIELDS", "ATTRIBUTES", "FACET", "CLIENT", "KEY", "TYPE", "NAME",
    "MATCH", "EXPECT", "VERSION", "STATE", "RETRACT", "SUPERSEDE", "CORRECT", "TRANSITION", "TO", "RETENTION",
    "ARCHIVE", "TOMBSTONE", "PURGE", "REFERENCE", "POLICY", "CONFIRM", "MERGE", "INTO", "DESCRIBE", "PRIMER", "MODE",
    "PROTOCOL", "EXECUTION", "CONTEXT", "CAPABILITIES", "PROJECTION", "CAPABILITY", "SPACE", "SCHEMA", "ENVIRONMENT",
    "PACKAGE", "PREDICATE", "COMPATIBILITY", "FROM", "ERROR", "TRANSACTION", "IDEMPOTENCY", "SNAPSHOT", "CAPSULE",
    "TRUST", "ACCESS", "LIST", "PACKAGES", "STATUS", "FIELD", "SPACES", "TYPES", "PREDICATES", "FACETS", "POLICIES",
    "SEARCH", "COGNITION", "THRESHOLD", "VERIFY", "RECEIPT", "BLOB", "CHECKPOINT", "VALIDATE", "KQL", "KML", "IMPORT",
    "PLAN", "PREVIEW", "HISTORY", "ELEMENT", "CHANGES", "AFTER", "SINCE", "EXPORT",
];

pub const FUNCTIONS: &[&str] = &[
    "COUNT", "SUM", "AVG", "MIN", "MAX", "CONTAINS", "STARTS_WITH", "ENDS_WITH", "REGEX", "IN", "IS_NULL",
    "IS_NOT_NULL", "IS_LITERAL", "IS_ELEMENT", "IS_KIND", "LITERAL_TYPE", "ADD", "MUL", "CLAMP", "COALESCE",
];

// ---------------------------------------------------------------------------
// deterministic mixing (a pure function of the case's own seed; not an RNG of
// the run)
// ---------------------------------------------------------------------------

#[derive(Clone)]
pub struct Mix(u64);
impl Mix {
    pub fn new(seed: u64) -> Mix {
        Mix(seed.wrapping_mul(0x9E37_79B9_7F4A_7C15) ^ 0xD1B5_4A32_D192_ED03)
    }
    pub fn next(&mut self) -> u64 {
        // splitmix64
        self.0 = self.0.wrapping_add(0x9E37_79B9_7F4A_7C15);
        let mut z = self.0;
        z = (z ^ (z >> 30)).wrapping_mul(0xBF58_476D_1CE4_E5B9);
        z = (z ^ (z >> 27)).wrapping_mul(0x94D0_49BB_1331_11EB);
        z ^ (z >> 31)
    }
    pub fn below(&mut self, n: usize) -> usize {
        if n == 0 { 0 } else { (self.next() % n as u64) as usize }
    }
}

// ---------------------------------------------------------------------------
// rendering
// ---------------------------------------------------------------------------

#[derive(Clone, Copy, Debug, Serialize, Deserialize, PartialEq, Eq)]
pub enum Case {
    Keep,
    Upper,
    Lower,
    Mixed,
}

#[derive(Clone, Copy, Debug, Serialize, Deserialize, PartialEq, Eq)]
pub enum Sep {
    /// one space
    Space,
    /// nothing next to brackets and commas where no two tokens can fuse
    Tight,
    /// random runs of space / tab / LF / CRLF
    Ws,
    /// `//` comments (containing quotes, brackets, keywords) and whitespace
    Comments,
}

#[derive(Clone, Copy, Debug, Serialize, Deserialize, PartialEq, Eq)]
pub struct Style {
    pub case: Case,
    pub sep: Sep,
    pub seed: u64,
}

pub const PLAIN: Style = Style { case: Case::Keep, sep: Sep::Space, seed: 0 };

const BRACKETS: &[&str] = &["(", ")", "{", "}", "[", "]", ","];
const OPENERS: &[&str] = &["(", "{", "["];

fn is_bracket(t: &Tok) -> bool {
    t.k == K::P && BRACKETS.contains(&t.t.as_str())
}

/// May the separator between `a` and `b` be empty without any chance that the
/// two tokens fuse into a different token sequence?
fn droppable(a: &Tok, b: &Tok) -> bool {
    if a.k == K::Raw || b.k == K::Raw {
        return false;
    }
    if b.k == K::P && OPENERS.contains(&b.t.as_str()) {
        // `"p"{1,3}` / `?x["k"]` / `f(` are glued forms: an opener may only be
        // glued to punctuation or to a keyword / function name
        return matches!(a.k, K::P | K::Kw | K::Fn) && (a.k != K::P || is_bracket(a));
    }
    if is_bracket(a) || is_bracket(b) {
        // the other side must not be an operator that could fuse with a bracket: none can
        return true;
    }
    // `key:` — a colon may be glued to the key on its left, never to its right
    if b.k == K::P && b.t == ":" && matches!(a.k, K::Word | K::Str) {
        return true;
    }
    false
}

const WS_POOL: &[&str] = &[" ", "  ", "\t", "\n", "\r\n", " \n  ", "\n\n\t", "   \t ", "\n    "];
const COMMENT_POOL: &[&str] = &[
    "",
    " plain words",
    " \"",
    " \" unterminated ({[",
    " ({[",
    " }])",
    " )",
    " // nested // slashes",
    " \u{2713} \u{e9} \u{4e2d}",
    " FIND(?x) WHERE { ?x {type: \"T\"} }",
    " \\",
    " \\\"",
    " LIMIT 1 CONFIRM \"PURGE\"",
    "\t:param ?var",
];

fn flip(word: &str, case: Case, mix: &mut Mix) -> String {
    match case {
        Case::Keep => word.to_string(),
        Case::Upper => word.to_ascii_uppercase(),
        Case::Lower => word.to_ascii_lowercase(),
        Case::Mixed => word
            .chars()
            .map(|c| if mix.next() & 1 == 0 { c.to_ascii_uppercase() } else { c.to_ascii_lowercase() })
            .collect(),
    }
}

fn trivia(sep: Sep, mix: &mut Mix, out: &mut String, mandatory: bool) {
    match sep {
        Sep::Space | Sep::Tight => {
            if mandatory {
                out.push(' ');
            }
        }
        Sep::Ws => {
            if mandatory || mix.below(3) == 0 {
                out.push_str(WS_POOL[mix.below(WS_POOL.len())]);
            }
        }
        Sep::Comments => {
            let n = mix.below(3);
            if n == 0 && mandatory {
                out.push_str(WS_POOL[mix.below(WS_POOL.len())]);
            }
            for _ in 0..n {
                if mix.below(2) == 0 {
                    out.push_str(WS_POOL[mix.below(WS_POOL.len())]);
                }
                out.push_str("//");
                out.push_str(COMMENT_POOL[mix.below(COMMENT_POOL.len())]);
                out.push_str(if mix.below(4) == 0 { "\r\n" } else { "\n" });
                if mix.below(2) == 0 {
                    out.push_str(WS_POOL[mix.below(WS_POOL.len())]);
                }
            }
        }
    }
}

/// Keywords are contextual: an identifier is read case-SENSITIVELY where the
/// grammar wants a field name — before a `:` (object key) and as a member of a
/// `{a, b}` name list. A keyword-typed token that a mutation moved into such a
/// position keeps its spelling.
fn keyword_position(toks: &[Tok], i: usize) -> bool {
    let is = |j: Option<&Tok>, set: &[&str]| j.map(|t| t.k == K::P && set.contains(&t.t.as_str())).unwrap_or(false);
    let prev = if i > 0 { toks.get(i - 1) } else { None };
    let next = toks.get(i + 1);
    if is(next, &[":"]) {
        return false;
    }
    if is(prev, &["{", ","]) && is(next, &[",", "}"]) {
        return false;
    }
    true
}

pub fn render(toks: &[Tok], st: Style) -> String {
    let mut mix = Mix::new(st.seed);
    let mut out = String::new();
    if matches!(st.sep, Sep::Ws | Sep::Comments) {
        trivia(st.sep, &mut mix, &mut out, false);
    }
    for (i, t) in toks.iter().enumerate() {
        if i > 0 {
            let prev = &toks[i - 1];
            match st.sep {
                Sep::Tight => {
                    if !droppable(prev, t) {
                        out.push(' ');
                    }
                }
                s => trivia(s, &mut mix, &mut out, true),
            }
        }
        match t.k {
            K::Kw | K::Fn if keyword_position(toks, i) => out.push_str(&flip(&t.t, st.case, &mut mix)),
            _ => out.push_str(&t.t),
        }
    }
    if matches!(st.sep, Sep::Ws | Sep::Comments) {
        trivia(st.sep, &mut mix, &mut out, false);
        if st.sep == Sep::Comments && mix.below(3) == 0 {
            // a final comment without a newline: runs to the end of the input
            out.push_str(" // trailing ({[ \"");
        }
    }
    out
}

/// The fixed set of variant styles used by the metamorphic relation.
pub fn variant_styles(seed: u64) -> Vec<Style> {
    vec![
        Style { case: Case::Lower, sep: Sep::Space, seed },
        Style { case: Case::Mixed, sep: Sep::Tight, seed: seed ^ 1 },
        Style { case: Case::Upper, sep: Sep::Ws, seed: seed ^ 2 },
        Style { case: Case::Keep, sep: Sep::Comments, seed: seed ^ 3 },
        Style { case: Case::Mixed, sep: Sep::Comments, seed: seed ^ 4 },
    ]
}

/// May the metamorphic relation be applied to this token sequence?
pub fn meta_safe(toks: &[Tok]) -> bool {
    toks.iter().all(|t| t.k != K::Raw)
}

/// `(`/`{`/`[` nesting depth of a token sequence outside strings (the quantity
/// the documented limit is about); brackets inside Path / Glued tokens count.
pub fn nesting(toks: &[Tok]) -> usize {
    let mut cur: isize = 0;
    let mut max: isize = 0;
    for t in toks {
        match t.k {
            K::Str => {}
            K::P => match t.t.as_str() {
                "(" | "{" | "[" => {
                    cur += 1;
                    max = max.max(cur);
                }
                ")" | "}" | "]" => cur = (cur - 1).max(0),
                _ => {}
            },
            K::Path | K::Glued => {
                if t.t.contains(['[', '{']) {
                    max = max.max(cur + 1);
                }
            }
            _ => {}
        }
    }
    max as usize
}

// ---------------------------------------------------------------------------
// lexer for fixture statements
// ---------------------------------------------------------------------------

fn is_ident_start(c: char) -> bool {
    c.is_ascii_alphabetic() || c == '_'
}
fn is_ident_char(c: char) -> bool {
    c.is_ascii_alphanumeric() || c == '_'
}

/// Skips whitespace and `//` comments from byte offset `i`.
fn skip_trivia(s: &str, mut i: usize) -> usize {
    let b = s.as_bytes();
    loop {
        let start = i;
        while i < b.len() {
            let c = s[i..].chars().next().unwrap();
            if c.is_whitespace() {
                i += c.len_utf8();
            } else {
                break;
            }
        }
        if s[i..].starts_with("//") {
            match s[i..].find('\n') {
                Some(n) => i += n + 1,
                None => i = s.len(),
            }
        }
        if i == start {
            return i;
        }
    }
}

fn scan_string(s: &str, i: usize) -> Option<usize> {
    // s[i] == '"'; returns the offset after the closing quote
    let mut it = s[i + 1..].char_indices();
    while let Some((o, c)) = it.next() {
        match c {
            '\\' => {
                it.next();
            }
            '"' => return Some(i + 1 + o + 1),
            _ => {}
        }
    }
    None
}

fn scan_ident(s: &str, i: usize) -> usize {
    let mut j = i;
    for c in s[i..].chars() {
        if is_ident_char(c) {
            j += c.len_utf8();
        } else {
            break;
        }
    }
    j
}

/// `{n}` / `{n,}` / `{n,m}` directly at offset `i`?
fn scan_quantifier(s: &str, i: usize) -> Option<usize> {
    if !s[i..].starts_with('{') {
        return None;
    }
    let end = s[i..].find('}')? + i;
    let inner = &s[i + 1..end];
    if inner.trim().is_empty() {
        return None;
    }
    let mut seen_digit = false;
    for c in inner.chars() {
        if c.is_ascii_digit() {
            seen_digit = true;
        } else if !(c == ',' || c == ' ') {
            return None;
        }
    }
    if seen_digit { Some(end + 1) } else { None }
}

/// Tokenises a KIP statement. `None` when the text contains something the
/// lexer does not understand (such a statement is used as a seed for the
/// other oracles but not for the metamorphic relation).
pub fn lex(s: &str) -> Option<Vec<Tok>> {
    let mut out: Vec<Tok> = vec![];
    let mut i = skip_trivia(s, 0);
    while i < s.len() {
        let c = s[i..].chars().next().unwrap();
        if c == '"' {
            let e = scan_string(s, i)?;
            if let Some(q) = scan_quantifier(s, e) {
                out.push(Tok::new(K::Glued, &s[i..q]));
                i = q;
            } else {
                out.push(Tok::new(K::Str, &s[i..e]));
                i = e;
            }
        } else if c == '?' {
            let mut e = scan_ident(s, i + 1);
            if e == i + 1 {
                return None;
            }
            let mut has_path = false;
            loop {
                if s[e..].starts_with('.') && s[e + 1..].chars().next().map(is_ident_start).unwrap_or(false) {
                    e = scan_ident(s, e + 1);
                    has_path = true;
                } else if s[e..].starts_with('[') {
                    let q = skip_trivia(s, e + 1);
                    if !s[q..].starts_with('"') {
                        break;
                    }
                    let q = scan_string(s, q)?;
                    let q = skip_trivia(s, q);
                    if !s[q..].starts_with(']') {
                        return None;
                    }
                    e = q + 1;
                    has_path = true;
                } else {
                    break;
                }
            }
            if !has_path {
                if let Some(q) = scan_quantifier(s, e) {
                    out.push(Tok::new(K::Glued, &s[i..q]));
                    i = q;
                    i = skip_trivia(s, i);
                    continue;
                }
            }
            out.push(Tok::new(K::Path, &s[i..e]));
            i = e;
        } else if c == ':' {
            let next = s[i + 1..].chars().next();
            let prev_is_key = matches!(out.last(), Some(t) if matches!(t.k, K::Word | K::Str))
                && out.len() >= 2
                && matches!(&out[out.len() - 2], t if t.k == K::P && matches!(t.t.as_str(), "{" | "," | "("));
            if next.map(is_ident_start).unwrap_or(false) && !prev_is_key {
                let e = scan_ident(s, i + 1);
                if let Some(q) = scan_quantifier(s, e) {
                    out.push(Tok::new(K::Glued, &s[i..q]));
                    i = q;
                } else {
                    out.push(Tok::new(K::Param, &s[i..e]));
                    i = e;
                }
            } else {
                out.push(Tok::new(K::P, ":"));
                i += 1;
            }
        } else if c.is_ascii_digit() || ((c == '-' || c == '+') && s[i + 1..].chars().next().map(|d| d.is_ascii_digit()).unwrap_or(false)) {
            let mut e = i + 1;
            let b = s.as_bytes();
            while e < b.len() && b[e].is_ascii_digit() {
                e += 1;
            }
            if e < b.len() && b[e] == b'.' && e + 1 < b.len() && b[e + 1].is_ascii_digit() {
                e += 1;
                while e < b.len() && b[e].is_ascii_digit() {
                    e += 1;
                }
            }
            if e < b.len() && (b[e] == b'e' || b[e] == b'E') {
                let mut f = e + 1;
                if f < b.len() && (b[f] == b'+' || b[f] == b'-') {
                    f += 1;
                }
                if f < b.len() && b[f].is_ascii_digit() {
                    while f < b.len() && b[f].is_ascii_digit() {
                        f += 1;
                    }
                    e = f;
                }
            }
            out.push(Tok::new(K::Num, &s[i..e]));
            i = e;
        } else if is_ident_start(c) {
            let e = scan_ident(s, i);
            let word = &s[i..e];
            let after = skip_trivia(s, e);
            let next = s[after..].chars().next();
            let prev_open = matches!(out.last(), Some(t) if t.k == K::P && matches!(t.t.as_str(), "{" | "," | "("));
            let upper = word.to_ascii_uppercase();
            let all_upper_kw = word == upper && KEYWORDS.contains(&upper.as_str());
            let kind = if matches!(word, "true" | "false" | "null") {
                K::Word
            } else if prev_open && next == Some(':') {
                let after_colon = s[after + 1..].chars().next();
                if after_colon.map(is_ident_start).unwrap_or(false) && all_upper_kw { K::Kw } else { K::Word }
            } else if prev_open && matches!(next, Some(',') | Some('}')) && !all_upper_kw {
                // member of an UNSET list
                K::Word
            } else if next == Some('(') && FUNCTIONS.contains(&upper.as_str()) {
                K::Fn
            } else if KEYWORDS.contains(&upper.as_str()) {
                K::Kw
            } else {
                K::Word
            };
            out.push(Tok::new(kind, word));
            i = e;
        } else {
            let two = s.get(i..i + 2).unwrap_or("");
            if matches!(two, "==" | "!=" | "<=" | ">=" | "&&" | "||") {
                out.push(Tok::new(K::P, two));
                i += 2;
            } else if matches!(c, '(' | ')' | '{' | '}' | '[' | ']' | ',' | '|' | '<' | '>' | '!' | '-') {
                out.push(Tok::new(K::P, c.to_string()));
                i += 1;
            } else {
                return None;
            }
        }
        i = skip_trivia(s, i);
    }
    Some(out)
}

#[cfg(test)]
mod tests {
    use super::*;
    #[test]
    fn lexes_the_glued_forms() {
        let t = lex(r#"FIND(?a.x["k"], COUNT(DISTINCT ?p)) WHERE { ?p (?s, "a"|"b"{1,3}, ?o) ?m {type: "T", by: :me} } LIMIT :n // c"#).unwrap();
        assert!(t.iter().any(|t| t.k == K::Glued && t.t == "\"b\"{1,3}"));
        assert!(t.iter().any(|t| t.k == K::Path && t.t == "?a.x[\"k\"]"));
        assert!(t.iter().any(|t| t.k == K::Word && t.t == "type"));
        assert!(t.iter().any(|t| t.k == K::Word && t.t == "by"));
        assert!(t.iter().any(|t| t.k == K::Param && t.t == ":me"));
        assert!(t.iter().any(|t| t.k == K::Fn && t.t == "COUNT"));
        assert_eq!(t.last().unwrap().t, ":n");
    }
}
