//! The repo's own KIP command strings (conformance + parity fixtures), read at
//! run time and used as seeds.

use serde_json::Value;
use std::collections::BTreeSet;

pub fn repo_root() -> String {
    std::env::var("VERIF_REPO_DIR").unwrap_or_else(|_| "/repo".to_string())
}

/// Every distinct command string of the conformance and parity fixtures, in a
/// deterministic order.
pub fn load() -> Result<Vec<String>, String> {
    let root = repo_root();
    let mut out: Vec<String> = vec![];
    let mut seen = BTreeSet::new();
    let mut push = |s: &str| {
        if seen.insert(s.to_string()) {
            out.push(s.to_string());
        }
    };
    let dir = format!("{root}/fixtures/kip-conformance-2.0");
    let mut files: Vec<_> = std::fs::read_dir(&dir)
        .map_err(|e| format!("cannot read {dir}: {e}"))?
        .filter_map(|e| e.ok())
        .map(|e| e.path())
        .filter(|p| p.extension().map(|x| x == "json").unwrap_or(false))
        .collect();
    files.sort();
    if files.is_empty() {
        return Err(format!("no fixture files under {dir}"));
    }
    for f in files {
        let txt = std::fs::read_to_string(&f).map_err(|e| format!("{}: {e}", f.display()))?;
        let v: Value = serde_json::from_str(&txt).map_err(|e| format!("{}: {e}", f.display()))?;
        for s in v["setup"].as_array().into_iter().flatten() {
            if let Some(s) = s.as_str() {
                push(s);
            }
        }
        for c in v["cases"].as_array().into_iter().flatten() {
            if let Some(s) = c["command"].as_str() {
                push(s);
            }
        }
    }
    let parity = format!("{root}/rs/anda_kip/tests/fixtures/kip_lang_ast.json");
    let txt = std::fs::read_to_string(&parity).map_err(|e| format!("{parity}: {e}"))?;
    let v: Value = serde_json::from_str(&txt).map_err(|e| format!("{parity}: {e}"))?;
    for c in v["cases"].as_array().into_iter().flatten() {
        if let Some(s) = c["command"].as_str() {
            push(s);
        }
    }
    if out.len() < 50 {
        return Err(format!("only {} fixture commands found", out.len()));
    }
    Ok(out)
}
