//! An independent walker over accepted `Command` trees, written from
//! SPECIFICATION.md / KIPSyntax.md and the C16 property statement. It shares no
//! code with the parser's own guards (`kml.rs`): it only pattern-matches the
//! public AST.
//!
//! It flags exactly what the documents forbid:
//!  * an assignment / unset key that is an engine-owned field (Spec §6.2/§6.3,
//!    §2.11, §28.1: `_system`, `governance`, `space_id`, `space_seq`; exact,
//!    case-sensitive — schema symbols are case-sensitive);
//!  * `UPDATE ... SET FIELDS` naming immutable payload of a target that the
//!    statement's own WHERE binds as an Assertion (§13.7), Evidence (§15.3/§15.5)
//!    or Proposition (§12.5);
//!  * `SET/UNSET STRUCTURAL` through UPDATE on a target bound as Assertion,
//!    Evidence, Proposition or Activity (§17.5, KIPSyntax §3.5);
//!  * BELIEF / BELIEF SLOT in a mutation's WHERE or an EXPORT selection
//!    (§21.2, KIPSyntax §2.1);
//!  * a handle claimed by two clauses, or used without being bound by the plan
//!    or by the using clause's own WHERE (§53.2/§53.3, KIPSyntax §3.4/§3.5);
//!  * UPSERT CONCEPT without an `id` / `key` selector (§54.3);
//!  * PURGE confirmed with anything but the literal (§60.3, KIPSyntax §3.6);
//!  * ENSURE PROPOSITION with a variable predicate or a literal subject
//!    (KIPSyntax §1.6).

use anda_kip::*;
use std::collections::{BTreeMap, BTreeSet};

#[derive(Clone, Debug, PartialEq, Eq)]
pub struct Finding {
    /// structural signature (stable across inputs)
    pub sig: String,
    pub msg: String,
}

pub const PROTECTED: &[&str] = &["_system", "governance", "space_id", "space_seq"];
/// Spec §13.7 with the field names of the §13.2 shape.
pub const ASSERTION_PAYLOAD: &[&str] = &["proposition", "asserted_by", "stance", "mode", "confidence", "asserted_at", "valid_time", "evidence"];
/// Spec §15.5 ("payload and observation identity") with the field names of the §15.3 shape.
pub const EVIDENCE_PAYLOAD: &[&str] = &["evidence_class", "payload", "content_digest", "media_type", "observed_at"];
/// Spec §12.5.
pub const PROPOSITION_PAYLOAD: &[&str] = &["subject", "predicate", "object"];

#[derive(Clone, Copy, Debug, PartialEq, Eq, PartialOrd, Ord)]
pub enum Kind {
    Concept,
    Proposition,
    Assertion,
    Evidence,
    Activity,
}

fn find(out: &mut Vec<Finding>, sig: impl Into<String>, msg: impl Into<String>) {
    out.push(Finding { sig: sig.into(), msg: msg.into() });
}

// -- WHERE traversal ---------------------------------------------------------

/// Every pattern that binds `var` as an element of a syntactically known kind, in document order.
fn bindings_of(var: &str, w: &[WhereClause], out: &mut Vec<Kind>) {
    for c in w {
        match c {
            WhereClause::Concept { variable, .. } if variable == var => out.push(Kind::Concept),
            WhereClause::Assertion { variable, .. } if variable == var => out.push(Kind::Assertion),
            WhereClause::Evidence { variable, .. } if variable == var => out.push(Kind::Evidence),
            WhereClause::Activity { variable, .. } if variable == var => out.push(Kind::Activity),
            WhereClause::Proposition { variable: Some(v), .. } if v == var => out.push(Kind::Proposition),
            WhereClause::Not(i) | WhereClause::Optional(i) | WhereClause::Union(i) => bindings_of(var, i, out),
            _ => {}
        }
    }
}

fn has_belief(w: &[WhereClause]) -> bool {
    w.iter().any(|c| match c {
        WhereClause::Belief { .. } | WhereClause::BeliefSlot { .. } => true,
        WhereClause::Not(i) | WhereClause::Optional(i) | WhereClause::Union(i) => has_belief(i),
        _ => false,
    })
}

fn vars_of_match_value(v: &MatchValue, out: &mut BTreeSet<String>) {
    match v {
        MatchValue::Variable(n) => {
            out.insert(n.clone());
        }
        MatchValue::Array(items) => items.iter().for_each(|i| vars_of_match_value(i, out)),
        MatchValue::Match(m) => m.values().for_each(|i| vars_of_match_value(i, out)),
        MatchValue::Proposition(p) => vars_of_prop(p, out),
        MatchValue::Param(_) | MatchValue::Literal(_) => {}
    }
}

fn vars_of_atom(a: &PredAtom, out: &mut BTreeSet<String>) {
    if let PredAtom::Variable(n) = a {
        out.insert(n.clone());
    }
}

fn vars_of_triple(t: &PropositionTriple, out: &mut BTreeSet<String>) {
    vars_of_term(&t.subject, out);
    vars_of_term(&t.object, out);
    match &t.predicate {
        PredTerm::Atom(a) => vars_of_atom(a, out),
        PredTerm::Path(p) => p.iter().for_each(|a| vars_of_atom(&a.predicate, out)),
    }
}

fn vars_of_prop(p: &PropositionMatcher, out: &mut BTreeSet<String>) {
    if let PropositionMatcher::Tuple(t) = p {
        vars_of_triple(t, out);
    }
}

fn vars_of_term(t: &Term, out: &mut BTreeSet<String>) {
    match t {
        Term::Variable(n) => {
            out.insert(n.clone());
        }
        Term::Match(m) => m.values().for_each(|v| vars_of_match_value(v, out)),
        Term::Proposition(p) => vars_of_prop(p, out),
        Term::Param(_) | Term::Literal(_) => {}
    }
}

/// Variables a WHERE block binds (patterns only; a FILTER reads, it does not bind).
fn where_vars(w: &[WhereClause], out: &mut BTreeSet<String>) {
    for c in w {
        match c {
            WhereClause::Concept { variable, matcher }
            | WhereClause::Assertion { variable, matcher }
            | WhereClause::Evidence { variable, matcher }
            | WhereClause::Activity { variable, matcher } => {
                out.insert(variable.clone());
                matcher.values().for_each(|v| vars_of_match_value(v, out));
            }
            WhereClause::Proposition { variable, matcher } => {
                if let Some(v) = variable {
                    out.insert(v.clone());
                }
                vars_of_prop(matcher, out);
            }
            WhereClause::Structural { variable, subject, object, .. } => {
                if let Some(v) = variable {
                    out.insert(v.clone());
                }
                vars_of_term(subject, out);
                vars_of_term(object, out);
            }
            WhereClause::Belief { variable, target } => {
                out.insert(variable.clone());
                match target {
                    BeliefTarget::Proposition(n) => {
                        out.insert(n.clone());
                    }
                    BeliefTarget::Tuple(t) => vars_of_triple(t, out),
                    BeliefTarget::Id(_) => {}
                }
            }
            WhereClause::BeliefSlot { variable, subject, predicate } => {
                out.insert(variable.clone());
                vars_of_term(subject, out);
                vars_of_atom(predicate, out);
            }
            WhereClause::Filter { .. } => {}
            WhereClause::Not(i) | WhereClause::Optional(i) | WhereClause::Union(i) => where_vars(i, out),
        }
    }
}

// -- handle uses -------------------------------------------------------------

fn handles_of_bound(v: &BoundValue, out: &mut BTreeSet<String>) {
    match v {
        BoundValue::Handle(h) => {
            out.insert(h.clone());
        }
        BoundValue::Array(a) => a.iter().for_each(|i| handles_of_bound(i, out)),
        BoundValue::Object(o) => o.iter().for_each(|(_, i)| handles_of_bound(i, out)),
        BoundValue::Value(_) | BoundValue::Param(_) | BoundValue::Variable(_) => {}
    }
}

fn handles_of_value(v: &MutationValue, out: &mut BTreeSet<String>) {
    match v {
        MutationValue::Handle(h) => {
            out.insert(h.clone());
        }
        MutationValue::Array(a) => a.iter().for_each(|i| handles_of_bound(i, out)),
        MutationValue::Object(o) => o.iter().for_each(|(_, i)| handles_of_bound(i, out)),
        MutationValue::Value(_) | MutationValue::Param(_) | MutationValue::Variable(_) | MutationValue::Expr(_) => {}
    }
}

fn handles_of_assignments(a: &Assignments, out: &mut BTreeSet<String>) {
    a.iter().for_each(|(_, v)| handles_of_value(v, out));
}

fn handles_of_edges(e: &[StructuralEdge], out: &mut BTreeSet<String>) {
    for edge in e {
        handles_of_value(&edge.value, out);
        if let Some(o) = &edge.options {
            o.values().for_each(|v| handles_of_bound(v, out));
        }
    }
}

fn handle_of_ref(r: &ElementRef, out: &mut BTreeSet<String>) {
    if let ElementRef::Handle(h) = r {
        out.insert(h.clone());
    }
}

/// `?x` endpoints of a resolve-or-create tuple: there is no WHERE, so a
/// variable can only name an element of the plan.
fn endpoint_handles(t: &Term, out: &mut BTreeSet<String>) {
    match t {
        Term::Variable(n) => {
            out.insert(n.clone());
        }
        Term::Proposition(p) => {
            if let PropositionMatcher::Tuple(t) = &**p {
                endpoint_handles(&t.subject, out);
                endpoint_handles(&t.object, out);
            }
        }
        Term::Match(_) | Term::Param(_) | Term::Literal(_) => {}
    }
}

struct ClauseView<'a> {
    name: &'static str,
    declares: Option<&'a str>,
    where_clauses: Option<&'a Vec<WhereClause>>,
    /// (block label, assignments)
    assignments: Vec<(&'static str, &'a Assignments)>,
    /// (block label, names)
    unsets: Vec<(&'static str, &'a Vec<String>)>,
    uses: BTreeSet<String>,
    endpoint_uses: BTreeSet<String>,
}

fn view(c: &MutationClause) -> ClauseView<'_> {
    let mut v = ClauseView {
        name: "",
        declares: None,
        where_clauses: None,
        assignments: vec![],
        unsets: vec![],
        uses: BTreeSet::new(),
        endpoint_uses: BTreeSet::new(),
    };
    match c {
        MutationClause::CreateConcept(c) => {
            v.name = "CREATE CONCEPT";
            v.declares = Some(&c.handle);
            if let Some(a) = &c.set_fields {
                v.assignments.push(("SET FIELDS", a));
            }
            if let Some(a) = &c.set_attributes {
                v.assignments.push(("SET ATTRIBUTES", a));
            }
            for f in &c.set_facets {
                v.assignments.push(("SET FACET", &f.values));
            }
            if let Some(e) = &c.set_structural {
                handles_of_edges(e, &mut v.uses);
            }
        }
        MutationClause::UpsertConcept(c) => {
            v.name = "UPSERT CONCEPT";
            v.declares = Some(&c.handle);
            if let Some(a) = &c.set_fields {
                v.assignments.push(("SET FIELDS", a));
            }
            if let Some(a) = &c.set_attributes {
                v.assignments.push(("SET ATTRIBUTES", a));
            }
            for f in &c.set_facets {
                v.assignments.push(("SET FACET", &f.values));
            }
            if let Some(u) = &c.unset_attributes {
                v.unsets.push(("UNSET ATTRIBUTES", u));
            }
            for f in &c.unset_facets {
                v.unsets.push(("UNSET FACET", &f.fields));
            }
            if let Some(e) = &c.set_structural {
                handles_of_edges(e, &mut v.uses);
            }
            if let Some(r) = &c.unset_structural {
                r.iter().for_each(|r| handles_of_value(&r.value, &mut v.uses));
            }
        }
        MutationClause::CreateEvidence(c) | MutationClause::CreateAssertion(c) | MutationClause::CreateActivity(c) => {
            v.name = "CREATE EVIDENCE/ASSERTION/ACTIVITY";
            v.declares = Some(&c.handle);
            if let Some(a) = &c.set_fields {
                v.assignments.push(("SET FIELDS", a));
            }
            for f in &c.set_facets {
                v.assignments.push(("SET FACET", &f.values));
            }
            if let Some(e) = &c.set_structural {
                handles_of_edges(e, &mut v.uses);
            }
        }
        MutationClause::EnsureProposition(c) => {
            v.name = "ENSURE PROPOSITION";
            v.declares = c.handle.as_deref();
            endpoint_handles(&c.subject, &mut v.endpoint_uses);
            endpoint_handles(&c.object, &mut v.endpoint_uses);
        }
        MutationClause::Update(c) => {
            v.name = "UPDATE";
            v.where_clauses = c.where_clauses.as_ref();
            handle_of_ref(&c.target, &mut v.uses);
            for a in &c.actions {
                match a {
                    UpdateAction::SetFields(a) => v.assignments.push(("SET FIELDS", a)),
                    UpdateAction::SetAttributes(a) => v.assignments.push(("SET ATTRIBUTES", a)),
                    UpdateAction::SetFacet(f) => v.assignments.push(("SET FACET", &f.values)),
                    UpdateAction::UnsetAttributes(u) => v.unsets.push(("UNSET ATTRIBUTES", u)),
                    UpdateAction::UnsetFacet(f) => v.unsets.push(("UNSET FACET", &f.fields)),
                    UpdateAction::SetStructural(e) => handles_of_edges(e, &mut v.uses),
                    UpdateAction::UnsetStructural(r) => r.iter().for_each(|r| handles_of_value(&r.value, &mut v.uses)),
                }
            }
        }
        MutationClause::RetractAssertion(c) => {
            v.name = "RETRACT ASSERTION";
            v.where_clauses = c.where_clauses.as_ref();
            handle_of_ref(&c.target, &mut v.uses);
        }
        MutationClause::SupersedeAssertion(c) => {
            v.name = "SUPERSEDE ASSERTION";
            handle_of_ref(&c.target, &mut v.uses);
            handle_of_ref(&c.by, &mut v.uses);
        }
        MutationClause::CorrectEvidence(c) => {
            v.name = "CORRECT EVIDENCE";
            handle_of_ref(&c.target, &mut v.uses);
            handle_of_ref(&c.by, &mut v.uses);
        }
        MutationClause::TransitionActivity(c) => {
            v.name = "TRANSITION ACTIVITY";
            handle_of_ref(&c.target, &mut v.uses);
            if let Some(a) = &c.set_fields {
                v.assignments.push(("SET FIELDS", a));
            }
            if let Some(e) = &c.set_structural {
                handles_of_edges(e, &mut v.uses);
            }
        }
        MutationClause::SetRetention(c) => {
            v.name = "SET RETENTION";
            v.where_clauses = c.where_clauses.as_ref();
            handle_of_ref(&c.target, &mut v.uses);
            v.assignments.push(("SET RETENTION", &c.values));
        }
        MutationClause::Archive(c) | MutationClause::Tombstone(c) => {
            v.name = "ARCHIVE/TOMBSTONE";
            v.where_clauses = c.where_clauses.as_ref();
            handle_of_ref(&c.target, &mut v.uses);
        }
        MutationClause::Purge(c) => {
            v.name = "PURGE";
            v.where_clauses = c.where_clauses.as_ref();
            handle_of_ref(&c.target, &mut v.uses);
        }
        MutationClause::MergeConcept(c) => {
            v.name = "MERGE CONCEPT";
            v.where_clauses = c.where_clauses.as_ref();
            handle_of_ref(&c.source, &mut v.uses);
            handle_of_ref(&c.into, &mut v.uses);
        }
    }
    for (_, a) in &v.assignments {
        handles_of_assignments(a, &mut v.uses);
    }
    v
}

fn payload_of(k: Kind) -> &'static [&'static str] {
    match k {
        Kind::Assertion => ASSERTION_PAYLOAD,
        Kind::Evidence => EVIDENCE_PAYLOAD,
        Kind::Proposition => PROPOSITION_PAYLOAD,
        _ => &[],
    }
}

fn walk_update(u: &UpdateStatement, out: &mut Vec<Finding>) {
    let (ElementRef::Handle(target), Some(w)) = (&u.target, &u.where_clauses) else {
        return;
    };
    let mut kinds = vec![];
    bindings_of(target, w, &mut kinds);
    let first = kinds.first().copied();
    for k in [Kind::Assertion, Kind::Evidence, Kind::Proposition, Kind::Activity] {
        if !kinds.contains(&k) {
            continue;
        }
        // the signature names the root cause, the message the kind
        let behind = first != Some(k);
        for a in &u.actions {
            match a {
                UpdateAction::SetFields(fields) => {
                    for (name, _) in fields {
                        if payload_of(k).contains(&name.as_str()) {
                            find(
                                out,
                                if behind { "update-guard:kind-behind-another-binding".to_string() } else { format!("immutable-payload:{k:?}") },
                                format!("UPDATE ?{target} SET FIELDS {{{name}: ..}} where the statement's own WHERE binds ?{target} as {k:?} (all bindings: {kinds:?})"),
                            );
                        }
                    }
                }
                UpdateAction::SetStructural(_) | UpdateAction::UnsetStructural(_) => {
                    find(
                        out,
                        if behind { "update-guard:kind-behind-another-binding".to_string() } else { format!("structural-mutation:{k:?}") },
                        format!("UPDATE ?{target} SET/UNSET STRUCTURAL where the statement's own WHERE binds ?{target} as {k:?} (all bindings: {kinds:?})"),
                    );
                }
                _ => {}
            }
        }
    }
}

pub fn walk(cmd: &Command) -> Vec<Finding> {
    let mut out = vec![];
    match cmd {
        Command::Kql(_) => {}
        Command::Meta(MetaCommand::ExportCapsule(e)) => {
            if has_belief(&e.where_clauses) {
                find(&mut out, "belief-in-export-selection", "EXPORT CAPSULE selection contains a BELIEF / BELIEF SLOT pattern");
            }
        }
        Command::Meta(_) => {}
        Command::Kml(s) => {
            let views: Vec<ClauseView> = s.clauses.iter().map(view).collect();
            // every handle is bound exactly once by the plan
            let mut declared: BTreeMap<&str, usize> = BTreeMap::new();
            for v in &views {
                if let Some(h) = v.declares {
                    *declared.entry(h).or_insert(0) += 1;
                }
            }
            for (h, n) in &declared {
                if *n > 1 {
                    find(&mut out, "handle-bound-twice", format!("?{h} is claimed by {n} clauses of one plan"));
                }
            }
            for (v, c) in views.iter().zip(s.clauses.iter()) {
                let mut bound: BTreeSet<String> = declared.keys().map(|s| s.to_string()).collect();
                if let Some(w) = v.where_clauses {
                    where_vars(w, &mut bound);
                    if has_belief(w) {
                        find(&mut out, "belief-in-mutation-selection", format!("{} selects through a BELIEF / BELIEF SLOT pattern", v.name));
                    }
                }
                for h in &v.uses {
                    if !bound.contains(h) {
                        find(&mut out, "unbound-handle", format!("{} uses ?{h}, which no clause of the plan and not its own WHERE binds", v.name));
                    }
                }
                for h in &v.endpoint_uses {
                    if !bound.contains(h) {
                        find(
                            &mut out,
                            "unbound-handle:ensure-proposition-endpoint",
                            format!("the tuple of an ENSURE PROPOSITION (or ASSERT) names ?{h}, which no clause of the plan binds"),
                        );
                    }
                }
                for (block, a) in &v.assignments {
                    for (k, _) in a.iter() {
                        if PROTECTED.contains(&k.as_str()) {
                            find(&mut out, format!("protected-field-assigned:{block}"), format!("{} {block} assigns the engine-owned field {k}", v.name));
                        }
                    }
                }
                for (block, names) in &v.unsets {
                    for k in names.iter() {
                        if PROTECTED.contains(&k.as_str()) {
                            find(&mut out, format!("protected-field-unset:{block}"), format!("{} {block} removes the engine-owned field {k}", v.name));
                        }
                    }
                }
                match c {
                    MutationClause::Update(u) => walk_update(u, &mut out),
                    MutationClause::UpsertConcept(u) => {
                        let ok = u.r#match.as_ref().map(|m| m.contains_key("id") || m.contains_key("key")).unwrap_or(false);
                        if !ok {
                            find(&mut out, "upsert-without-identity-selector", "UPSERT CONCEPT whose MATCH carries neither id nor key");
                        }
                    }
                    MutationClause::Purge(p) => {
                        if p.confirm != "PURGE" {
                            find(&mut out, "purge-confirmation-not-literal", format!("PURGE confirmed with {:?}", p.confirm));
                        }
                    }
                    MutationClause::EnsureProposition(e) => {
                        if matches!(e.predicate, PredAtom::Variable(_)) {
                            find(&mut out, "ensure-predicate-variable", "ENSURE PROPOSITION with a ?variable predicate");
                        }
                        if matches!(e.subject, Term::Literal(_)) {
                            find(&mut out, "ensure-literal-subject", "ENSURE PROPOSITION whose subject is a Literal");
                        }
                    }
                    _ => {}
                }
            }
        }
    }
    out
}
