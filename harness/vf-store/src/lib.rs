//! Library face of the driver (modules are shared with the fuzz targets).
pub mod c07;
pub mod c08;
pub mod c09;
pub mod common;
