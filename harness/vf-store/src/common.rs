//! Shared pieces of the store checks: wrapper construction, payloads, keys.

use anda_object_store::{EncryptedStoreBuilder, MetaStoreBuilder};
use object_store::memory::InMemory;
use object_store::path::Path;
use object_store::{ObjectStore, Result};
use serde::{Deserialize, Serialize};
use std::sync::Arc;
use vf_core::store::{Ctl, CtlStore};

pub const KEYS: [&str; 6] = ["a", "a/b", "a/b/c", "ab", "d", "d/e"];
pub const SECRET: [u8; 32] = [7u8; 32];

pub fn key_path(k: u8) -> Path {
    Path::from(KEYS[(k as usize) % KEYS.len()])
}

#[derive(Clone, Copy, Debug, PartialEq, Eq, Serialize, Deserialize)]
pub enum Kind {
    Meta,
    Enc,
    EncStrict,
}

impl Kind {
    pub fn name(self) -> &'static str {
        match self {
            Kind::Meta => "meta",
            Kind::Enc => "enc",
            Kind::EncStrict => "enc_strict",
        }
    }
}

/// The wrapper under test, with access to its GC entry point.
#[derive(Clone)]
pub enum Wrapper {
    Meta(anda_object_store::MetaStore<Arc<dyn ObjectStore>>),
    Enc(anda_object_store::EncryptedStore<Arc<dyn ObjectStore>>),
}

impl Wrapper {
    pub fn build(kind: Kind, chunk: u64, inner: Arc<dyn ObjectStore>) -> Self {
        match kind {
            Kind::Meta => Wrapper::Meta(MetaStoreBuilder::new(inner, 1000).build()),
            Kind::Enc => Wrapper::Enc(
                EncryptedStoreBuilder::with_secret(inner, 1000, SECRET)
                    .with_chunk_size(chunk)
                    .build(),
            ),
            Kind::EncStrict => Wrapper::Enc(
                EncryptedStoreBuilder::with_secret(inner, 1000, SECRET)
                    .with_chunk_size(chunk)
                    .with_strict_metadata_auth()
                    .build(),
            ),
        }
    }
    pub fn store(&self) -> Arc<dyn ObjectStore> {
        match self {
            Wrapper::Meta(m) => Arc::new(m.clone()),
            Wrapper::Enc(e) => Arc::new(e.clone()),
        }
    }
    pub async fn collect_garbage(&self) -> Result<usize> {
        match self {
            Wrapper::Meta(m) => m.collect_garbage().await,
            Wrapper::Enc(e) => e.collect_garbage().await,
        }
    }
}

/// Inner `InMemory` behind a controllable store.
pub struct Backend {
    pub mem: Arc<InMemory>,
    pub ctl: Ctl,
    pub store: Arc<dyn ObjectStore>,
}

impl Backend {
    pub fn new() -> Self {
        let mem = Arc::new(InMemory::new());
        let ctl = Ctl::new();
        let store: Arc<dyn ObjectStore> = Arc::new(CtlStore::new(mem.clone(), ctl.clone()));
        Self { mem, ctl, store }
    }
}

/// Deterministic, high-entropy payload: a function of (content id, size).
/// Equal (id, size) give identical bytes (A -> B -> A rewrites).
pub fn payload(content: u8, size: usize) -> Vec<u8> {
    let mut out = Vec::with_capacity(size);
    let mut z: u64 = 0x9E37_79B9_7F4A_7C15u64.wrapping_mul(content as u64 + 1);
    while out.len() < size {
        z = z.wrapping_add(0x9E37_79B9_7F4A_7C15);
        let mut x = z;
        x = (x ^ (x >> 30)).wrapping_mul(0xBF58_476D_1CE4_E5B9);
        x = (x ^ (x >> 27)).wrapping_mul(0x94D0_49BB_1331_11EB);
        x ^= x >> 31;
        for b in x.to_le_bytes() {
            if out.len() < size {
                out.push(b);
            }
        }
    }
    out
}

/// Payload sizes around the chunk boundaries of chunk size `c`.
pub fn size_for(sel: u8, c: u64) -> usize {
    let c = c as usize;
    let sizes = [0, 1, c.saturating_sub(1), c, c + 1, 2 * c, 3 * c + 1, (2 * c).saturating_sub(1), 5, 21];
    sizes[(sel as usize) % sizes.len()]
}

#[derive(Clone, Copy, Debug, PartialEq, Eq, PartialOrd, Ord, Serialize, Deserialize)]
pub enum EK {
    NotFound,
    AlreadyExists,
    Precondition,
    NotModified,
    Other,
}

pub fn ek(e: &object_store::Error) -> EK {
    match e {
        object_store::Error::NotFound { .. } => EK::NotFound,
        object_store::Error::AlreadyExists { .. } => EK::AlreadyExists,
        object_store::Error::Precondition { .. } => EK::Precondition,
        object_store::Error::NotModified { .. } => EK::NotModified,
        _ => EK::Other,
    }
}

pub fn install_clock(start_ms: u64) {
    anda_object_store::verif::set_clock(Some(start_ms));
    // nonces and generation salts come from a seeded stream: a case is a pure function of its value
    anda_object_store::verif::set_rand_seed(Some(start_ms ^ 0x5EED));
}

/// Per-case nonce stream (so that different cases see different tokens / nonces).
pub fn install_rand<T: std::fmt::Debug>(case: &T) {
    anda_object_store::verif::set_rand_seed(Some(vf_core::fnv64(format!("{case:?}").as_bytes())));
}
