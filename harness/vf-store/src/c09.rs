//! C09 — EncryptedStore: tampering is detected, plaintext never reaches the
//! backend, no nonce is used for two different chunks.
//!
//! For a generated write script the backend state is snapshotted and then
//! **every single-site tamper** of a systematic family is applied to a copy of
//! it; every read path through a fresh EncryptedStore must then return exactly
//! the originally written bytes or fail.

use crate::common::*;
use cbor2::Value as Cv;
use futures::StreamExt;
use object_store::memory::InMemory;
use object_store::path::Path;
use object_store::{GetOptions, GetRange, ObjectStore, ObjectStoreExt, PutPayload};
use proptest::prelude::*;
use serde::{Deserialize, Serialize};
use std::collections::{BTreeMap, HashMap, HashSet};
use std::sync::Arc;
use vf_core::{CaseCtx, Runner, Tier};

const NKEYS: u8 = 3;

#[derive(Clone, Debug, Serialize, Deserialize)]
pub enum WOp {
    Put { key: u8, content: u8, size: u8 },
    Multipart { key: u8, content: u8, parts: Vec<u8> },
    Copy { from: u8, to: u8 },
    Rename { from: u8, to: u8 },
}

#[derive(Clone, Debug, Serialize, Deserialize)]
pub struct Case {
    pub chunk: u64,
    pub strict: bool,
    pub script: Vec<WOp>,
    /// which of the 8 bit positions are flipped per byte (bit mask); thorough = 0xff
    pub bit_mask: u8,
}

fn wop_strategy() -> impl Strategy<Value = WOp> {
    let key = 0u8..NKEYS;
    prop_oneof![
        5 => (key.clone(), 0u8..40, 1u8..10).prop_map(|(key, content, size)| WOp::Put { key, content, size }),
        2 => (key.clone(), 0u8..40, prop::collection::vec(1u8..10, 1..4)).prop_map(|(key, content, parts)| WOp::Multipart { key, content, parts }),
        2 => (key.clone(), key.clone()).prop_map(|(from, to)| WOp::Copy { from, to }),
        1 => (key.clone(), key.clone()).prop_map(|(from, to)| WOp::Rename { from, to }),
    ]
}

pub fn case_strategy(tier: Tier) -> impl Strategy<Value = Case> {
    let mask = match tier {
        Tier::Quick => prop::sample::select(&[0x81u8, 0x42, 0x24, 0x18][..]).boxed(),
        Tier::Thorough => Just(0xffu8).boxed(),
    };
    (prop::sample::select(&[7u64, 16, 64][..]), any::<bool>(), prop::collection::vec(wop_strategy(), 2..7), mask)
        .prop_map(|(chunk, strict, script, bit_mask)| Case { chunk, strict, script, bit_mask })
}

type Snapshot = BTreeMap<String, Vec<u8>>;

fn enc(kind_strict: bool, chunk: u64, inner: Arc<dyn ObjectStore>) -> Arc<dyn ObjectStore> {
    Wrapper::build(if kind_strict { Kind::EncStrict } else { Kind::Enc }, chunk, inner).store()
}

async fn restore(s: &Snapshot) -> Arc<InMemory> {
    let mem = Arc::new(InMemory::new());
    for (p, b) in s {
        mem.put(&Path::from(p.as_str()), PutPayload::from(b.clone())).await.unwrap();
    }
    mem
}

fn cmap(v: &Cv) -> Option<&Vec<(Cv, Cv)>> {
    match v {
        Cv::Map(m) => Some(m),
        _ => None,
    }
}

fn cget<'a>(v: &'a Cv, k: &str) -> Option<&'a Cv> {
    cmap(v)?.iter().find(|(kk, _)| matches!(kk, Cv::Text(t) if t == k)).map(|(_, vv)| vv)
}

fn cset(v: &mut Cv, k: &str, val: Option<Cv>) {
    if let Cv::Map(m) = v {
        m.retain(|(kk, _)| !matches!(kk, Cv::Text(t) if t == k));
        if let Some(val) = val {
            m.push((Cv::Text(k.to_string()), val));
        }
    }
}

fn derive_nonce(base: &[u8], idx: u64) -> Vec<u8> {
    // documented in `Metadata::aes_nonce`: per-chunk nonce = base with its last
    // 8 bytes (little endian) advanced by the chunk index
    let mut n = base.to_vec();
    if n.len() == 12 {
        let mut ctr = [0u8; 8];
        ctr.copy_from_slice(&n[4..12]);
        let c = u64::from_le_bytes(ctr).wrapping_add(idx);
        n[4..12].copy_from_slice(&c.to_le_bytes());
    }
    n
}

/// key index of a backend path (`meta/<key>` or `gen/<key>/<generation>`).
fn owner_of(path: &str) -> Option<u8> {
    let rest = path.strip_prefix("meta/").or_else(|| path.strip_prefix("gen/"))?;
    // longest key name that is a prefix
    let mut best: Option<(usize, u8)> = None;
    for (i, k) in KEYS.iter().enumerate() {
        if rest == *k || rest.starts_with(&format!("{k}/")) {
            if best.map(|(l, _)| k.len() > l).unwrap_or(true) {
                // for gen/ paths the generation is one more segment: "a/b/<gen>" must not be owned by "a/b/c"
                best = Some((k.len(), i as u8));
            }
        }
    }
    if path.starts_with("gen/") {
        // exact: rest = "<key>/<generation>"
        let (k, _g) = rest.rsplit_once('/')?;
        return KEYS.iter().position(|x| *x == k).map(|i| i as u8);
    }
    best.map(|(_, i)| i)
}

#[derive(Clone, Debug)]
enum Tamper {
    Flip { path: String, pos: usize, bit: u8 },
    Truncate { path: String, len: usize },
    Extend { path: String, extra: Vec<u8> },
    ChunkSwap { path: String, a: usize, b: usize, len: usize },
    Replace { path: String, with: String },
    Swap { a: String, b: String },
    Delete { path: String },
    MetaEdit { path: String, what: String, doc: Vec<u8> },
    OlderMeta { path: String, doc: Vec<u8>, which: usize },
    /// Two sites that belong together in the pre-0.10 layout: a metadata document WITHOUT a
    /// generation pointer resolves to `data/<key>`, so "stripping the pointer" is only a complete
    /// attack together with a payload staged there. `doc` = a donor document (another key's, or an
    /// earlier one of this key) with a set of fields stripped, `payload_from` = the donor's payload.
    LegacyDowngrade { path: String, what: String, doc: Vec<u8>, stage: String, payload_from: String },
    /// "exchanging objects between keys" as a whole: key `to` gets the metadata document of key
    /// `from` and `from`'s payload under its own prefix (same generation name), its own payload
    /// object is gone. (`both`: the exchange is done in both directions.)
    KeyExchange { to: String, from: String, both: bool },
}

impl Tamper {
    fn describe(&self) -> String {
        match self {
            Tamper::Flip { path, pos, bit } => format!("flip bit {bit} of byte {pos} of {path}"),
            Tamper::Truncate { path, len } => format!("truncate {path} to {len} bytes"),
            Tamper::Extend { path, extra } => format!("extend {path} by {} bytes", extra.len()),
            Tamper::ChunkSwap { path, a, b, len } => format!("swap {len}-byte windows at {a} and {b} of {path}"),
            Tamper::Replace { path, with } => format!("replace {path} by the bytes of {with}"),
            Tamper::Swap { a, b } => format!("swap {a} and {b}"),
            Tamper::Delete { path } => format!("delete {path}"),
            Tamper::MetaEdit { path, what, .. } => format!("metadata edit of {path}: {what}"),
            Tamper::OlderMeta { path, which, .. } => format!("replace {path} by its own earlier document #{which}"),
            Tamper::LegacyDowngrade { path, what, stage, payload_from, .. } => format!("legacy downgrade of {path}: {what}, with {} staged at {stage}", if payload_from.is_empty() { "an empty object".to_string() } else { format!("the bytes of {payload_from}") }),
            Tamper::KeyExchange { to, from, both } => format!("key {to} gets the metadata document and the payload of key {from}{}", if *both { " and vice versa" } else { "" }),
        }
    }
    fn apply(&self, s: &Snapshot) -> Snapshot {
        let mut t = s.clone();
        match self {
            Tamper::Flip { path, pos, bit } => {
                t.get_mut(path).unwrap()[*pos] ^= 1 << bit;
            }
            Tamper::Truncate { path, len } => t.get_mut(path).unwrap().truncate(*len),
            Tamper::Extend { path, extra } => t.get_mut(path).unwrap().extend_from_slice(extra),
            Tamper::ChunkSwap { path, a, b, len } => {
                let v = t.get_mut(path).unwrap();
                for i in 0..*len {
                    v.swap(a + i, b + i);
                }
            }
            Tamper::Replace { path, with } => {
                let w = s[with].clone();
                t.insert(path.clone(), w);
            }
            Tamper::Swap { a, b } => {
                let (x, y) = (s[a].clone(), s[b].clone());
                t.insert(a.clone(), y);
                t.insert(b.clone(), x);
            }
            Tamper::Delete { path } => {
                t.remove(path);
            }
            Tamper::MetaEdit { path, doc, .. } | Tamper::OlderMeta { path, doc, .. } => {
                t.insert(path.clone(), doc.clone());
            }
            Tamper::LegacyDowngrade { path, doc, stage, payload_from, .. } => {
                t.insert(path.clone(), doc.clone());
                // "" = a forged document that declares an empty object: an empty payload is staged
                let w = if payload_from.is_empty() { vec![] } else { s[payload_from].clone() };
                t.insert(stage.clone(), w);
            }
            Tamper::KeyExchange { to, from, both } => {
                let gen_of = |k: &str| -> Option<String> {
                    let d: Cv = cbor2::from_slice(s.get(&format!("meta/{k}"))?).ok()?;
                    match cget(&d, "g") {
                        Some(Cv::Text(g)) => Some(g.clone()),
                        _ => None,
                    }
                };
                let mut transplant = |to: &str, from: &str, t: &mut Snapshot| {
                    if let (Some(gf), Some(gt)) = (gen_of(from), gen_of(to)) {
                        if let (Some(doc), Some(pay)) = (s.get(&format!("meta/{from}")), s.get(&format!("gen/{from}/{gf}"))) {
                            t.insert(format!("meta/{to}"), doc.clone());
                            t.remove(&format!("gen/{to}/{gt}"));
                            t.insert(format!("gen/{to}/{gf}"), pay.clone());
                        }
                    }
                };
                transplant(to, from, &mut t);
                if *both {
                    transplant(from, to, &mut t);
                }
            }
        }
        t
    }
    /// keys whose reads can be affected
    fn affected(&self) -> Vec<u8> {
        let paths: Vec<&String> = match self {
            Tamper::Flip { path, .. }
            | Tamper::Truncate { path, .. }
            | Tamper::Extend { path, .. }
            | Tamper::ChunkSwap { path, .. }
            | Tamper::Delete { path }
            | Tamper::MetaEdit { path, .. }
            | Tamper::LegacyDowngrade { path, .. }
            | Tamper::OlderMeta { path, .. } => vec![path],
            Tamper::Replace { path, .. } => vec![path],
            Tamper::Swap { a, b } => vec![a, b],
            Tamper::KeyExchange { to, from, both } => {
                let mut v: Vec<u8> = KEYS.iter().enumerate().filter(|(_, k)| *k == to || (*both && *k == from)).map(|(i, _)| i as u8).collect();
                v.sort();
                return v;
            }
        };
        let mut v: Vec<u8> = paths.iter().filter_map(|p| owner_of(p)).collect();
        v.sort();
        v.dedup();
        v
    }
}

fn enumerate_tampers(s: &Snapshot, chunk: u64, bit_mask: u8, older: &BTreeMap<String, Vec<Vec<u8>>>) -> Vec<Tamper> {
    let mut out = vec![];
    let paths: Vec<&String> = s.keys().collect();
    for p in &paths {
        let b = &s[*p];
        // (1) bit flips: every byte; the selected bit positions (all 8 in thorough)
        for pos in 0..b.len() {
            for bit in 0..8u8 {
                if bit_mask & (1 << bit) != 0 {
                    out.push(Tamper::Flip { path: (*p).clone(), pos, bit });
                }
            }
        }
        // (2) every truncation length, three extensions
        for len in 0..b.len() {
            out.push(Tamper::Truncate { path: (*p).clone(), len });
        }
        for extra in [vec![0u8], vec![0xa5, 0x5a, 0xff], payload(200, 16)] {
            out.push(Tamper::Extend { path: (*p).clone(), extra });
        }
        out.push(Tamper::Delete { path: (*p).clone() });
        // (3) chunk-window swaps inside a payload
        if p.starts_with("gen/") {
            let c = chunk as usize;
            let n = b.len() / c;
            for i in 0..n {
                for j in (i + 1)..n {
                    if b[i * c..(i + 1) * c] != b[j * c..(j + 1) * c] {
                        out.push(Tamper::ChunkSwap { path: (*p).clone(), a: i * c, b: j * c, len: c });
                    }
                }
            }
        }
    }
    // (4) whole-object replacement and swaps between every pair of backend objects
    for a in &paths {
        for b in &paths {
            if a != b && s[*a] != s[*b] {
                out.push(Tamper::Replace { path: (*a).clone(), with: (*b).clone() });
                if a < b {
                    out.push(Tamper::Swap { a: (*a).clone(), b: (*b).clone() });
                }
            }
        }
    }
    // (5) structured edits of every metadata document
    let metas: Vec<(&String, Cv)> = paths
        .iter()
        .filter(|p| p.starts_with("meta/"))
        .filter_map(|p| cbor2::from_slice::<Cv>(&s[*p]).ok().map(|v| (*p, v)))
        .collect();
    const FIELDS: [&str; 12] = ["s", "e", "o", "v", "n", "t", "c", "av", "an", "at", "g", "m"];
    for (p, doc) in &metas {
        let mut push = |what: String, d: &Cv| {
            if let Ok(bytes) = cbor2::to_vec(d) {
                if bytes != s[*p] {
                    out.push(Tamper::MetaEdit { path: (*p).clone(), what, doc: bytes });
                }
            }
        };
        for f in FIELDS {
            if cget(doc, f).is_some() {
                let mut d = doc.clone();
                cset(&mut d, f, None);
                push(format!("drop field {f}"), &d);
                let mut d = doc.clone();
                cset(&mut d, f, Some(Cv::Null));
                push(format!("null field {f}"), &d);
            }
            // the same field of every other document
            for (q, other) in &metas {
                if q != p {
                    if let Some(v) = cget(other, f) {
                        if cget(doc, f) != Some(v) {
                            let mut d = doc.clone();
                            cset(&mut d, f, Some(v.clone()));
                            push(format!("field {f} taken from {q}"), &d);
                        }
                    }
                }
            }
        }
        // every subset of the authentication / pointer fields stripped
        let strip = ["an", "at", "av", "g", "m"];
        for mask in 1u32..32 {
            let mut d = doc.clone();
            let mut names = vec![];
            for (i, f) in strip.iter().enumerate() {
                if mask & (1 << i) != 0 {
                    cset(&mut d, f, None);
                    names.push(*f);
                }
            }
            push(format!("strip {names:?}"), &d);
        }
        // size +-1, tag list edits, chunk size changes, pointer to a made-up generation
        if let Some(Cv::Integer(sz)) = cget(doc, "s") {
            let sz: i128 = (*sz).into();
            for delta in [-1i128, 1, 7] {
                if sz + delta >= 0 {
                    let mut d = doc.clone();
                    cset(&mut d, "s", Some(Cv::Integer(((sz + delta) as u64).into())));
                    push(format!("size {sz} -> {}", sz + delta), &d);
                }
            }
        }
        if let Some(Cv::Array(tags)) = cget(doc, "t") {
            if !tags.is_empty() {
                let mut t2 = tags.clone();
                t2.pop();
                let mut d = doc.clone();
                cset(&mut d, "t", Some(Cv::Array(t2)));
                push("drop last chunk tag".into(), &d);
                let mut t3 = tags.clone();
                t3.push(tags[0].clone());
                let mut d = doc.clone();
                cset(&mut d, "t", Some(Cv::Array(t3)));
                push("duplicate first chunk tag at the end".into(), &d);
            }
            if tags.len() >= 2 && tags[0] != tags[1] {
                let mut t4 = tags.clone();
                t4.swap(0, 1);
                let mut d = doc.clone();
                cset(&mut d, "t", Some(Cv::Array(t4)));
                push("swap chunk tags 0 and 1".into(), &d);
            }
        }
        for c2 in [1u64, chunk - 1, chunk + 1, chunk * 2] {
            let mut d = doc.clone();
            cset(&mut d, "c", Some(Cv::Integer(c2.into())));
            push(format!("chunk size -> {c2}"), &d);
        }
        // re-point at every other generation present in the backend
        for q in &paths {
            if let Some(rest) = q.strip_prefix("gen/") {
                if let Some((_, g)) = rest.rsplit_once('/') {
                    if cget(doc, "g") != Some(&Cv::Text(g.to_string())) {
                        let mut d = doc.clone();
                        cset(&mut d, "g", Some(Cv::Text(g.to_string())));
                        push(format!("re-point generation to {g}"), &d);
                    }
                }
            }
        }
    }
    // (6) legacy downgrade: every donor document (current ones of every key, earlier ones of every
    // key) whose payload is still in the backend, stripped of its generation pointer and of subsets
    // of the authentication fields, installed for every key together with the donor's payload
    // staged at the key's pre-0.10 payload path
    {
        let mut donors: Vec<(String, Cv)> = metas.iter().map(|(p, d)| (format!("current {p}"), d.clone())).collect();
        for (p, docs) in older {
            for (i, d) in docs.iter().enumerate() {
                if let Ok(v) = cbor2::from_slice::<Cv>(d) {
                    donors.push((format!("earlier #{i} of {p}"), v));
                }
            }
        }
        let strips: [&[&str]; 6] = [&["g"], &["an", "at", "g"], &["an", "at", "g", "m"], &["an", "at", "g", "av"], &["an", "at", "g", "av", "m"], &["at", "g"]];
        for (p, _) in &metas {
            let loc = p.strip_prefix("meta/").unwrap();
            for (dname, ddoc) in &donors {
                let Some(Cv::Text(g)) = cget(ddoc, "g") else { continue };
                // the donor's payload object: gen/<donor key>/<g>
                let Some(from) = paths.iter().find(|q| q.starts_with("gen/") && q.ends_with(&format!("/{g}"))) else { continue };
                for st in strips {
                    let mut d = ddoc.clone();
                    for f in st {
                        cset(&mut d, f, None);
                    }
                    if let Ok(bytes) = cbor2::to_vec(&d) {
                        out.push(Tamper::LegacyDowngrade {
                            path: (*p).clone(),
                            what: format!("document of {dname} without {st:?}"),
                            doc: bytes,
                            stage: format!("data/{loc}"),
                            payload_from: (*from).clone(),
                        });
                    }
                }
            }
        }
    }
    // (6a) forged legacy documents that need no donor and no secret: the key's own document with the
    // declared size set to 0 and an empty chunk-tag list (nothing is left for the chunk
    // authentication to check), without its generation pointer and subsets of the authentication
    // fields, together with an empty object at the key's pre-0.10 payload path (seeded change C09-5)
    {
        let strips: [&[&str]; 4] = [&["an", "at", "g", "av", "m"], &["an", "at", "g", "av"], &["an", "at", "g"], &["g"]];
        for (p, doc) in &metas {
            let loc = p.strip_prefix("meta/").unwrap();
            for st in strips {
                let mut d = doc.clone();
                cset(&mut d, "s", Some(Cv::Integer(0u64.into())));
                cset(&mut d, "t", Some(Cv::Array(vec![])));
                for f in st {
                    cset(&mut d, f, None);
                }
                if let Ok(bytes) = cbor2::to_vec(&d) {
                    out.push(Tamper::LegacyDowngrade {
                        path: (*p).clone(),
                        what: format!("forged document that declares an empty object (size 0, no chunk tags) without {st:?}"),
                        doc: bytes,
                        stage: format!("data/{loc}"),
                        payload_from: String::new(),
                    });
                }
            }
        }
    }
    // (6b) whole-key exchanges between every ordered pair of keys (one-directional and mutual)
    {
        let present: Vec<&str> = KEYS.iter().cloned().filter(|k| s.contains_key(&format!("meta/{k}"))).collect();
        for a in &present {
            for b in &present {
                if a != b {
                    out.push(Tamper::KeyExchange { to: a.to_string(), from: b.to_string(), both: false });
                    if a < b {
                        out.push(Tamper::KeyExchange { to: a.to_string(), from: b.to_string(), both: true });
                    }
                }
            }
        }
    }
    // (7) a key's own earlier metadata documents (earlier generations)
    for (p, docs) in older {
        if s.contains_key(p) {
            for (i, d) in docs.iter().enumerate() {
                if *d != s[p] {
                    out.push(Tamper::OlderMeta { path: p.clone(), doc: d.clone(), which: i });
                }
            }
        }
    }
    out
}

struct Expect {
    bytes: BTreeMap<u8, Vec<u8>>,
    tags: BTreeMap<u8, Option<String>>,
    /// every (size, token) a commit of this key ever had (authentic earlier documents)
    history: BTreeMap<u8, Vec<(u64, Option<String>)>>,
    /// the tamper under test re-installs an authentic earlier document of the key:
    /// head / listings (which return no bytes) may then report that earlier commit
    allow_earlier_commit: bool,
    /// compatibility mode only: keys whose (tampered) metadata document decodes to a document
    /// with none of an / at / av / g - the documented downgrade window ("fully stripped
    /// documents are indistinguishable from genuine legacy metadata", builder docs of
    /// `with_strict_metadata_auth`). head / listings of such a key report unauthenticated
    /// fields by design; payload reads are still held to "written bytes or error".
    legacy_window: std::collections::BTreeSet<u8>,
}

/// Mirror of the store's metadata document for the four fields whose absence makes a
/// document "legacy"; decoded with the same library and the same leniency (unknown keys
/// ignored, trailing bytes ignored, null == absent).
#[derive(Deserialize)]
struct AuthFields {
    #[serde(rename = "av", default)]
    av: Option<serde::de::IgnoredAny>,
    #[serde(rename = "an", default)]
    an: Option<serde::de::IgnoredAny>,
    #[serde(rename = "at", default)]
    at: Option<serde::de::IgnoredAny>,
    #[serde(rename = "g", default)]
    g: Option<serde::de::IgnoredAny>,
}

fn decodes_as_legacy(doc: &[u8]) -> bool {
    match cbor2::from_reader::<AuthFields, _>(doc) {
        Ok(a) => a.av.is_none() && a.an.is_none() && a.at.is_none() && a.g.is_none(),
        Err(_) => false,
    }
}

impl Expect {
    fn meta_ok(&self, key: u8, size: u64, tag: &Option<String>) -> bool {
        if self.legacy_window.contains(&key) {
            return true;
        }
        let cur = self.bytes.get(&key).map(|w| w.len() as u64 == size && self.tags.get(&key).unwrap_or(&None) == tag).unwrap_or(false);
        cur || (self.allow_earlier_commit && self.history.get(&key).map(|h| h.contains(&(size, tag.clone()))).unwrap_or(false))
    }
}

/// Every read path on `key`; Ok(..) must equal the original, anything else must be Err.
async fn check_reads(store: &dyn ObjectStore, key: u8, exp: &Expect, chunk: u64, what: &str, detected: &mut u64, consumed_ok: &mut u64) -> Result<(), String> {
    let p = key_path(key);
    let want = exp.bytes.get(&key);
    let fail = |path: &str, detail: String| Err(format!("after [{what}]: {path} on key {p} {detail}"));
    // full get
    match store.get(&p).await {
        Ok(g) => {
            let size = g.meta.size;
            match g.bytes().await {
                Ok(b) => match want {
                    Some(w) if b[..] == w[..] && size == w.len() as u64 => *consumed_ok += 1,
                    Some(w) => return fail("get", format!("returned {} bytes (size field {size}) that are not the {} bytes written", b.len(), w.len())),
                    None => return fail("get", format!("returned {} bytes for a key that holds nothing", b.len())),
                },
                Err(_) => *detected += 1,
            }
        }
        Err(_) => *detected += 1,
    }
    if let Some(w) = want {
        let len = w.len() as u64;
        let c = chunk;
        let mut ranges: Vec<(u64, u64)> = vec![(0, 1), (0, c.min(len)), (len - 1, len), (0, len), (len / 2, len)];
        if len > c {
            ranges.push((c - 1, (c + 1).min(len)));
            ranges.push((c, len));
        }
        if len > 2 * c {
            ranges.push((c + 1, 2 * c + 1));
        }
        ranges.retain(|(a, e)| a < e && *e <= len);
        for (a, e) in &ranges {
            match store.get_opts(&p, GetOptions { range: Some(GetRange::Bounded(*a..*e)), ..Default::default() }).await {
                Ok(g) => match g.bytes().await {
                    Ok(b) => {
                        if b[..] != w[*a as usize..*e as usize] {
                            return fail("ranged get", format!("{a}..{e} returned bytes that were not written there"));
                        }
                        *consumed_ok += 1;
                    }
                    Err(_) => *detected += 1,
                },
                Err(_) => *detected += 1,
            }
        }
        for r in [GetRange::Offset(len / 3), GetRange::Suffix(5)] {
            let (a, e) = match &r {
                GetRange::Offset(o) => (*o, len),
                GetRange::Suffix(n) => (len.saturating_sub(*n), len),
                _ => unreachable!(),
            };
            if a >= e {
                continue;
            }
            match store.get_opts(&p, GetOptions { range: Some(r.clone()), ..Default::default() }).await {
                Ok(g) => {
                    let rr = g.range.clone();
                    match g.bytes().await {
                        Ok(b) => {
                            // a tampered size may legitimately move the window only if the bytes are still the written ones at the reported range
                            let (ra, re) = (rr.start as usize, rr.end as usize);
                            if re > w.len() || ra > re || b[..] != w[ra..re] {
                                return fail("offset/suffix get", format!("{r:?} returned bytes that were not written at the reported range {rr:?}"));
                            }
                            if (rr.start, rr.end) != (a, e) {
                                return fail("offset/suffix get", format!("{r:?} answered range {rr:?}, the written object has {a}..{e}"));
                            }
                            *consumed_ok += 1;
                        }
                        Err(_) => *detected += 1,
                    }
                }
                Err(_) => *detected += 1,
            }
        }
        let rs: Vec<std::ops::Range<u64>> = ranges.iter().map(|(a, e)| *a..*e).collect();
        match store.get_ranges(&p, &rs).await {
            Ok(v) => {
                if v.len() != rs.len() {
                    return fail("get_ranges", "returned a different number of ranges".into());
                }
                for (b, (a, e)) in v.iter().zip(ranges.iter()) {
                    if b[..] != w[*a as usize..*e as usize] {
                        return fail("get_ranges", format!("{a}..{e} returned bytes that were not written there"));
                    }
                }
                *consumed_ok += 1;
            }
            Err(_) => *detected += 1,
        }
    }
    // head
    match store.head(&p).await {
        Ok(m) => match want {
            Some(_) if exp.meta_ok(key, m.size, &m.e_tag) => *consumed_ok += 1,
            Some(w) => return fail("head", format!("reports size {} / token {:?}; written: {} bytes, token {:?}", m.size, m.e_tag, w.len(), exp.tags.get(&key))),
            None => return fail("head", "succeeds for a key that holds nothing".into()),
        },
        Err(_) => *detected += 1,
    }
    Ok(())
}

async fn check_listings(store: &dyn ObjectStore, exp: &Expect, what: &str, detected: &mut u64) -> Result<(), String> {
    let mut seen: Vec<(String, u64, Option<String>)> = vec![];
    let mut failed = false;
    let l: Vec<_> = store.list(None).collect().await;
    for m in l {
        match m {
            Ok(m) => seen.push((m.location.to_string(), m.size, m.e_tag)),
            Err(_) => failed = true,
        }
    }
    match store.list_with_delimiter(None).await {
        Ok(r) => {
            for m in r.objects {
                seen.push((m.location.to_string(), m.size, m.e_tag));
            }
        }
        Err(_) => failed = true,
    }
    let l: Vec<_> = store.list_with_offset(None, &Path::from("0")).collect().await;
    for m in l {
        match m {
            Ok(m) => seen.push((m.location.to_string(), m.size, m.e_tag)),
            Err(_) => failed = true,
        }
    }
    if failed {
        *detected += 1;
    }
    for (loc, size, tag) in seen {
        let Some(k) = KEYS.iter().position(|x| *x == loc) else {
            return Err(format!("after [{what}]: a listing shows {loc}, which nobody wrote"));
        };
        match exp.bytes.get(&(k as u8)) {
            Some(_) if exp.meta_ok(k as u8, size, &tag) => {}
            Some(w) => {
                return Err(format!("after [{what}]: a listing reports {loc} with size {size} / token {tag:?}; written: {} bytes", w.len()));
            }
            None => return Err(format!("after [{what}]: a listing shows {loc}, which holds nothing")),
        }
    }
    Ok(())
}

pub fn run_case(case: &Case, ctx: &mut CaseCtx) -> Result<(), String> {
    install_clock(1_700_000_000_000);
    install_rand(case);
    vf_core::block_on(async {
        let mem = Arc::new(InMemory::new());
        let store = enc(case.strict, case.chunk, mem.clone());
        let mut exp = Expect { bytes: BTreeMap::new(), tags: BTreeMap::new(), history: BTreeMap::new(), allow_earlier_commit: false, legacy_window: Default::default() };
        let mut plaintexts: Vec<Vec<u8>> = vec![];
        let mut nonce_use: HashMap<Vec<u8>, (u64, Vec<u8>)> = HashMap::new(); // nonce -> (fingerprint of (aad id, ciphertext), sample)
        let mut older: BTreeMap<String, Vec<Vec<u8>>> = BTreeMap::new();
        for (i, op) in case.script.iter().enumerate() {
            // remember the metadata documents that are about to be replaced
            let before = vf_core::store::dump_store(mem.as_ref()).await;
            match op {
                WOp::Put { key, content, size } => {
                    let data = payload(*content, size_for(*size, case.chunk).max(1));
                    store.put(&key_path(*key), PutPayload::from(data.clone())).await.map_err(|e| format!("script op {i}: {e}"))?;
                    plaintexts.push(data.clone());
                    exp.bytes.insert(*key, data);
                }
                WOp::Multipart { key, content, parts } => {
                    let mut up = store.put_multipart(&key_path(*key)).await.map_err(|e| format!("script op {i}: {e}"))?;
                    let mut all = vec![];
                    for (j, sz) in parts.iter().enumerate() {
                        let d = payload(content.wrapping_add(j as u8).wrapping_add(50), size_for(*sz, case.chunk).max(1));
                        all.extend_from_slice(&d);
                        up.put_part(PutPayload::from(d)).await.map_err(|e| format!("script op {i}: {e}"))?;
                    }
                    up.complete().await.map_err(|e| format!("script op {i}: {e}"))?;
                    plaintexts.push(all.clone());
                    exp.bytes.insert(*key, all);
                }
                WOp::Copy { from, to } => {
                    if exp.bytes.contains_key(from) {
                        store.copy(&key_path(*from), &key_path(*to)).await.map_err(|e| format!("script op {i}: {e}"))?;
                        let v = exp.bytes[from].clone();
                        exp.bytes.insert(*to, v);
                    }
                }
                WOp::Rename { from, to } => {
                    if exp.bytes.contains_key(from) && from != to {
                        store.rename(&key_path(*from), &key_path(*to)).await.map_err(|e| format!("script op {i}: {e}"))?;
                        let v = exp.bytes.remove(from).unwrap();
                        exp.bytes.insert(*to, v);
                    }
                }
            }
            for k in 0..NKEYS {
                if let Ok(m) = store.head(&key_path(k)).await {
                    let h = exp.history.entry(k).or_default();
                    if !h.contains(&(m.size, m.e_tag.clone())) {
                        h.push((m.size, m.e_tag));
                    }
                }
            }
            let snap = vf_core::store::dump_store(mem.as_ref()).await;
            for (p, b) in &before {
                if p.starts_with("meta/") && snap.get(p) != Some(b) {
                    older.entry(p.clone()).or_default().push(b.clone());
                }
            }
            // plaintext never reaches the backend: no 12-byte window of any plaintext in any object
            let mut windows: HashSet<&[u8]> = HashSet::new();
            for pt in &plaintexts {
                for w in pt.windows(12) {
                    windows.insert(w);
                }
            }
            for (p, b) in &snap {
                for w in b.windows(12) {
                    if windows.contains(w) {
                        return Err(format!("after script op {i}: backend object {p} contains 12 consecutive plaintext bytes"));
                    }
                }
            }
            // nonce uniqueness under the key: per-chunk derived nonces and metadata auth nonces
            for (p, b) in &snap {
                if !p.starts_with("meta/") {
                    continue;
                }
                let doc: Cv = cbor2::from_slice(b).map_err(|e| format!("metadata {p} does not decode: {e}"))?;
                let base = match cget(&doc, "n") {
                    Some(Cv::Bytes(n)) => n.clone(),
                    other => return Err(format!("metadata {p}: no base nonce ({other:?})")),
                };
                let ntags = match cget(&doc, "t") {
                    Some(Cv::Array(t)) => t.len(),
                    _ => 0,
                };
                let cs = match cget(&doc, "c") {
                    Some(Cv::Integer(c)) => {
                        let c: i128 = (*c).into();
                        c as u64
                    }
                    _ => case.chunk,
                };
                let g = match cget(&doc, "g") {
                    Some(Cv::Text(g)) => g.clone(),
                    _ => return Err(format!("metadata {p}: no generation pointer")),
                };
                let loc = p.strip_prefix("meta/").unwrap();
                let Some(ct) = snap.get(&format!("gen/{loc}/{g}")) else {
                    return Err(format!("metadata {p} points at a generation that does not exist"));
                };
                for idx in 0..ntags as u64 {
                    let n = derive_nonce(&base, idx);
                    let a = (idx * cs) as usize;
                    let e = (((idx + 1) * cs) as usize).min(ct.len());
                    let mut fp_src = ct[a.min(ct.len())..e].to_vec();
                    fp_src.extend_from_slice(&cs.to_le_bytes());
                    fp_src.extend_from_slice(&idx.to_le_bytes());
                    let fp = vf_core::fnv64(&fp_src);
                    if let Some((old, _)) = nonce_use.get(&n) {
                        if *old != fp {
                            return Err(format!("after script op {i}: a chunk nonce is used for two different (chunk, ciphertext) pairs (second use: chunk {idx} of {p})"));
                        }
                    } else {
                        nonce_use.insert(n, (fp, vec![]));
                    }
                }
                if let Some(Cv::Bytes(an)) = cget(&doc, "an") {
                    // the auth nonce seals exactly this document
                    let fp = vf_core::fnv64(b) ^ 0xA5A5;
                    let mut key = an.clone();
                    key.push(0xff); // separate domain from chunk nonces only for bookkeeping of identical docs
                    let clash_chunk = nonce_use.contains_key(an);
                    if clash_chunk {
                        return Err(format!("after script op {i}: metadata auth nonce of {p} equals a chunk nonce"));
                    }
                    if let Some((old, _)) = nonce_use.get(&key) {
                        if *old != fp {
                            return Err(format!("after script op {i}: a metadata auth nonce is reused for a different document ({p})"));
                        }
                    } else {
                        nonce_use.insert(key, (fp, vec![]));
                    }
                }
            }
        }
        // tokens as written
        for k in 0..NKEYS {
            if exp.bytes.contains_key(&k) {
                let m = store.head(&key_path(k)).await.map_err(|e| format!("head of a written key failed: {e}"))?;
                exp.tags.insert(k, m.e_tag);
            }
        }
        let snap = vf_core::store::dump_store(mem.as_ref()).await;
        // sanity: untampered snapshot reads back
        {
            let m2 = restore(&snap).await;
            let s2 = enc(case.strict, case.chunk, m2);
            let (mut d, mut c) = (0, 0);
            for k in 0..NKEYS {
                check_reads(s2.as_ref(), k, &exp, case.chunk, "no tamper", &mut d, &mut c).await?;
            }
            check_listings(s2.as_ref(), &exp, "no tamper", &mut d).await?;
            if d != exp.bytes.len() as u64 * 0 + (NKEYS as u64 - exp.bytes.len() as u64) * 2 {
                return Err(format!("untampered snapshot: {d} read paths failed"));
            }
        }
        let tampers = enumerate_tampers(&snap, case.chunk, case.bit_mask, &older);
        let mut detected = 0u64;
        let mut consumed_ok = 0u64;
        let mut pairs = 0u64;
        for t in &tampers {
            // an older document of the same key is only a single-site tamper while its generation is gone
            if let Tamper::OlderMeta { doc, path, .. } = t {
                if let Ok(d) = cbor2::from_slice::<Cv>(doc) {
                    if let Some(Cv::Text(g)) = cget(&d, "g") {
                        let loc = path.strip_prefix("meta/").unwrap();
                        if snap.contains_key(&format!("gen/{loc}/{g}")) {
                            ctx.count("older_meta_skipped_generation_still_present", 1);
                            continue;
                        }
                    }
                }
            }
            // compatibility mode accepts a document without any authentication field as genuine
            // pre-0.10 metadata (documented downgrade window, closed by strict mode); a forged one
            // that declares an EMPTY object has no chunk left to authenticate, so there it is read as
            // an empty object by design. The forged-empty family is therefore applied in strict
            // mode, where the documentation promises that legacy documents are rejected outright.
            if let Tamper::LegacyDowngrade { payload_from, .. } = t {
                if payload_from.is_empty() && !case.strict {
                    ctx.count("forged_empty_legacy_documents_not_applied_in_compatibility_mode", 1);
                    continue;
                }
            }
            exp.allow_earlier_commit = matches!(t, Tamper::OlderMeta { .. });
            let ts = t.apply(&snap);
            exp.legacy_window.clear();
            if !case.strict {
                for k in 0..NKEYS {
                    if let Some(doc) = ts.get(&format!("meta/{}", KEYS[k as usize])) {
                        if decodes_as_legacy(doc) {
                            exp.legacy_window.insert(k);
                            ctx.count("compat_legacy_window_documents", 1);
                        }
                    }
                }
            }
            let m2 = restore(&ts).await;
            let s2 = enc(case.strict, case.chunk, m2.clone());
            let what = t.describe();
            let before = detected;
            for k in t.affected() {
                check_reads(s2.as_ref(), k, &exp, case.chunk, &what, &mut detected, &mut consumed_ok).await?;
                pairs += 14;
            }
            check_listings(s2.as_ref(), &exp, &what, &mut detected).await?;
            pairs += 3;
            // copy / rename of the tampered key, then read the target
            for k in t.affected() {
                if let Some(w) = exp.bytes.get(&k) {
                    let target = Path::from("zz/copy");
                    if s2.copy(&key_path(k), &target).await.is_ok() {
                        match s2.get(&target).await {
                            Ok(g) => {
                                if let Ok(b) = g.bytes().await {
                                    if b[..] != w[..] {
                                        return Err(format!("after [{what}]: copy of key {} then get returned bytes that were never written", KEYS[k as usize]));
                                    }
                                } else {
                                    detected += 1;
                                }
                            }
                            Err(_) => detected += 1,
                        }
                    } else {
                        detected += 1;
                    }
                    let target = Path::from("zz/renamed");
                    if s2.rename(&key_path(k), &target).await.is_ok() {
                        match s2.get(&target).await {
                            Ok(g) => {
                                if let Ok(b) = g.bytes().await {
                                    if b[..] != w[..] {
                                        return Err(format!("after [{what}]: rename of key {} then get returned bytes that were never written", KEYS[k as usize]));
                                    }
                                } else {
                                    detected += 1;
                                }
                            }
                            Err(_) => detected += 1,
                        }
                    } else {
                        detected += 1;
                    }
                    pairs += 2;
                }
            }
            // the same tamper against a WARM instance: a store that has already read every key (its
            // metadata cache holds the authentic documents) and whose backend is then modified under
            // it - object-level tampers only (the byte-level families are numerous and change no
            // pointer the cache could hold). A read that re-resolves a dangling cached pointer must
            // authenticate what it finds (seeded change C09-3).
            if !matches!(t, Tamper::Flip { .. } | Tamper::Truncate { .. } | Tamper::Extend { .. } | Tamper::ChunkSwap { .. }) {
                let m3 = restore(&snap).await;
                let s3 = enc(case.strict, case.chunk, m3.clone());
                for k in 0..NKEYS {
                    if exp.bytes.contains_key(&k) {
                        if let Ok(g) = s3.get(&key_path(k)).await {
                            let _ = g.bytes().await;
                        }
                        let _ = s3.head(&key_path(k)).await;
                    }
                }
                for (p, b) in &ts {
                    if snap.get(p) != Some(b) {
                        m3.put(&Path::from(p.as_str()), PutPayload::from(b.clone())).await.unwrap();
                    }
                }
                for p in snap.keys() {
                    if !ts.contains_key(p) {
                        let _ = m3.delete(&Path::from(p.as_str())).await;
                    }
                }
                let what_w = format!("{what}, under a store instance that had read every key before");
                let (mut d3, mut c3) = (0u64, 0u64);
                for k in t.affected() {
                    check_reads(s3.as_ref(), k, &exp, case.chunk, &what_w, &mut d3, &mut c3).await?;
                }
                check_listings(s3.as_ref(), &exp, &what_w, &mut d3).await?;
                ctx.count("tampers_also_applied_under_a_warm_instance", 1);
                pairs += 17;
                detected += d3;
                consumed_ok += c3;
            }
            if detected > before {
                ctx.count("tampers_detected_by_some_read", 1);
            } else {
                ctx.count("tampers_harmless_to_every_read", 1);
            }
            match t {
                Tamper::Flip { .. } => ctx.count("t_flip", 1),
                Tamper::Truncate { .. } => ctx.count("t_truncate", 1),
                Tamper::Extend { .. } => ctx.count("t_extend", 1),
                Tamper::ChunkSwap { .. } => ctx.count("t_chunk_swap", 1),
                Tamper::Replace { .. } => ctx.count("t_replace", 1),
                Tamper::Swap { .. } => ctx.count("t_swap", 1),
                Tamper::Delete { .. } => ctx.count("t_delete", 1),
                Tamper::MetaEdit { .. } => ctx.count("t_meta_edit", 1),
                Tamper::OlderMeta { .. } => ctx.count("t_older_meta", 1),
                Tamper::LegacyDowngrade { .. } => ctx.count("t_legacy_downgrade", 1),
                Tamper::KeyExchange { .. } => ctx.count("t_key_exchange", 1),
            }
        }
        ctx.count("tampers", tampers.len() as u64);
        ctx.count("tamper_read_pairs", pairs);
        ctx.count("reads_failed", detected);
        ctx.count("reads_ok_with_original_bytes", consumed_ok);
        ctx.label(format!("chunk:{}", case.chunk));
        ctx.label(if case.strict { "strict" } else { "compat" });
        if case.script.iter().any(|o| matches!(o, WOp::Multipart { .. })) {
            ctx.label("multipart");
        }
        if case.script.iter().any(|o| matches!(o, WOp::Copy { .. } | WOp::Rename { .. })) {
            ctx.label("copy_or_rename");
        }
        // non-trivial: some tamper was consumed by a read (a read failed because of it)
        ctx.nontrivial = detected > 0 && exp.bytes.len() >= 1;
        Ok(())
    })
}

pub fn run(r: &mut Runner) {
    r.assume("single-site tampering (one object / one document / one swap at a time), as the property quantifies, plus ONE two-site family: a metadata document without generation pointer together with a payload staged at the pre-0.10 path it then resolves to. A coordinated roll-back of a key's AUTHENTIC metadata and payload to an earlier commit is outside the property (no store can detect it without external state)");
    r.assume("nonce uniqueness is checked over the generated histories (no birthday-bound statement); AES-GCM itself is trusted");
    let tier = r.tier;
    r.sub(
        "tamper_matrix",
        "generated write scripts (2-6 of put/multipart/copy/rename over 3 keys, sizes across chunk boundaries, chunk 7/16/64, strict and compatibility metadata_auth); after every script op: no 12-byte plaintext window in any backend object, no nonce shared by two different (chunk, ciphertext) pairs; then EVERY tamper of the family {each byte x selected bit flips (all 8 in thorough) of every payload and metadata object, every truncation length, 3 extensions, deletion, chunk-window swaps, replacement by / swap with every other backend object, structured CBOR edits of every metadata field (drop, null, take from another key's document, every subset of an/at/av/g/m stripped, size+-1, tag list edits, chunk size, re-pointed generation), the key's own earlier documents, whole-key exchanges (metadata document + payload of one key transplanted onto another, one-directional and mutual), and the two-site legacy downgrade (every donor document - another key's or an earlier one - without its generation pointer and without subsets of an/at/av/m, installed for every key together with the donor's payload staged at the key's pre-0.10 payload path data/<key>; in strict mode also forged documents that declare an empty object, with an empty object staged there)} is applied to a copy of the backend and every read path (get, 8 range shapes, get_ranges, head, 3 listings, copy+get, rename+get) through a fresh EncryptedStore - and, for the object-level tampers, also through an instance that had read every key before its backend was modified (warm metadata cache) - must return the written bytes or fail. Non-trivial = at least one read was made to fail by a tamper",
        (400, 12000),
        move || case_strategy(tier),
        run_case,
    );
}
