//! C07 — store wrappers behave as a conforming object store with real CAS.
//!
//! Differential (T7): the same generated call sequence is applied to the
//! wrapper under test and to `object_store::memory::InMemory`; results are
//! compared call by call after the documented normalisations (DESIGN §5 C07).

use crate::common::*;
use bytes::Bytes;
use chrono::{DateTime, Duration, Utc};
use futures::StreamExt;
use object_store::memory::InMemory;
use object_store::path::Path;
use object_store::{
    CopyMode, CopyOptions, GetOptions, GetRange, ObjectMeta, ObjectStore, ObjectStoreExt, PutMode, PutOptions,
    PutPayload, RenameOptions, RenameTargetMode, UpdateVersion,
};
use proptest::prelude::*;
use serde::{Deserialize, Serialize};
use std::collections::{BTreeMap, HashMap};
use std::sync::Arc;
use vf_core::{CaseCtx, Runner, pick_idx};

#[derive(Clone, Debug, Serialize, Deserialize)]
pub enum Mode {
    Overwrite,
    Create,
    /// Update with the token selected from all tokens ever observed
    Update(u16),
    /// Update with the *current* token of the key (the CAS success path)
    UpdateCurrent,
    UpdateNoTag,
    UpdateGarbage,
}

#[derive(Clone, Debug, Serialize, Deserialize)]
pub enum Cond {
    None,
    Tok(u16),
    Current,
    List(u16, u16),
    ListWithCurrent(u16),
    Star,
    Garbage,
}

#[derive(Clone, Debug, Serialize, Deserialize)]
pub enum DateSel {
    None,
    Before,
    At,
    After,
}

#[derive(Clone, Debug, Serialize, Deserialize)]
pub enum RangeSel {
    None,
    Bounded(u16, u16),
    Offset(u16),
    Suffix(u16),
}

#[derive(Clone, Debug, Serialize, Deserialize)]
pub enum Fin {
    Complete,
    Abort,
    Drop,
}

#[derive(Clone, Debug, Serialize, Deserialize)]
pub enum SOp {
    Put { key: u8, content: u8, size: u8, mode: Mode },
    Multipart { key: u8, content: u8, parts: Vec<u8>, fin: Fin },
    Get { key: u8, range: RangeSel, if_match: Cond, if_none_match: Cond, modified: DateSel, unmodified: DateSel, head: bool },
    GetRanges { key: u8, ranges: Vec<(u16, u16)> },
    Head { key: u8 },
    List { prefix: Option<u8> },
    ListOffset { prefix: Option<u8>, offset: u8 },
    ListDelim { prefix: Option<u8> },
    Delete { key: u8 },
    DeleteStream { keys: Vec<u8> },
    Copy { from: u8, to: u8, create: bool },
    Rename { from: u8, to: u8, create: bool },
    /// replace the wrapper instance by a fresh one over the same backend
    ColdCache,
}

#[derive(Clone, Debug, Serialize, Deserialize)]
pub struct Case {
    pub kind: Kind,
    pub chunk: u64,
    pub ops: Vec<SOp>,
}

fn cond_strategy() -> impl Strategy<Value = Cond> {
    prop_oneof![
        6 => Just(Cond::None),
        2 => any::<u16>().prop_map(Cond::Tok),
        3 => Just(Cond::Current),
        1 => (any::<u16>(), any::<u16>()).prop_map(|(a, b)| Cond::List(a, b)),
        1 => any::<u16>().prop_map(Cond::ListWithCurrent),
        1 => Just(Cond::Star),
        1 => Just(Cond::Garbage),
    ]
}

fn date_strategy() -> impl Strategy<Value = DateSel> {
    prop_oneof![
        6 => Just(DateSel::None),
        1 => Just(DateSel::Before),
        1 => Just(DateSel::At),
        1 => Just(DateSel::After),
    ]
}

fn range_strategy() -> impl Strategy<Value = RangeSel> {
    prop_oneof![
        4 => Just(RangeSel::None),
        4 => (0u16..80, 0u16..80).prop_map(|(a, b)| RangeSel::Bounded(a, b)),
        2 => (0u16..80).prop_map(RangeSel::Offset),
        2 => (0u16..80).prop_map(RangeSel::Suffix),
    ]
}

fn op_strategy() -> impl Strategy<Value = SOp> {
    let key = 0u8..6;
    let mode = prop_oneof![
        4 => Just(Mode::Overwrite),
        2 => Just(Mode::Create),
        2 => any::<u16>().prop_map(Mode::Update),
        3 => Just(Mode::UpdateCurrent),
        1 => Just(Mode::UpdateNoTag),
        1 => Just(Mode::UpdateGarbage),
    ];
    prop_oneof![
        8 => (key.clone(), 0u8..3, 0u8..10, mode).prop_map(|(key, content, size, mode)| SOp::Put { key, content, size, mode }),
        2 => (key.clone(), 0u8..3, prop::collection::vec(0u8..10, 0..4), prop_oneof![3 => Just(Fin::Complete), 1 => Just(Fin::Abort), 1 => Just(Fin::Drop)])
            .prop_map(|(key, content, parts, fin)| SOp::Multipart { key, content, parts, fin }),
        8 => (key.clone(), range_strategy(), cond_strategy(), cond_strategy(), date_strategy(), date_strategy(), prop::bool::weighted(0.2))
            .prop_map(|(key, range, if_match, if_none_match, modified, unmodified, head)| SOp::Get { key, range, if_match, if_none_match, modified, unmodified, head }),
        3 => (key.clone(), prop::collection::vec((0u16..80, 0u16..80), 0..4)).prop_map(|(key, ranges)| SOp::GetRanges { key, ranges }),
        2 => key.clone().prop_map(|key| SOp::Head { key }),
        1 => prop::option::of(key.clone()).prop_map(|prefix| SOp::List { prefix }),
        1 => (prop::option::of(key.clone()), key.clone()).prop_map(|(prefix, offset)| SOp::ListOffset { prefix, offset }),
        1 => prop::option::of(key.clone()).prop_map(|prefix| SOp::ListDelim { prefix }),
        2 => key.clone().prop_map(|key| SOp::Delete { key }),
        1 => prop::collection::vec(key.clone(), 0..3).prop_map(|keys| SOp::DeleteStream { keys }),
        2 => (key.clone(), key.clone(), any::<bool>()).prop_map(|(from, to, create)| SOp::Copy { from, to, create }),
        2 => (key.clone(), key.clone(), any::<bool>()).prop_map(|(from, to, create)| SOp::Rename { from, to, create }),
        1 => Just(SOp::ColdCache),
    ]
}

pub fn case_strategy(chunks: &'static [u64]) -> impl Strategy<Value = Case> {
    let kind = prop_oneof![Just(Kind::Meta), Just(Kind::Enc)];
    let chunk = prop::sample::select(chunks);
    (kind, chunk, prop::collection::vec(op_strategy(), 1..40)).prop_map(|(kind, chunk, ops)| Case { kind, chunk, ops })
}

/// Normalised result of one call on one store.
#[derive(Clone, Debug, PartialEq)]
enum Out {
    Err(EK),
    Unit,
    Put { tag: Option<String> },
    Get { meta: NMeta, range: (u64, u64), bytes: Vec<u8> },
    Ranges(Vec<Vec<u8>>),
    Meta(NMeta),
    List(Vec<NMeta>),
    ListDelim { objects: Vec<NMeta>, prefixes: Vec<String> },
    Paths(Vec<Result<String, EK>>),
}

#[derive(Clone, Debug, PartialEq)]
struct NMeta {
    location: String,
    size: u64,
    tag: Option<String>,
    version: Option<String>,
    last_modified: DateTime<Utc>,
}

fn nmeta(m: &ObjectMeta) -> NMeta {
    NMeta {
        location: m.location.to_string(),
        size: m.size,
        tag: m.e_tag.clone(),
        version: m.version.clone(),
        last_modified: m.last_modified,
    }
}

struct Side {
    store: Arc<dyn ObjectStore>,
    /// tokens observed on this side, index-aligned with the other side
    tokens: Vec<String>,
}

struct World {
    kind: Kind,
    chunk: u64,
    backend: Backend,
    wrapper: Wrapper,
    refr: Side,
    wrap: Side,
    /// bijection check: ref token -> wrapper token and back
    r2w: HashMap<String, String>,
    w2r: HashMap<String, String>,
    /// per key: commit observed (size, tag, last_modified) on the wrapper side, keyed by wrapper tag
    commit_view: HashMap<String, (u64, DateTime<Utc>)>,
}

impl World {
    fn new(kind: Kind, chunk: u64) -> Self {
        let backend = Backend::new();
        let wrapper = Wrapper::build(kind, chunk, backend.store.clone());
        let wstore = wrapper.store();
        World {
            kind,
            chunk,
            backend,
            wrapper,
            refr: Side { store: Arc::new(InMemory::new()), tokens: vec![] },
            wrap: Side { store: wstore, tokens: vec![] },
            r2w: HashMap::new(),
            w2r: HashMap::new(),
            commit_view: HashMap::new(),
        }
    }

    /// Records that the two stores reported these tokens for the same commit.
    fn pair(&mut self, r: &Option<String>, w: &Option<String>, what: &str) -> Result<(), String> {
        match (r, w) {
            (Some(r), Some(w)) => {
                match (self.r2w.get(r), self.w2r.get(w)) {
                    (Some(w0), _) if w0 != w => {
                        return Err(format!("{what}: wrapper reports token {w} for a commit it earlier reported as {w0} (reference token {r})"));
                    }
                    (None, Some(r0)) => {
                        return Err(format!(
                            "{what}: token freshness violated: wrapper token {w} was already the token of another commit (reference {r0}), now reported for reference commit {r}"
                        ));
                    }
                    (Some(_), Some(_)) => {}
                    (Some(_), None) => unreachable!(),
                    (None, None) => {
                        self.r2w.insert(r.clone(), w.clone());
                        self.w2r.insert(w.clone(), r.clone());
                        self.refr.tokens.push(r.clone());
                        self.wrap.tokens.push(w.clone());
                    }
                }
                Ok(())
            }
            (Some(_), None) => Err(format!("{what}: wrapper reports no token where the reference reports one")),
            _ => Ok(()),
        }
    }
}

fn tok(side: &Side, i: u16) -> Option<String> {
    if side.tokens.is_empty() {
        None
    } else {
        Some(side.tokens[pick_idx(i, side.tokens.len())].clone())
    }
}

async fn current_meta(store: &dyn ObjectStore, p: &Path) -> Option<ObjectMeta> {
    store.head(p).await.ok()
}

fn cond_value(c: &Cond, side: &Side, cur: &Option<ObjectMeta>) -> Option<String> {
    let cur_tag = cur.as_ref().and_then(|m| m.e_tag.clone());
    match c {
        Cond::None => None,
        Cond::Tok(i) => Some(tok(side, *i).unwrap_or_else(|| "\"nope\"".into())),
        Cond::Current => Some(cur_tag.unwrap_or_else(|| "\"nope\"".into())),
        Cond::List(a, b) => Some(format!(
            "{}, {}",
            tok(side, *a).unwrap_or_else(|| "x".into()),
            tok(side, *b).unwrap_or_else(|| "y".into())
        )),
        Cond::ListWithCurrent(a) => Some(format!(
            "{} ,{}",
            tok(side, *a).unwrap_or_else(|| "x".into()),
            cur_tag.unwrap_or_else(|| "y".into())
        )),
        Cond::Star => Some("*".into()),
        Cond::Garbage => Some("\"garbage-token\"".into()),
    }
}

fn date_value(d: &DateSel, cur: &Option<ObjectMeta>) -> Option<DateTime<Utc>> {
    let base = cur
        .as_ref()
        .map(|m| m.last_modified)
        .unwrap_or_else(|| DateTime::<Utc>::from_timestamp(1_600_000_000, 0).unwrap());
    match d {
        DateSel::None => None,
        DateSel::Before => Some(base - Duration::seconds(10)),
        DateSel::At => Some(base),
        DateSel::After => Some(base + Duration::seconds(10)),
    }
}

fn range_value(r: &RangeSel) -> Option<GetRange> {
    match r {
        RangeSel::None => None,
        RangeSel::Bounded(a, b) => Some(GetRange::Bounded(*a as u64..*b as u64)),
        RangeSel::Offset(a) => Some(GetRange::Offset(*a as u64)),
        RangeSel::Suffix(a) => Some(GetRange::Suffix(*a as u64)),
    }
}

async fn collect_list(s: futures::stream::BoxStream<'static, object_store::Result<ObjectMeta>>) -> Out {
    let v: Vec<_> = s.collect().await;
    let mut out = vec![];
    for m in v {
        match m {
            Ok(m) => out.push(nmeta(&m)),
            Err(e) => return Out::Err(ek(&e)),
        }
    }
    out.sort_by(|a, b| a.location.cmp(&b.location));
    Out::List(out)
}

/// Applies one op to one side. `peer_cur` etc. are computed per side.
async fn apply(op: &SOp, side: &Side, chunk: u64) -> Out {
    let s = side.store.as_ref();
    match op {
        SOp::Put { key, content, size, mode } => {
            let p = key_path(*key);
            let cur = current_meta(s, &p).await;
            let mode = match mode {
                Mode::Overwrite => PutMode::Overwrite,
                Mode::Create => PutMode::Create,
                Mode::Update(i) => PutMode::Update(UpdateVersion { e_tag: Some(tok(side, *i).unwrap_or_else(|| "\"nope\"".into())), version: None }),
                Mode::UpdateCurrent => PutMode::Update(UpdateVersion {
                    e_tag: Some(cur.and_then(|m| m.e_tag).unwrap_or_else(|| "\"nope\"".into())),
                    version: None,
                }),
                Mode::UpdateNoTag => PutMode::Update(UpdateVersion { e_tag: None, version: None }),
                Mode::UpdateGarbage => PutMode::Update(UpdateVersion { e_tag: Some("\"garbage-token\"".into()), version: None }),
            };
            let data = payload(*content, size_for(*size, chunk));
            match s.put_opts(&p, PutPayload::from(data), PutOptions { mode, ..Default::default() }).await {
                Ok(r) => Out::Put { tag: r.e_tag },
                Err(e) => Out::Err(ek(&e)),
            }
        }
        SOp::Multipart { key, content, parts, fin } => {
            let p = key_path(*key);
            let mut up = match s.put_multipart(&p).await {
                Ok(u) => u,
                Err(e) => return Out::Err(ek(&e)),
            };
            for (i, sz) in parts.iter().enumerate() {
                let data = payload(content.wrapping_add(i as u8), size_for(*sz, chunk));
                if let Err(e) = up.put_part(PutPayload::from(data)).await {
                    return Out::Err(ek(&e));
                }
            }
            match fin {
                Fin::Complete => match up.complete().await {
                    Ok(r) => Out::Put { tag: r.e_tag },
                    Err(e) => Out::Err(ek(&e)),
                },
                Fin::Abort => match up.abort().await {
                    Ok(()) => Out::Unit,
                    Err(e) => Out::Err(ek(&e)),
                },
                Fin::Drop => {
                    drop(up);
                    Out::Unit
                }
            }
        }
        SOp::Get { key, range, if_match, if_none_match, modified, unmodified, head } => {
            let p = key_path(*key);
            let cur = if matches!((if_match, if_none_match), (Cond::None, Cond::None))
                && matches!((modified, unmodified), (DateSel::None, DateSel::None))
            {
                None
            } else {
                current_meta(s, &p).await
            };
            let opts = GetOptions {
                if_match: cond_value(if_match, side, &cur),
                if_none_match: cond_value(if_none_match, side, &cur),
                if_modified_since: date_value(modified, &cur),
                if_unmodified_since: date_value(unmodified, &cur),
                range: range_value(range),
                version: None,
                head: *head,
                extensions: Default::default(),
            };
            match s.get_opts(&p, opts).await {
                Ok(r) => {
                    let meta = nmeta(&r.meta);
                    let range = (r.range.start, r.range.end);
                    match r.bytes().await {
                        Ok(b) => Out::Get { meta, range, bytes: b.to_vec() },
                        Err(e) => Out::Err(ek(&e)),
                    }
                }
                Err(e) => Out::Err(ek(&e)),
            }
        }
        SOp::GetRanges { key, ranges } => {
            let p = key_path(*key);
            let rs: Vec<std::ops::Range<u64>> = ranges.iter().map(|(a, b)| *a as u64..*b as u64).collect();
            match s.get_ranges(&p, &rs).await {
                Ok(v) => Out::Ranges(v.into_iter().map(|b: Bytes| b.to_vec()).collect()),
                Err(e) => Out::Err(ek(&e)),
            }
        }
        SOp::Head { key } => match s.head(&key_path(*key)).await {
            Ok(m) => Out::Meta(nmeta(&m)),
            Err(e) => Out::Err(ek(&e)),
        },
        SOp::List { prefix } => {
            let p = prefix.map(key_path);
            collect_list(s.list(p.as_ref())).await
        }
        SOp::ListOffset { prefix, offset } => {
            let p = prefix.map(key_path);
            collect_list(s.list_with_offset(p.as_ref(), &key_path(*offset))).await
        }
        SOp::ListDelim { prefix } => {
            let p = prefix.map(key_path);
            match s.list_with_delimiter(p.as_ref()).await {
                Ok(r) => {
                    let mut objects: Vec<NMeta> = r.objects.iter().map(nmeta).collect();
                    objects.sort_by(|a, b| a.location.cmp(&b.location));
                    let mut prefixes: Vec<String> = r.common_prefixes.iter().map(|p| p.to_string()).collect();
                    prefixes.sort();
                    Out::ListDelim { objects, prefixes }
                }
                Err(e) => Out::Err(ek(&e)),
            }
        }
        SOp::Delete { key } => match s.delete(&key_path(*key)).await {
            Ok(()) => Out::Unit,
            Err(e) => Out::Err(ek(&e)),
        },
        SOp::DeleteStream { keys } => {
            let paths: Vec<object_store::Result<Path>> = keys.iter().map(|k| Ok(key_path(*k))).collect();
            let out: Vec<_> = s.delete_stream(futures::stream::iter(paths).boxed()).collect().await;
            Out::Paths(out.into_iter().map(|r| r.map(|p| p.to_string()).map_err(|e| ek(&e))).collect())
        }
        SOp::Copy { from, to, create } => {
            let mode = if *create { CopyMode::Create } else { CopyMode::Overwrite };
            match s.copy_opts(&key_path(*from), &key_path(*to), CopyOptions::new().with_mode(mode)).await {
                Ok(()) => Out::Unit,
                Err(e) => Out::Err(ek(&e)),
            }
        }
        SOp::Rename { from, to, create } => {
            let mode = if *create { RenameTargetMode::Create } else { RenameTargetMode::Overwrite };
            match s.rename_opts(&key_path(*from), &key_path(*to), RenameOptions::new().with_target_mode(mode)).await {
                Ok(()) => Out::Unit,
                Err(e) => Out::Err(ek(&e)),
            }
        }
        SOp::ColdCache => Out::Unit,
    }
}

fn cmp_meta(w: &mut World, r: &NMeta, x: &NMeta, what: &str) -> Result<(), String> {
    if r.location != x.location {
        return Err(format!("{what}: location {} vs reference {}", x.location, r.location));
    }
    if r.size != x.size {
        return Err(format!("{what}: size {} vs reference {} for {}", x.size, r.size, r.location));
    }
    if x.version.is_some() {
        return Err(format!("{what}: wrapper reported an object version ({:?}); documented as always None", x.version));
    }
    w.pair(&r.tag, &x.tag, what)?;
    // one consistent (size, timestamp) per commit across get / head / list
    if let Some(t) = &x.tag {
        match w.commit_view.get(t) {
            Some((sz, lm)) => {
                if *sz != x.size || *lm != x.last_modified {
                    return Err(format!(
                        "{what}: commit {t} of {} reported as (size {}, last_modified {}) but earlier as (size {sz}, last_modified {lm})",
                        x.location, x.size, x.last_modified
                    ));
                }
            }
            None => {
                w.commit_view.insert(t.clone(), (x.size, x.last_modified));
            }
        }
    }
    Ok(())
}

/// Compares the two normalised results under the documented deviations.
fn compare(w: &mut World, op: &SOp, r: &Out, x: &Out, ctx: &mut CaseCtx) -> Result<(), String> {
    let what = format!("{op:?}");
    match (r, x) {
        (Out::Err(EK::Other), Out::Err(_)) => Ok(()), // invalid request: "is an error"
        (Out::Err(a), Out::Err(b)) if a == b => Ok(()),
        // delete of a missing key: reference Ok, wrappers NotFound (documented in delete_object)
        (Out::Unit, Out::Err(EK::NotFound)) if matches!(op, SOp::Delete { .. }) => {
            ctx.count("norm_delete_missing", 1);
            Ok(())
        }
        // an empty range list: the trait's own default `get_ranges` (used by the cloud
        // backends) issues no request and answers Ok([]) whatever the key; InMemory
        // looks the key up first. Both are conforming; accepted and counted.
        (Out::Err(EK::NotFound), Out::Ranges(v)) if v.is_empty() && matches!(op, SOp::GetRanges { ranges, .. } if ranges.is_empty()) => {
            ctx.count("norm_empty_range_list", 1);
            Ok(())
        }
        (Out::Unit, Out::Unit) => Ok(()),
        (Out::Put { tag: a }, Out::Put { tag: b }) => w.pair(a, b, &what),
        (Out::Get { meta: ma, range: ra, bytes: ba }, Out::Get { meta: mb, range: rb, bytes: bb }) => {
            cmp_meta(w, ma, mb, &what)?;
            let head = matches!(op, SOp::Get { head: true, .. });
            if head {
                // head = "metadata only": whether content bytes accompany it is the
                // backend's business (InMemory ignores the flag, EncryptedStore sends
                // none); only the metadata is compared
                let _ = bb;
                ctx.count("norm_head_no_content", 1);
                return Ok(());
            }
            if ra != rb {
                return Err(format!("{what}: range {rb:?} vs reference {ra:?}"));
            }
            if ba != bb {
                return Err(format!("{what}: payload differs from the reference ({} vs {} bytes)", bb.len(), ba.len()));
            }
            Ok(())
        }
        (Out::Ranges(a), Out::Ranges(b)) => {
            if a != b {
                return Err(format!("{what}: multi-range payloads differ from the reference"));
            }
            Ok(())
        }
        (Out::Meta(a), Out::Meta(b)) => cmp_meta(w, a, b, &what),
        (Out::List(a), Out::List(b)) => {
            if a.len() != b.len() {
                return Err(format!(
                    "{what}: listing has {:?}, reference {:?}",
                    b.iter().map(|m| &m.location).collect::<Vec<_>>(),
                    a.iter().map(|m| &m.location).collect::<Vec<_>>()
                ));
            }
            for (ma, mb) in a.iter().zip(b.iter()) {
                cmp_meta(w, ma, mb, &what)?;
            }
            Ok(())
        }
        (Out::ListDelim { objects: a, prefixes: pa }, Out::ListDelim { objects: b, prefixes: pb }) => {
            if pa != pb {
                return Err(format!("{what}: common prefixes {pb:?} vs reference {pa:?}"));
            }
            if a.len() != b.len() {
                return Err(format!("{what}: delimiter listing objects differ"));
            }
            for (ma, mb) in a.iter().zip(b.iter()) {
                cmp_meta(w, ma, mb, &what)?;
            }
            Ok(())
        }
        (Out::Paths(a), Out::Paths(b)) => {
            if a.len() != b.len() {
                return Err(format!("{what}: delete_stream yielded {} results vs reference {}", b.len(), a.len()));
            }
            for (ra, rb) in a.iter().zip(b.iter()) {
                match (ra, rb) {
                    (Ok(p), Ok(q)) if p == q => {}
                    (Ok(_), Err(EK::NotFound)) => ctx.count("norm_delete_missing", 1),
                    _ => return Err(format!("{what}: delete_stream result {rb:?} vs reference {ra:?}")),
                }
            }
            Ok(())
        }
        _ => Err(format!("{what}: wrapper answered {} but the reference answered {}", short(x), short(r))),
    }
}

fn short(o: &Out) -> String {
    match o {
        Out::Err(k) => format!("Err({k:?})"),
        Out::Get { range, bytes, .. } => format!("Ok(get range {range:?}, {} bytes)", bytes.len()),
        Out::Ranges(v) => format!("Ok(ranges {:?})", v.iter().map(|b| b.len()).collect::<Vec<_>>()),
        Out::Put { .. } => "Ok(put)".into(),
        Out::Unit => "Ok(())".into(),
        other => format!("{other:?}").chars().take(120).collect(),
    }
}

/// Signature of the get_ranges end-past-the-object refusal (fixed on this tree;
/// listed in known_findings.json as `fixed`, which suppresses nothing).
const SIG_RANGES: &str = "get_ranges:start<len<end";

pub fn run_case(case: &Case, ctx: &mut CaseCtx) -> Result<(), String> {
    install_clock(1_700_000_000_000);
    vf_core::block_on(async {
        let mut w = World::new(case.kind, case.chunk);
        ctx.label(format!("kind:{}", case.kind.name()));
        ctx.label(format!("chunk:{}", case.chunk));
        let mut stale_cond = false;
        let mut cross_chunk = false;
        let mut copy_then_cond = false;
        let mut copied: BTreeMap<u8, bool> = BTreeMap::new();
        for (i, op) in case.ops.iter().enumerate() {
            // self-rename is checked against its documented contract separately
            if let SOp::Rename { from, to, create } = op {
                if from == to {
                    check_self_rename(&mut w, *from, *create).await.map_err(|e| format!("op {i}: {e}"))?;
                    ctx.label("self_rename");
                    continue;
                }
            }
            if matches!(op, SOp::ColdCache) {
                w.wrapper = Wrapper::build(w.kind, w.chunk, w.backend.store.clone());
                w.wrap.store = w.wrapper.store();
                ctx.label("cold_cache");
                continue;
            }
            // classification (before the call, from the reference's state)
            match op {
                SOp::Put { key, mode: Mode::Update(t), .. } => {
                    if let (Some(tk), Some(cur)) = (tok(&w.refr, *t), current_meta(w.refr.store.as_ref(), &key_path(*key)).await) {
                        if cur.e_tag.as_deref() != Some(tk.as_str()) {
                            stale_cond = true;
                        }
                    }
                    if copied.get(key).copied().unwrap_or(false) {
                        copy_then_cond = true;
                    }
                }
                SOp::Put { key, mode: Mode::UpdateCurrent, .. } => {
                    if copied.get(key).copied().unwrap_or(false) {
                        copy_then_cond = true;
                    }
                }
                SOp::Get { key, range, if_match, if_none_match, .. } => {
                    if let Some(cur) = current_meta(w.refr.store.as_ref(), &key_path(*key)).await {
                        let c = w.chunk;
                        let crosses = |a: u64, b: u64| b > a && a / c != (b.min(cur.size).saturating_sub(1)) / c && a < cur.size;
                        match range {
                            RangeSel::Bounded(a, b) if crosses(*a as u64, *b as u64) => cross_chunk = true,
                            RangeSel::Offset(a) if crosses(*a as u64, cur.size) => cross_chunk = true,
                            RangeSel::Suffix(n) if crosses(cur.size.saturating_sub(*n as u64), cur.size) => cross_chunk = true,
                            _ => {}
                        }
                        if !matches!((if_match, if_none_match), (Cond::None, Cond::None)) && copied.get(key).copied().unwrap_or(false) {
                            copy_then_cond = true;
                        }
                        for c in [if_match, if_none_match] {
                            if let Cond::Tok(t) = c {
                                if let Some(tk) = tok(&w.refr, *t) {
                                    if cur.e_tag.as_deref() != Some(tk.as_str()) {
                                        stale_cond = true;
                                    }
                                }
                            }
                        }
                    }
                }
                SOp::GetRanges { key, ranges } => {
                    if let Some(cur) = current_meta(w.refr.store.as_ref(), &key_path(*key)).await {
                        for (a, b) in ranges {
                            let (a, b) = (*a as u64, (*b as u64).min(cur.size));
                            if b > a && a / w.chunk != (b - 1) / w.chunk {
                                cross_chunk = true;
                            }
                        }
                    }
                }
                _ => {}
            }
            let r = apply(op, &w.refr, w.chunk).await;
            let x = apply(op, &w.wrap, w.chunk).await;
            if let Err(msg) = compare(&mut w, op, &r, &x, ctx) {
                // known signature: get_ranges where some range has start < len < end
                if let (SOp::GetRanges { key, ranges }, Out::Ranges(_), Out::Err(EK::Other)) = (op, &r, &x) {
                    if let Some(cur) = current_meta(w.refr.store.as_ref(), &key_path(*key)).await {
                        if ranges.iter().any(|(a, b)| (*a as u64) < cur.size && (*b as u64) > cur.size) {
                            return ctx.fail_sig(SIG_RANGES, format!("op {i}: {msg}"));
                        }
                    }
                }
                return Err(format!("op {i}: {msg}"));
            }
            match op {
                SOp::Copy { to, .. } | SOp::Rename { to, .. } if matches!(r, Out::Unit) => {
                    copied.insert(*to, true);
                }
                SOp::Put { key, .. } | SOp::Multipart { key, .. } if matches!(r, Out::Put { .. }) => {
                    copied.insert(*key, false);
                }
                _ => {}
            }
        }
        // final sweep: every key agrees (get + head + list), token bijection intact
        for k in 0..KEYS.len() as u8 {
            let op = SOp::Get { key: k, range: RangeSel::None, if_match: Cond::None, if_none_match: Cond::None, modified: DateSel::None, unmodified: DateSel::None, head: false };
            let r = apply(&op, &w.refr, w.chunk).await;
            let x = apply(&op, &w.wrap, w.chunk).await;
            compare(&mut w, &op, &r, &x, ctx).map_err(|e| format!("final sweep: {e}"))?;
        }
        let op = SOp::List { prefix: None };
        let r = apply(&op, &w.refr, w.chunk).await;
        let x = apply(&op, &w.wrap, w.chunk).await;
        compare(&mut w, &op, &r, &x, ctx).map_err(|e| format!("final sweep: {e}"))?;
        if stale_cond {
            ctx.label("stale_token_condition");
        }
        if cross_chunk {
            ctx.label("range_crosses_chunk");
        }
        if copy_then_cond {
            ctx.label("conditional_after_copy");
        }
        ctx.nontrivial = stale_cond || cross_chunk || copy_then_cond;
        ctx.count("calls", case.ops.len() as u64);
        Ok(())
    })
}

/// Documented contract of self-rename on the wrappers (`check_self_rename`):
/// the object is preserved; Create mode answers AlreadyExists; a missing
/// source answers NotFound. The reference store destroys the object, which is
/// why self-renames are not part of the differential.
async fn check_self_rename(w: &mut World, key: u8, create: bool) -> Result<(), String> {
    let p = key_path(key);
    let before = w.wrap.store.get(&p).await;
    let mode = if create { RenameTargetMode::Create } else { RenameTargetMode::Overwrite };
    let r = w.wrap.store.rename_opts(&p, &p, RenameOptions::new().with_target_mode(mode)).await;
    match before {
        Err(_) => match r {
            Err(object_store::Error::NotFound { .. }) => Ok(()),
            other => Err(format!("self-rename of a missing key answered {other:?}, documented NotFound")),
        },
        Ok(g) => {
            let tag = g.meta.e_tag.clone();
            let bytes = g.bytes().await.map_err(|e| e.to_string())?;
            match (&r, create) {
                (Ok(()), false) => {}
                (Err(object_store::Error::AlreadyExists { .. }), true) => {}
                other => return Err(format!("self-rename answered {other:?} (create={create})")),
            }
            let after = w.wrap.store.get(&p).await.map_err(|e| format!("self-rename destroyed the object: {e}"))?;
            let tag2 = after.meta.e_tag.clone();
            let bytes2 = after.bytes().await.map_err(|e| e.to_string())?;
            if bytes != bytes2 || tag != tag2 {
                return Err("self-rename changed the object".into());
            }
            Ok(())
        }
    }
}

/// Fixed regression input of the repaired get_ranges defect (bypasses proptest).
fn regression_cases() -> Vec<Case> {
    let mut v = vec![];
    for kind in [Kind::Meta, Kind::Enc] {
        v.push(Case {
            kind,
            chunk: 7,
            ops: vec![
                SOp::Put { key: 0, content: 0, size: 9, mode: Mode::Overwrite }, // 21 bytes
                SOp::GetRanges { key: 0, ranges: vec![(0, 30)] },
                SOp::GetRanges { key: 0, ranges: vec![(5, 10), (0, 30), (20, 22)] },
                SOp::GetRanges { key: 0, ranges: vec![(19, 30)] },
                SOp::GetRanges { key: 0, ranges: vec![(21, 30)] },
                SOp::GetRanges { key: 0, ranges: vec![(3, 3)] },
            ],
        });
        // A -> B -> A with a token captured before: the CAS must refuse it
        v.push(Case {
            kind,
            chunk: 7,
            ops: vec![
                SOp::Put { key: 1, content: 0, size: 3, mode: Mode::Overwrite },
                SOp::Put { key: 1, content: 1, size: 3, mode: Mode::Overwrite },
                SOp::Put { key: 1, content: 0, size: 3, mode: Mode::Overwrite },
                SOp::Put { key: 1, content: 2, size: 3, mode: Mode::Update(0) },
                SOp::Put { key: 1, content: 2, size: 3, mode: Mode::UpdateCurrent },
                SOp::Copy { from: 1, to: 2, create: false },
                SOp::Put { key: 2, content: 1, size: 3, mode: Mode::Update(65535) },
                SOp::Head { key: 2 },
                SOp::Put { key: 2, content: 1, size: 3, mode: Mode::UpdateCurrent },
            ],
        });
    }
    v
}

// ---------------------------------------------------------------------------
// two wrapper instances over one backend: conditional writes are decided against the commit point
// ---------------------------------------------------------------------------

#[derive(Clone, Debug, Serialize, Deserialize)]
pub enum IMode {
    Overwrite,
    Create,
    /// token drawn from every token a put ever returned (u16::MAX = the most recent one)
    Update(u16),
}

#[derive(Clone, Debug, Serialize, Deserialize)]
pub enum IOp {
    Put { second: bool, key: u8, content: u8, size: u8, mode: IMode },
    Delete { second: bool, key: u8 },
    Copy { second: bool, from: u8, to: u8, create: bool },
    Rename { second: bool, from: u8, to: u8, create: bool },
    Read { second: bool, key: u8, head: bool },
}

#[derive(Clone, Debug, Serialize, Deserialize)]
pub struct ICase {
    pub kind: Kind,
    pub chunk: u64,
    pub ops: Vec<IOp>,
}

const IKEYS: u8 = 4;

fn iop_strategy() -> impl Strategy<Value = IOp> {
    let key = 0u8..IKEYS;
    let mode = prop_oneof![
        3 => Just(IMode::Overwrite),
        4 => Just(IMode::Create),
        2 => Just(IMode::Update(u16::MAX)),
        2 => any::<u16>().prop_map(IMode::Update),
    ];
    prop_oneof![
        8 => (any::<bool>(), key.clone(), 0u8..3, 0u8..10, mode).prop_map(|(second, key, content, size, mode)| IOp::Put { second, key, content, size, mode }),
        4 => (any::<bool>(), key.clone()).prop_map(|(second, key)| IOp::Delete { second, key }),
        2 => (any::<bool>(), key.clone(), 1u8..IKEYS, any::<bool>()).prop_map(|(second, from, d, create)| IOp::Copy { second, from, to: (from + d) % IKEYS, create }),
        2 => (any::<bool>(), key.clone(), 1u8..IKEYS, any::<bool>()).prop_map(|(second, from, d, create)| IOp::Rename { second, from, to: (from + d) % IKEYS, create }),
        4 => (any::<bool>(), key.clone(), any::<bool>()).prop_map(|(second, key, head)| IOp::Read { second, key, head }),
    ]
}

pub fn icase_strategy() -> impl Strategy<Value = ICase> {
    (prop_oneof![Just(Kind::Meta), Just(Kind::Enc)], prop::sample::select(&[1u64, 7, 16][..]), prop::collection::vec(iop_strategy(), 3..28)).prop_map(|(kind, chunk, ops)| ICase { kind, chunk, ops })
}

/// What an instance's metadata cache can hold for a key, as far as the harness can know.
#[derive(Clone, Copy, PartialEq, Debug)]
enum View {
    NotCached,
    /// not older than the key's latest commit
    Fresh,
    /// the key was committed through the OTHER instance after this one had touched it
    Stale,
}

pub fn run_instances_case(case: &ICase, ctx: &mut CaseCtx) -> Result<(), String> {
    install_clock(1_700_000_000_000);
    vf_core::block_on(async {
        let backend = Backend::new();
        let wrappers = [Wrapper::build(case.kind, case.chunk, backend.store.clone()), Wrapper::build(case.kind, case.chunk, backend.store.clone())];
        let stores = [wrappers[0].store(), wrappers[1].store()];
        let refr: Arc<dyn ObjectStore> = Arc::new(InMemory::new());
        // aligned token tables: entry i is the token the reference / the wrapper returned for the same put
        let mut rtoks: Vec<String> = vec![];
        let mut wtoks: Vec<String> = vec![];
        let mut view = [[View::NotCached; IKEYS as usize]; 2];
        let mut conditional_on_stale = 0u64;
        ctx.label(format!("kind:{}", case.kind.name()));
        for (i, op) in case.ops.iter().enumerate() {
            let second = match op {
                IOp::Put { second, .. } | IOp::Delete { second, .. } | IOp::Read { second, .. } => *second,
                // a copy / rename reads its source through the instance's cache: it is issued through an
                // instance whose view of the SOURCE is not stale (the view of the target may be)
                IOp::Copy { second, from, .. } | IOp::Rename { second, from, .. } => {
                    if view[*second as usize][*from as usize] == View::Stale {
                        !*second
                    } else {
                        *second
                    }
                }
            };
            let me = second as usize;
            let other = 1 - me;
            let sop = match op {
                IOp::Put { key, content, size, mode, .. } => SOp::Put {
                    key: *key,
                    content: *content,
                    size: *size,
                    mode: match mode {
                        IMode::Overwrite => Mode::Overwrite,
                        IMode::Create => Mode::Create,
                        IMode::Update(t) => Mode::Update(*t),
                    },
                },
                IOp::Delete { key, .. } => SOp::Delete { key: *key },
                IOp::Copy { from, to, create, .. } => SOp::Copy { from: *from, to: *to, create: *create },
                IOp::Rename { from, to, create, .. } => SOp::Rename { from: *from, to: *to, create: *create },
                IOp::Read { key, head, .. } => SOp::Get { key: *key, range: RangeSel::None, if_match: Cond::None, if_none_match: Cond::None, modified: DateSel::None, unmodified: DateSel::None, head: *head },
            };
            let (target, source): (u8, Option<u8>) = match op {
                IOp::Put { key, .. } | IOp::Delete { key, .. } | IOp::Read { key, .. } => (*key, None),
                IOp::Copy { from, to, .. } | IOp::Rename { from, to, .. } => (*to, Some(*from)),
            };
            let target_stale = view[me][target as usize] == View::Stale;
            let conditional = matches!(op, IOp::Put { mode: IMode::Create | IMode::Update(_), .. } | IOp::Copy { create: true, .. } | IOp::Rename { create: true, .. });
            let r = apply(&sop, &Side { store: refr.clone(), tokens: rtoks.clone() }, case.chunk).await;
            let x = apply(&sop, &Side { store: stores[me].clone(), tokens: wtoks.clone() }, case.chunk).await;
            let what = format!("op {i} {op:?} (through instance {}; its view of the target key: {:?})", if second { "B" } else { "A" }, view[me][target as usize]);
            let committed = match op {
                IOp::Read { .. } => {
                    if target_stale {
                        // a read through a lagging cache may answer from the previous commit until it
                        // re-resolves: not compared
                        ctx.count("reads_through_a_stale_view_not_compared", 1);
                    } else {
                        match (&r, &x) {
                            (Out::Get { meta: ma, bytes: ba, .. }, Out::Get { meta: mb, bytes: bb, .. }) => {
                                // (a head request carries no content - documented normalisation)
                                let head = matches!(op, IOp::Read { head: true, .. });
                                if ma.size != mb.size || (!head && ba != bb) {
                                    return Err(format!("{what}: size {} / {} bytes, the reference has size {} / {} bytes", mb.size, bb.len(), ma.size, ba.len()));
                                }
                            }
                            (Out::Err(a), Out::Err(b)) if a == b => {}
                            _ => return Err(format!("{what}: {x:?}, the reference answers {r:?}")),
                        }
                        if view[me][target as usize] == View::NotCached {
                            view[me][target as usize] = View::Fresh;
                        }
                    }
                    false
                }
                IOp::Delete { .. } => match (&r, &x) {
                    (Out::Unit, Out::Unit) => true,
                    (Out::Unit, Out::Err(EK::NotFound)) => true,
                    (Out::Err(a), Out::Err(b)) if a == b => false,
                    _ if target_stale => {
                        ctx.count("deletes_through_a_stale_view_not_compared", 1);
                        matches!(r, Out::Unit)
                    }
                    _ => return Err(format!("{what}: {x:?}, the reference answers {r:?}")),
                },
                _ => match (&r, &x) {
                    (Out::Put { tag: Some(a) }, Out::Put { tag: Some(b) }) => {
                        if wtoks.contains(b) {
                            return Err(format!("{what}: token {b} was already the token of an earlier commit"));
                        }
                        rtoks.push(a.clone());
                        wtoks.push(b.clone());
                        true
                    }
                    (Out::Unit, Out::Unit) => true,
                    (Out::Err(a), Out::Err(b)) if a == b => false,
                    _ => {
                        return Err(format!(
                            "{what}: {x:?}, the reference answers {r:?} - a conditional write must be decided against the key's latest commit, whichever instance made it"
                        ))
                    }
                },
            };
            if conditional && target_stale {
                conditional_on_stale += 1;
                ctx.count(if committed { "conditional_writes_through_a_stale_view_that_succeeded" } else { "conditional_writes_through_a_stale_view_that_were_refused" }, 1);
            }
            if let Some(sk) = source {
                if view[me][sk as usize] == View::NotCached {
                    view[me][sk as usize] = View::Fresh;
                }
            }
            if committed {
                let mut touched = vec![target];
                if let (IOp::Rename { .. }, Some(sk)) = (op, source) {
                    touched.push(sk);
                }
                for k in touched {
                    view[me][k as usize] = View::Fresh;
                    if view[other][k as usize] != View::NotCached {
                        view[other][k as usize] = View::Stale;
                    }
                }
            }
        }
        // end of the sequence: a cold instance reads what the reference holds
        let cold = Wrapper::build(case.kind, case.chunk, backend.store.clone());
        let cs = cold.store();
        for k in 0..IKEYS {
            let p = key_path(k);
            let a = match refr.get(&p).await {
                Ok(g) => Some(g.bytes().await.map_err(|e| e.to_string())?.to_vec()),
                Err(_) => None,
            };
            let b = match cs.get(&p).await {
                Ok(g) => Some(g.bytes().await.map_err(|e| format!("cold read of key {k}: {e}"))?.to_vec()),
                Err(object_store::Error::NotFound { .. }) => None,
                Err(e) => return Err(format!("end of sequence: a cold instance cannot read key {k}: {e}")),
            };
            if a != b {
                return Err(format!(
                    "end of sequence: a cold instance reads {:?} bytes for key {k}, the reference holds {:?}",
                    b.as_ref().map(|v| v.len()),
                    a.as_ref().map(|v| v.len())
                ));
            }
        }
        ctx.count("conditional_writes_through_a_stale_view", conditional_on_stale);
        ctx.nontrivial = conditional_on_stale > 0;
        Ok(())
    })
}

pub fn run(r: &mut Runner) {
    r.assume("object_store::memory::InMemory is the reference object store");
    r.assume("documented deviations are normalised: version always None; invalid requests compared as 'is an error'; delete(missing) may answer NotFound; self-rename preserves the object; head requests carry no content");
    let rule = "generated call sequences (1-40 calls, 6 nested keys, payload sizes around chunk boundaries, all put/copy/rename modes, all GetOptions combinations, tokens drawn from every token ever observed) applied to the wrapper and to InMemory and compared call by call; non-trivial = the sequence contains a conditional op with a stale-but-once-valid token, a ranged read crossing a chunk boundary, or a conditional op on a copy/rename target";
    r.sub_enum(
        "regressions",
        "fixed inputs: get_ranges ending past the object (repaired defect), A->B->A token reuse, conditional update after copy; non-trivial = always",
        true,
        regression_cases(),
        |c, ctx| {
            let r = run_case(c, ctx);
            ctx.nontrivial = true;
            r
        },
    );
    r.sub("differential", rule, (40_000, 2_000_000), || case_strategy(&[1, 7, 16]), run_case);
    r.sub(
        "reader_vs_writer_schedules",
        "two callers on one key over a parking backend (every backend call of the wrapper, reads included, parks before and after it lands; released by a generated schedule): a writer (put, conditional put with the current token, multipart, delete, copy / rename from another key) races a reader (get with every range kind and if_match / if_none_match naming the pre-race token, a garbage token, '*' or a list; date conditions; head; get_ranges). Oracle: the reader's complete answer (error variant, or which commit its token names + size + bytes + range) equals what the reference in-memory store answers when the read runs entirely before OR entirely after the write - never a mixture such as the new commit served under a precondition that names the old token. Non-trivial = backend steps of the two callers alternated and the read carries a precondition (or alternated twice)",
        (30_000, 1_000_000),
        race_strategy,
        run_race_case,
    );
    let budget = r.tier.pick(3_000usize, 100_000usize);
    r.sub_enum(
        "reader_vs_writer_all_interleavings",
        "50 fixed (writer, reader) pairs on one key of 3 chunks + 1 byte (chunk 7; both wrappers): writers put (larger / smaller), delete, rename from another key, multipart; readers get_ranges over two and three chunk spans (several payload fetches), full get with and without if_match naming the pre-race token, head: EVERY release order of the backend steps of the two callers (reads park before and after landing) is enumerated depth-first (cut by a budget per pair). Same oracle as reader_vs_writer_schedules. Non-trivial = backend steps of the two callers alternated",
        false,
        race_pairs(),
        move |case, ctx| {
            let mut nontrivial = false;
            let res = vf_core::sched::dfs(budget, |ch| {
                let mut c2 = CaseCtx::default();
                let r = run_race_with(case, ch, &mut c2);
                nontrivial |= c2.nontrivial;
                r
            });
            ctx.nontrivial = nontrivial;
            match res {
                Ok((n, exhausted)) => {
                    ctx.count("schedules", n as u64);
                    ctx.count(if exhausted { "pairs_fully_enumerated" } else { "pairs_cut_by_budget" }, 1);
                    Ok(())
                }
                Err((choices, e)) => Err(format!("{e} [choices {choices:?}]")),
            }
        },
    );
    r.sub(
        "two_instances_conditional_writes",
        "generated call sequences (3-27 calls over 4 nested keys; put in Overwrite / Create / Update mode with tokens drawn from every token a put returned, delete, copy / rename in both target modes, reads that warm the caches) routed call by call to one of TWO long-lived wrapper instances over one backend (sequentially: the documented single-writer contract is respected), and to InMemory. Oracle: every put / copy / rename - in particular every conditional one issued through an instance whose cached view of the target key lags behind a commit made through the other instance - succeeds or is refused exactly as the reference decides (the commit protocol documents that preconditions are checked against the committed truth, not the cache); tokens never repeat; reads through a view that is not stale equal the reference; at the end a cold instance reads exactly what the reference holds. Reads and deletes through a stale view are executed but not compared. Non-trivial = a conditional write went through a stale view",
        (8_000, 300_000),
        icase_strategy,
        run_instances_case,
    );
    r.sub(
        "differential_64k",
        "same generator with chunk size 64 KiB included (payloads up to 192 KiB)",
        (600, 20_000),
        || case_strategy(&[65536]),
        run_case,
    );
}

// ---------------------------------------------------------------------------
// Two callers on one key under an owned schedule (T4): a reader racing a writer
// ---------------------------------------------------------------------------

use vf_core::sched::{Chooser, Hub, OP_ID, ParkStore, Phase};

#[derive(Clone, Debug, Serialize, Deserialize)]
pub enum RCond {
    None,
    V1,
    Garbage,
    Star,
    ListWithV1,
}

#[derive(Clone, Debug, Serialize, Deserialize)]
pub enum WOp2 {
    Put { content: u8, size: u8 },
    PutUpdateV1 { content: u8, size: u8 },
    Multipart { content: u8, parts: Vec<u8> },
    Delete,
    CopyFromOther,
    RenameFromOther,
}

#[derive(Clone, Debug, Serialize, Deserialize)]
pub enum ROp2 {
    Get { range: RangeSel, if_match: RCond, if_none_match: RCond, modified: DateSel, unmodified: DateSel },
    Head,
    GetRanges { ranges: Vec<(u16, u16)> },
}

#[derive(Clone, Debug, Serialize, Deserialize)]
pub struct RaceCase {
    pub kind: Kind,
    pub chunk: u64,
    pub v1: (u8, u8),
    pub other: (u8, u8),
    pub writer: WOp2,
    pub reader: ROp2,
    pub schedule: Vec<u16>,
}

pub fn race_strategy() -> impl Strategy<Value = RaceCase> {
    let rc = || prop_oneof![3 => Just(RCond::None), 4 => Just(RCond::V1), 1 => Just(RCond::Garbage), 1 => Just(RCond::Star), 1 => Just(RCond::ListWithV1)];
    let writer = prop_oneof![
        4 => (0u8..3, 1u8..10).prop_map(|(content, size)| WOp2::Put { content, size }),
        2 => (0u8..3, 1u8..10).prop_map(|(content, size)| WOp2::PutUpdateV1 { content, size }),
        1 => (0u8..3, prop::collection::vec(1u8..10, 1..3)).prop_map(|(content, parts)| WOp2::Multipart { content, parts }),
        2 => Just(WOp2::Delete),
        1 => Just(WOp2::CopyFromOther),
        1 => Just(WOp2::RenameFromOther),
    ];
    let reader = prop_oneof![
        6 => (range_strategy(), rc(), rc(), date_strategy(), date_strategy()).prop_map(|(range, if_match, if_none_match, modified, unmodified)| ROp2::Get { range, if_match, if_none_match, modified, unmodified }),
        1 => Just(ROp2::Head),
        3 => prop::collection::vec((0u16..24, 1u16..12), 1..5).prop_map(|ranges| ROp2::GetRanges { ranges }),
    ];
    (
        prop_oneof![Just(Kind::Meta), Just(Kind::Enc)],
        prop::sample::select(&[1u64, 7, 16][..]),
        (3u8..6, 1u8..10),
        (6u8..9, 1u8..10),
        writer,
        reader,
        prop::collection::vec(any::<u16>(), 0..60),
    )
        .prop_map(|(kind, chunk, v1, other, writer, reader, schedule)| RaceCase { kind, chunk, v1, other, writer, reader, schedule })
}

/// What the reader saw, with tokens reduced to which commit they name.
#[derive(Clone, Debug, PartialEq)]
enum Seen {
    Err(EK),
    /// (which commit the token names: 1 = v1, 2 = the writer's commit, 0 = something else; size; bytes; range)
    Ok { commit: u8, size: u64, bytes: Vec<u8>, range: (u64, u64) },
    Ranges(Vec<Vec<u8>>),
}

async fn do_writer(s: &dyn ObjectStore, w: &WOp2, chunk: u64, v1_tag: &Option<String>) -> Result<Option<String>, object_store::Error> {
    let p = key_path(0);
    let other = key_path(4);
    match w {
        WOp2::Put { content, size } => s.put(&p, PutPayload::from(payload(*content, size_for(*size, chunk)))).await.map(|r| r.e_tag),
        WOp2::PutUpdateV1 { content, size } => s
            .put_opts(&p, PutPayload::from(payload(*content, size_for(*size, chunk))), PutOptions { mode: PutMode::Update(UpdateVersion { e_tag: v1_tag.clone(), version: None }), ..Default::default() })
            .await
            .map(|r| r.e_tag),
        WOp2::Multipart { content, parts } => {
            let mut up = s.put_multipart(&p).await?;
            for (i, sz) in parts.iter().enumerate() {
                up.put_part(PutPayload::from(payload(content.wrapping_add(i as u8), size_for(*sz, chunk)))).await?;
            }
            up.complete().await.map(|r| r.e_tag)
        }
        WOp2::Delete => s.delete(&p).await.map(|_| None),
        WOp2::CopyFromOther => s.copy(&other, &p).await.map(|_| None),
        WOp2::RenameFromOther => s.rename(&other, &p).await.map(|_| None),
    }
}

fn rcond(c: &RCond, v1: &Option<String>) -> Option<String> {
    let t = v1.clone().unwrap_or_else(|| "\"none\"".into());
    match c {
        RCond::None => None,
        RCond::V1 => Some(t),
        RCond::Garbage => Some("\"garbage-token\"".into()),
        RCond::Star => Some("*".into()),
        RCond::ListWithV1 => Some(format!("\"zzz\", {t}")),
    }
}

async fn do_reader(s: &dyn ObjectStore, r: &ROp2, v1_tag: &Option<String>, v1_lm: DateTime<Utc>) -> Result<(Option<String>, u64, Vec<u8>, (u64, u64), Vec<Vec<u8>>), object_store::Error> {
    let p = key_path(0);
    match r {
        ROp2::Get { range, if_match, if_none_match, modified, unmodified } => {
            let fake = Some(ObjectMeta { location: p.clone(), last_modified: v1_lm, size: 0, e_tag: None, version: None });
            let opts = GetOptions {
                if_match: rcond(if_match, v1_tag),
                if_none_match: rcond(if_none_match, v1_tag),
                if_modified_since: date_value(modified, &fake),
                if_unmodified_since: date_value(unmodified, &fake),
                range: range_value(range),
                version: None,
                head: false,
                extensions: Default::default(),
            };
            let g = s.get_opts(&p, opts).await?;
            let (tag, size, range) = (g.meta.e_tag.clone(), g.meta.size, (g.range.start, g.range.end));
            let b = g.bytes().await?;
            Ok((tag, size, b.to_vec(), range, vec![]))
        }
        ROp2::Head => {
            let m = s.head(&p).await?;
            Ok((m.e_tag, m.size, vec![], (0, 0), vec![]))
        }
        ROp2::GetRanges { ranges } => {
            let rs: Vec<std::ops::Range<u64>> = ranges.iter().map(|(a, b)| *a as u64..(*a as u64 + *b as u64)).collect();
            let v = s.get_ranges(&p, &rs).await?;
            Ok((None, 0, vec![], (0, 0), v.into_iter().map(|b| b.to_vec()).collect()))
        }
    }
}

/// The reference's answer for the reader, before (`after_writer = false`) or after the writer ran.
async fn reference_answer(case: &RaceCase, after_writer: bool) -> (Seen, bool) {
    let s = InMemory::new();
    let p = key_path(0);
    let v1 = s.put(&p, PutPayload::from(payload(case.v1.0, size_for(case.v1.1, case.chunk)))).await.unwrap().e_tag;
    s.put(&key_path(4), PutPayload::from(payload(case.other.0, size_for(case.other.1, case.chunk)))).await.unwrap();
    let lm = s.head(&p).await.unwrap().last_modified;
    let mut v2: Option<String> = None;
    let mut writer_ok = true;
    if after_writer {
        match do_writer(&s, &case.writer, case.chunk, &v1).await {
            Ok(t) => {
                v2 = match t {
                    Some(t) => Some(t),
                    None => s.head(&p).await.ok().and_then(|m| m.e_tag),
                }
            }
            Err(_) => writer_ok = false,
        }
    }
    let seen = match do_reader(&s, &case.reader, &v1, lm).await {
        Err(e) => Seen::Err(ek(&e)),
        Ok((tag, size, bytes, range, ranges)) => {
            if matches!(case.reader, ROp2::GetRanges { .. }) {
                Seen::Ranges(ranges)
            } else {
                let commit = if tag == v1 { 1 } else if tag == v2 && v2.is_some() { 2 } else { 0 };
                Seen::Ok { commit, size, bytes, range }
            }
        }
    };
    (seen, writer_ok)
}

pub fn run_race_case(case: &RaceCase, ctx: &mut CaseCtx) -> Result<(), String> {
    let mut ch = Chooser::from_random(case.schedule.clone());
    run_race_with(case, &mut ch, ctx)
}

/// Fixed (writer, reader) pairs whose EVERY interleaving is enumerated: object of 3 chunks + 1 byte,
/// readers that need several payload fetches (multi-range over two chunk spans, a range over the
/// last partial chunk, the whole object) against writers that replace, delete or move the key.
fn race_pairs() -> Vec<RaceCase> {
    let mut v = vec![];
    let readers = vec![
        ROp2::GetRanges { ranges: vec![(0, 2), (15, 3)] },
        ROp2::GetRanges { ranges: vec![(1, 1), (8, 2), (20, 2)] },
        ROp2::Get { range: RangeSel::None, if_match: RCond::None, if_none_match: RCond::None, modified: DateSel::None, unmodified: DateSel::None },
        ROp2::Get { range: RangeSel::None, if_match: RCond::V1, if_none_match: RCond::None, modified: DateSel::None, unmodified: DateSel::None },
        ROp2::Head,
    ];
    let writers = vec![WOp2::Put { content: 1, size: 6 }, WOp2::Put { content: 2, size: 1 }, WOp2::Delete, WOp2::RenameFromOther, WOp2::Multipart { content: 1, parts: vec![4, 3] }];
    for kind in [Kind::Enc, Kind::Meta] {
        for w in &writers {
            for r in &readers {
                v.push(RaceCase { kind, chunk: 7, v1: (3, 6), other: (6, 5), writer: w.clone(), reader: r.clone(), schedule: vec![] });
            }
        }
    }
    v
}

pub fn run_race_with(case: &RaceCase, ch: &mut Chooser, ctx: &mut CaseCtx) -> Result<(), String> {
    install_clock(1_700_000_000_000);
    let rt = tokio::runtime::Builder::new_current_thread().enable_time().build().unwrap();
    let local = tokio::task::LocalSet::new();
    local.block_on(&rt, async {
        let mem = Arc::new(InMemory::new());
        let hub = Hub::new();
        let parked: Arc<dyn ObjectStore> = Arc::new(ParkStore::new(mem.clone(), hub.clone()));
        let wrapper = Wrapper::build(case.kind, case.chunk, parked);
        let store = wrapper.store();
        let p = key_path(0);
        let v1_tag = store.put(&p, PutPayload::from(payload(case.v1.0, size_for(case.v1.1, case.chunk)))).await.map_err(|e| e.to_string())?.e_tag;
        store.put(&key_path(4), PutPayload::from(payload(case.other.0, size_for(case.other.1, case.chunk)))).await.map_err(|e| e.to_string())?;
        let v1_lm = store.head(&p).await.map_err(|e| e.to_string())?.last_modified;
        // warm or cold metadata cache for the racing callers: both occur (the setup calls warmed it)
        hub.set_park_reads(true);
        hub.set_enabled(true);
        let done = Arc::new(std::sync::atomic::AtomicU64::new(0));
        let wres: Arc<std::sync::Mutex<Option<Result<Option<String>, EK>>>> = Arc::new(std::sync::Mutex::new(None));
        let rres: Arc<std::sync::Mutex<Option<Result<(Option<String>, u64, Vec<u8>, (u64, u64), Vec<Vec<u8>>), EK>>>> = Arc::new(std::sync::Mutex::new(None));
        let mut handles = vec![];
        {
            let (store, hub2, done, wres, w, chunk, v1) = (store.clone(), hub.clone(), done.clone(), wres.clone(), case.writer.clone(), case.chunk, v1_tag.clone());
            handles.push(tokio::task::spawn_local(OP_ID.scope(0, async move {
                hub2.park(vf_core::store::Op::Get, "start", Phase::Start).await;
                let r = do_writer(store.as_ref(), &w, chunk, &v1).await.map_err(|e| ek(&e));
                *wres.lock().unwrap() = Some(r);
                done.fetch_add(1, std::sync::atomic::Ordering::SeqCst);
            })));
        }
        {
            let (store, hub2, done, rres, r, v1) = (store.clone(), hub.clone(), done.clone(), rres.clone(), case.reader.clone(), v1_tag.clone());
            handles.push(tokio::task::spawn_local(OP_ID.scope(1, async move {
                hub2.park(vf_core::store::Op::Get, "start", Phase::Start).await;
                let x = do_reader(store.as_ref(), &r, &v1, v1_lm).await.map_err(|e| ek(&e));
                *rres.lock().unwrap() = Some(x);
                done.fetch_add(1, std::sync::atomic::Ordering::SeqCst);
            })));
        }
        let progress = {
            let done = done.clone();
            move || done.load(std::sync::atomic::Ordering::SeqCst)
        };
        let mut steps = 0u64;
        let mut alternations = 0u64;
        let mut last: Option<u32> = None;
        loop {
            vf_core::sched::quiesce(&hub, &progress).await;
            let pk = hub.parked();
            if pk.is_empty() {
                if progress() >= 2 {
                    break;
                }
                hub.release_all(true);
                return Err("inconclusive: nothing is parked but the callers are unfinished".into());
            }
            let c = ch.choose(pk.len());
            if pk[c].phase != Phase::Start {
                if last.is_some() && last != Some(pk[c].task) {
                    alternations += 1;
                }
                last = Some(pk[c].task);
            }
            hub.release(pk[c].id, true);
            steps += 1;
            if steps > 3000 {
                hub.release_all(true);
                return Err("inconclusive: schedule did not terminate".into());
            }
        }
        for h in handles {
            let _ = h.await;
        }
        hub.set_enabled(false);
        let w = wres.lock().unwrap().clone().unwrap();
        let r = rres.lock().unwrap().clone().unwrap();
        // the writer's commit token on the wrapper
        let v2_tag: Option<String> = match &w {
            Ok(Some(t)) => Some(t.clone()),
            Ok(None) => store.head(&p).await.ok().and_then(|m| m.e_tag),
            Err(_) => None,
        };
        let seen = match r {
            Err(k) => Seen::Err(k),
            Ok((tag, size, bytes, range, ranges)) => {
                if matches!(case.reader, ROp2::GetRanges { .. }) {
                    Seen::Ranges(ranges)
                } else {
                    let commit = if tag == v1_tag { 1 } else if v2_tag.is_some() && tag == v2_tag { 2 } else { 0 };
                    Seen::Ok { commit, size, bytes, range }
                }
            }
        };
        // the reference in both serial orders
        let (before, _) = reference_answer(case, false).await;
        let (after, ref_writer_ok) = reference_answer(case, true).await;
        let same = |a: &Seen, b: &Seen| -> bool {
            match (a, b) {
                (Seen::Err(EK::Other), Seen::Err(_)) | (Seen::Err(_), Seen::Err(EK::Other)) => true,
                _ => a == b,
            }
        };
        if !same(&before, &seen) && !same(&after, &seen) {
            // head-style answers carry no bytes on some stores: compare without them
            return Err(format!(
                "a {:?} racing {:?} on one key answered {seen:?}; the reference store answers {before:?} when the read runs first and {after:?} when the write runs first",
                case.reader, case.writer
            ));
        }
        if w.is_ok() != ref_writer_ok && !matches!(case.writer, WOp2::Delete) {
            return Err(format!("the writer {:?} answered ok={} but the reference ok={ref_writer_ok}", case.writer, w.is_ok()));
        }
        ctx.nontrivial = alternations >= 1 && !matches!((&case.reader, ), (ROp2::Get { if_match: RCond::None, if_none_match: RCond::None, modified: DateSel::None, unmodified: DateSel::None, .. },)) || alternations >= 2;
        if before != after {
            ctx.label("serial_orders_answer_differently");
        }
        ctx.count("decision_points", steps);
        Ok(())
    })
}
