//! C08 — wrapper writes are atomic under crashes; garbage collection is safe.
//!
//! T2: for a generated sequence of mutating calls, the power is cut after the
//! k-th inner-store mutation for **every** k; after restart with a fresh
//! (cold) wrapper every key must read, in full and through every read path,
//! the value of its last completed commit or of the interrupted one.
//! GC is run after every crash and at generated points, and must never change
//! what any key reads. T4: GC against parked in-flight writers.

use crate::common::*;
use futures::StreamExt;
use object_store::path::Path;
use object_store::{
    CopyMode, CopyOptions, GetOptions, GetRange, ObjectStore, ObjectStoreExt, PutMode, PutOptions, PutPayload,
    RenameOptions, RenameTargetMode, UpdateVersion,
};
use proptest::prelude::*;
use serde::{Deserialize, Serialize};
use std::collections::BTreeMap;
use std::sync::Arc;
use vf_core::sched::{Chooser, Hub, OP_ID, ParkStore, Phase};
use vf_core::{CaseCtx, Runner};

type Model = BTreeMap<u8, Vec<u8>>;

#[derive(Clone, Debug, Serialize, Deserialize)]
pub enum PMode {
    Overwrite,
    Create,
    UpdateCurrent,
}

#[derive(Clone, Debug, Serialize, Deserialize)]
pub enum MOp {
    Put { key: u8, content: u8, size: u8, mode: PMode },
    Multipart { key: u8, content: u8, parts: Vec<u8> },
    Copy { from: u8, to: u8, create: bool },
    Rename { from: u8, to: u8, create: bool },
    Delete { key: u8 },
    Gc,
    ColdCache,
}

#[derive(Clone, Debug, Serialize, Deserialize)]
pub struct Case {
    pub kind: Kind,
    pub chunk: u64,
    /// keys planted in the pre-0.10 legacy layout before the sequence (MetaStore only)
    pub legacy: Vec<(u8, u8, u8)>,
    pub ops: Vec<MOp>,
}

fn op_strategy() -> impl Strategy<Value = MOp> {
    let key = 0u8..4;
    prop_oneof![
        6 => (key.clone(), 0u8..3, 0u8..10, prop_oneof![3 => Just(PMode::Overwrite), 1 => Just(PMode::Create), 2 => Just(PMode::UpdateCurrent)])
            .prop_map(|(key, content, size, mode)| MOp::Put { key, content, size, mode }),
        2 => (key.clone(), 0u8..3, prop::collection::vec(0u8..10, 1..4)).prop_map(|(key, content, parts)| MOp::Multipart { key, content, parts }),
        2 => (key.clone(), key.clone(), any::<bool>()).prop_map(|(from, to, create)| MOp::Copy { from, to, create }),
        3 => (key.clone(), key.clone(), any::<bool>()).prop_map(|(from, to, create)| MOp::Rename { from, to, create }),
        2 => key.clone().prop_map(|key| MOp::Delete { key }),
        1 => Just(MOp::Gc),
        1 => Just(MOp::ColdCache),
    ]
}

pub fn case_strategy() -> impl Strategy<Value = Case> {
    (
        prop_oneof![Just(Kind::Meta), Just(Kind::Enc)],
        prop::sample::select(&[1u64, 7, 16][..]),
        prop::collection::vec((0u8..4, 0u8..3, 0u8..10), 0..3),
        prop::collection::vec(op_strategy(), 1..10),
    )
        .prop_map(|(kind, chunk, legacy, ops)| Case {
            kind,
            chunk,
            legacy: if kind == Kind::Meta { legacy } else { vec![] },
            ops,
        })
}

struct Sys {
    backend: Backend,
    wrapper: Wrapper,
    store: Arc<dyn ObjectStore>,
    kind: Kind,
    chunk: u64,
}

impl Sys {
    fn new(kind: Kind, chunk: u64) -> Self {
        let backend = Backend::new();
        let wrapper = Wrapper::build(kind, chunk, backend.store.clone());
        let store = wrapper.store();
        Sys { backend, wrapper, store, kind, chunk }
    }
    fn cold(&mut self) {
        self.wrapper = Wrapper::build(self.kind, self.chunk, self.backend.store.clone());
        self.store = self.wrapper.store();
    }
}

/// Plants an object in the documented pre-0.10 layout: payload at
/// `data/<key>`, metadata document without generation at `meta/<key>`.
async fn plant_legacy(sys: &Sys, key: u8, data: &[u8]) {
    #[derive(Serialize)]
    struct LegacyMeta {
        s: u64,
        e: Option<String>,
        o: Option<String>,
        v: Option<String>,
    }
    let p = key_path(key);
    let put = sys
        .backend
        .mem
        .put(&Path::from(format!("data/{p}")), PutPayload::from(data.to_vec()))
        .await
        .unwrap();
    let meta = LegacyMeta { s: data.len() as u64, e: Some(format!("legacy-etag-{key}-{}", data.len())), o: put.e_tag, v: put.version };
    let mut buf = Vec::new();
    cbor2::to_writer(&meta, &mut buf).unwrap();
    sys.backend.mem.put(&Path::from(format!("meta/{p}")), PutPayload::from(buf)).await.unwrap();
}

/// Applies one op through the wrapper. Returns Ok(true) if it took effect.
async fn apply(sys: &mut Sys, op: &MOp) -> Result<(), object_store::Error> {
    let s = sys.store.clone();
    match op {
        MOp::Put { key, content, size, mode } => {
            let p = key_path(*key);
            let mode = match mode {
                PMode::Overwrite => PutMode::Overwrite,
                PMode::Create => PutMode::Create,
                PMode::UpdateCurrent => {
                    let cur = s.head(&p).await.ok().and_then(|m| m.e_tag);
                    PutMode::Update(UpdateVersion { e_tag: Some(cur.unwrap_or_else(|| "none".into())), version: None })
                }
            };
            let data = payload(*content, size_for(*size, sys.chunk));
            s.put_opts(&p, PutPayload::from(data), PutOptions { mode, ..Default::default() }).await.map(|_| ())
        }
        MOp::Multipart { key, content, parts } => {
            let p = key_path(*key);
            let mut up = s.put_multipart(&p).await?;
            for (i, sz) in parts.iter().enumerate() {
                up.put_part(PutPayload::from(payload(content.wrapping_add(i as u8), size_for(*sz, sys.chunk)))).await?;
            }
            up.complete().await.map(|_| ())
        }
        MOp::Copy { from, to, create } => {
            let mode = if *create { CopyMode::Create } else { CopyMode::Overwrite };
            s.copy_opts(&key_path(*from), &key_path(*to), CopyOptions::new().with_mode(mode)).await
        }
        MOp::Rename { from, to, create } => {
            let mode = if *create { RenameTargetMode::Create } else { RenameTargetMode::Overwrite };
            s.rename_opts(&key_path(*from), &key_path(*to), RenameOptions::new().with_target_mode(mode)).await
        }
        MOp::Delete { key } => s.delete(&key_path(*key)).await,
        MOp::Gc => sys.wrapper.collect_garbage().await.map(|_| ()),
        MOp::ColdCache => {
            sys.cold();
            Ok(())
        }
    }
}

/// The model's view of a successful op.
fn model_apply(m: &mut Model, op: &MOp, chunk: u64) {
    match op {
        MOp::Put { key, content, size, .. } => {
            m.insert(*key, payload(*content, size_for(*size, chunk)));
        }
        MOp::Multipart { key, content, parts } => {
            let mut d = vec![];
            for (i, sz) in parts.iter().enumerate() {
                d.extend(payload(content.wrapping_add(i as u8), size_for(*sz, chunk)));
            }
            m.insert(*key, d);
        }
        MOp::Copy { from, to, .. } => {
            if let Some(v) = m.get(from).cloned() {
                m.insert(*to, v);
            }
        }
        MOp::Rename { from, to, .. } => {
            if from != to {
                if let Some(v) = m.remove(from) {
                    m.insert(*to, v);
                }
            }
        }
        MOp::Delete { key } => {
            m.remove(key);
        }
        MOp::Gc | MOp::ColdCache => {}
    }
}

/// Reads one key through every read path of a store and checks that they
/// agree with each other. Returns the full value (None = absent).
async fn read_key(store: &dyn ObjectStore, key: u8, chunk: u64, listed: &BTreeMap<String, u64>) -> Result<Option<Vec<u8>>, String> {
    let p = key_path(key);
    let full = match store.get(&p).await {
        Ok(g) => {
            let size = g.meta.size;
            let b = g.bytes().await.map_err(|e| format!("key {p}: get succeeded but the body failed: {e}"))?;
            if b.len() as u64 != size {
                return Err(format!("key {p}: get reports size {size} but delivers {} bytes", b.len()));
            }
            Some(b.to_vec())
        }
        Err(object_store::Error::NotFound { .. }) => None,
        Err(e) => return Err(format!("key {p}: unreadable after restart: {e}")),
    };
    match (&full, listed.get(p.as_ref())) {
        (None, Some(_)) => return Err(format!("key {p}: listed but cannot be read")),
        (Some(_), None) => return Err(format!("key {p}: readable but not listed")),
        (Some(b), Some(sz)) if *sz != b.len() as u64 => {
            return Err(format!("key {p}: listed with size {sz}, reads {} bytes", b.len()));
        }
        _ => {}
    }
    match (&full, store.head(&p).await) {
        (Some(b), Ok(m)) => {
            if m.size != b.len() as u64 {
                return Err(format!("key {p}: head size {} vs {} bytes read", m.size, b.len()));
            }
        }
        (None, Err(object_store::Error::NotFound { .. })) => {}
        (f, h) => return Err(format!("key {p}: get says present={} but head says {h:?}", f.is_some())),
    }
    if let Some(b) = &full {
        let len = b.len() as u64;
        if len > 0 {
            let c = chunk;
            let mut ranges: Vec<(u64, u64)> = vec![(0, c.min(len)), (len - 1, len), (0, len), (len / 2, len)];
            if len > c {
                ranges.push((c - 1.min(c), (c + 1).min(len)));
                ranges.push((c, len));
            }
            if len > 2 * c {
                ranges.push((c / 2, 2 * c + 1));
            }
            let ranges: Vec<(u64, u64)> = ranges.into_iter().filter(|(a, e)| a < e).collect();
            for (a, e) in &ranges {
                let got = store
                    .get_opts(&p, GetOptions { range: Some(GetRange::Bounded(*a..*e)), ..Default::default() })
                    .await
                    .map_err(|er| format!("key {p}: ranged read {a}..{e} failed: {er}"))?
                    .bytes()
                    .await
                    .map_err(|er| format!("key {p}: ranged read {a}..{e} body failed: {er}"))?;
                if got[..] != b[*a as usize..*e as usize] {
                    return Err(format!("key {p}: ranged read {a}..{e} differs from the full read"));
                }
            }
            let rs: Vec<std::ops::Range<u64>> = ranges.iter().map(|(a, e)| *a..*e).collect();
            let got = store.get_ranges(&p, &rs).await.map_err(|er| format!("key {p}: get_ranges failed: {er}"))?;
            for (g, (a, e)) in got.iter().zip(ranges.iter()) {
                if g[..] != b[*a as usize..*e as usize] {
                    return Err(format!("key {p}: get_ranges {a}..{e} differs from the full read"));
                }
            }
            let suf = store
                .get_opts(&p, GetOptions { range: Some(GetRange::Suffix(3)), ..Default::default() })
                .await
                .map_err(|er| format!("key {p}: suffix read failed: {er}"))?
                .bytes()
                .await
                .map_err(|er| er.to_string())?;
            if suf[..] != b[b.len().saturating_sub(3)..] {
                return Err(format!("key {p}: suffix read differs from the full read"));
            }
        }
    }
    Ok(full)
}

async fn read_all(store: &dyn ObjectStore, chunk: u64) -> Result<Model, String> {
    let mut listed = BTreeMap::new();
    let metas: Vec<_> = store.list(None).collect().await;
    for m in metas {
        let m = m.map_err(|e| format!("list failed after restart: {e}"))?;
        listed.insert(m.location.to_string(), m.size);
    }
    for (loc, _) in &listed {
        if !KEYS.contains(&loc.as_str()) {
            return Err(format!("listing shows a key nobody wrote: {loc}"));
        }
    }
    let mut out = Model::new();
    for k in 0..KEYS.len() as u8 {
        if let Some(v) = read_key(store, k, chunk, &listed).await? {
            out.insert(k, v);
        }
    }
    Ok(out)
}

fn show(v: &Option<&Vec<u8>>) -> String {
    match v {
        None => "absent".into(),
        Some(b) => format!("{} bytes #{:08x}", b.len(), vf_core::fnv64(b) as u32),
    }
}

struct Clean {
    /// model after each op (index i = after op i); states[-1] = initial
    initial: Model,
    states: Vec<Model>,
    ok: Vec<bool>,
    muts_after: Vec<u64>,
}

async fn setup(case: &Case) -> (Sys, Model) {
    let sys = Sys::new(case.kind, case.chunk);
    let mut m = Model::new();
    for (k, c, s) in &case.legacy {
        let data = payload(c.wrapping_add(100), size_for(*s, case.chunk));
        plant_legacy(&sys, *k, &data).await;
        m.insert(*k, data);
    }
    (sys, m)
}

async fn clean_run(case: &Case) -> Result<Clean, String> {
    let (mut sys, initial) = setup(case).await;
    let got = read_all(sys.store.as_ref(), case.chunk).await?;
    if got != initial {
        return Err("planted legacy objects do not read back".into());
    }
    sys.cold();
    let mut m = initial.clone();
    let mut out = Clean { initial, states: vec![], ok: vec![], muts_after: vec![] };
    for (i, op) in case.ops.iter().enumerate() {
        let r = apply(&mut sys, op).await;
        if r.is_ok() {
            model_apply(&mut m, op, case.chunk);
        }
        let got = read_all(sys.store.as_ref(), case.chunk).await.map_err(|e| format!("clean run, after op {i} {op:?}: {e}"))?;
        if got != m {
            return Err(format!("clean run, after op {i} {op:?} (returned {:?}): store differs from the model", r.as_ref().map_err(|e| ek(e))));
        }
        out.states.push(m.clone());
        out.ok.push(r.is_ok());
        out.muts_after.push(sys.backend.ctl.mutation_count());
    }
    Ok(out)
}

/// One crash run: power lost when mutation `k` is attempted.
async fn crash_run(case: &Case, clean: &Clean, k: u64, ctx: &mut CaseCtx) -> Result<bool, String> {
    let (mut sys, _) = setup(case).await;
    sys.cold();
    sys.backend.ctl.crash_after_mutations(k);
    let mut inflight: Option<(usize, bool)> = None;
    for (i, op) in case.ops.iter().enumerate() {
        let r = apply(&mut sys, op).await;
        if sys.backend.ctl.fired() {
            inflight = Some((i, r.is_ok()));
            break;
        }
        if r.is_ok() != clean.ok[i] {
            return Err(format!("crash run k={k}: op {i} {op:?} answered differently from the clean run before any fault"));
        }
    }
    let Some((i, returned_ok)) = inflight else {
        return Ok(false); // crash point not reached
    };
    let op = &case.ops[i];
    let fired_on = sys.backend.ctl.fired_on();
    // restart: power back, fresh wrapper with a cold cache
    sys.backend.ctl.power_on();
    sys.cold();
    let pre = if i == 0 { &clean.initial } else { &clean.states[i - 1] };
    let mut post = pre.clone();
    model_apply(&mut post, op, case.chunk);
    // (a clean-run-rejected op, e.g. Create on an existing key, must change nothing)
    let post = if clean.ok[i] { post } else { pre.clone() };
    let got = read_all(sys.store.as_ref(), case.chunk)
        .await
        .map_err(|e| format!("crash at mutation {k} ({fired_on:?}) inside op {i} {op:?}: {e}"))?;
    for key in 0..KEYS.len() as u8 {
        let g = got.get(&key);
        let a = pre.get(&key);
        let b = post.get(&key);
        let allowed = if returned_ok { g == b } else { g == a || g == b };
        if !allowed {
            return Err(format!(
                "crash at mutation {k} ({fired_on:?}) inside op {i} {op:?} (returned ok={returned_ok}): key {} reads {} but its last completed commit is {} and the interrupted one is {}",
                KEYS[key as usize],
                show(&g),
                show(&a),
                show(&b)
            ));
        }
    }
    // rename = copy then delete: the object may be at both names, never at neither
    if let MOp::Rename { from, to, .. } = op {
        if clean.ok[i] && from != to && !got.contains_key(from) && got.get(to) != post.get(to) {
            return Err(format!(
                "crash at mutation {k} inside {op:?}: the source is gone and the target does not hold the renamed object (object lost)"
            ));
        }
    }
    ctx.label(format!("crash_in:{}", op_name(op)));
    // nested: the power fails again at every mutation of the collection that follows
    // the restart; after the second restart nothing a key reads has changed
    let snapshot = vf_core::store::dump_store(sys.backend.mem.as_ref()).await;
    let mut j = 0u64;
    loop {
        let mut s2 = Sys::new(case.kind, case.chunk);
        for (path, bytes) in &snapshot {
            s2.backend.mem.put(&Path::from(path.as_str()), PutPayload::from(bytes.clone())).await.unwrap();
        }
        s2.backend.ctl.crash_after_mutations(j);
        let r = s2.wrapper.collect_garbage().await;
        let fired2 = s2.backend.ctl.fired();
        s2.backend.ctl.power_on();
        s2.cold();
        let again = read_all(s2.store.as_ref(), case.chunk)
            .await
            .map_err(|e| format!("crash at mutation {k} inside op {i} {op:?}, then a second crash at mutation {j} of collect_garbage: {e}"))?;
        if again != got {
            return Err(format!(
                "crash at mutation {k} inside op {i} {op:?}, then a second crash at mutation {j} of collect_garbage (gc returned ok={}): keys read differently",
                r.is_ok()
            ));
        }
        if !fired2 {
            break;
        }
        ctx.count("nested_gc_crashes", 1);
        j += 1;
        if j > 64 {
            break;
        }
    }
    // GC after the crash never changes what a key reads
    let deleted = sys.wrapper.collect_garbage().await.map_err(|e| format!("collect_garbage after crash k={k} failed: {e}"))?;
    if deleted > 0 {
        ctx.label("gc_reclaimed_after_crash");
    }
    let after_gc = read_all(sys.store.as_ref(), case.chunk).await.map_err(|e| format!("after crash k={k} + collect_garbage: {e}"))?;
    if after_gc != got {
        return Err(format!("crash at mutation {k} inside op {i} {op:?}: collect_garbage changed what keys read"));
    }
    sys.cold();
    let after_gc_cold = read_all(sys.store.as_ref(), case.chunk).await.map_err(|e| format!("after crash k={k} + collect_garbage + cold restart: {e}"))?;
    if after_gc_cold != got {
        return Err(format!("crash at mutation {k} inside op {i} {op:?}: state differs after collect_garbage and a cold restart"));
    }
    // the store keeps working: the rest of the sequence behaves like the model from here
    let mut m = got.clone();
    for (j, op2) in case.ops.iter().enumerate().skip(i + 1) {
        let r = apply(&mut sys, op2).await;
        match (&r, op2) {
            (Ok(()), _) => model_apply(&mut m, op2, case.chunk),
            (Err(_), _) => {}
        }
        let now = read_all(sys.store.as_ref(), case.chunk).await.map_err(|e| format!("after crash k={k}, continuing with op {j} {op2:?}: {e}"))?;
        if now != m {
            return Err(format!("after crash k={k} and recovery, op {j} {op2:?} (returned {:?}) left a state that differs from the model", r.as_ref().map_err(|e| ek(e))));
        }
    }
    Ok(true)
}

fn op_name(op: &MOp) -> &'static str {
    match op {
        MOp::Put { .. } => "put",
        MOp::Multipart { .. } => "multipart",
        MOp::Copy { .. } => "copy",
        MOp::Rename { .. } => "rename",
        MOp::Delete { .. } => "delete",
        MOp::Gc => "gc",
        MOp::ColdCache => "cold",
    }
}

pub fn run_case(case: &Case, ctx: &mut CaseCtx) -> Result<(), String> {
    install_clock(1_700_000_000_000);
    vf_core::block_on(async {
        let clean = clean_run(case).await?;
        let total = *clean.muts_after.last().unwrap_or(&0);
        ctx.label(format!("kind:{}", case.kind.name()));
        if !case.legacy.is_empty() {
            ctx.label("legacy_layout");
        }
        let mut fired = 0u64;
        let mut inside_multi = false;
        for k in 0..total {
            install_clock(1_700_000_000_000);
            if crash_run(case, &clean, k, ctx).await? {
                fired += 1;
                // strictly inside an op with >= 2 backend steps?
                let i = clean.muts_after.iter().position(|m| *m > k).unwrap_or(0);
                let start = if i == 0 { 0 } else { clean.muts_after[i - 1] };
                if clean.muts_after[i] - start >= 2 && k > start {
                    inside_multi = true;
                }
            }
        }
        ctx.count("crash_points_requested", total);
        ctx.count("crash_points_fired", fired);
        ctx.nontrivial = inside_multi;
        Ok(())
    })
}

// ---------------------------------------------------------------------------
// T4: garbage collection against in-flight writers
// ---------------------------------------------------------------------------

#[derive(Clone, Debug, Serialize, Deserialize)]
pub struct GcCase {
    pub kind: Kind,
    pub chunk: u64,
    /// committed before the race
    pub base: Vec<MOp>,
    /// concurrent writers (1 or 2), each a single op
    pub writers: Vec<MOp>,
    /// how many collect_garbage calls race with them (1 or 2)
    pub gcs: u8,
    /// generated schedule (choices among parked calls)
    pub schedule: Vec<u16>,
    /// drop the writers at the end instead of letting them finish (cancelled puts)
    pub cancel_writers: bool,
}

fn writer_strategy() -> impl Strategy<Value = MOp> {
    let key = 0u8..3;
    prop_oneof![
        4 => (key.clone(), 0u8..3, 1u8..10).prop_map(|(key, content, size)| MOp::Put { key, content, size, mode: PMode::Overwrite }),
        2 => (key.clone(), 0u8..3, prop::collection::vec(1u8..10, 1..3)).prop_map(|(key, content, parts)| MOp::Multipart { key, content, parts }),
        2 => (key.clone(), key.clone()).prop_map(|(from, to)| MOp::Copy { from, to, create: false }),
        2 => (key.clone(), key.clone()).prop_map(|(from, to)| MOp::Rename { from, to, create: false }),
        1 => key.clone().prop_map(|key| MOp::Delete { key }),
    ]
}

pub fn gc_case_strategy() -> impl Strategy<Value = GcCase> {
    (
        prop_oneof![Just(Kind::Meta), Just(Kind::Enc)],
        prop::sample::select(&[1u64, 7][..]),
        prop::collection::vec(writer_strategy(), 1..5),
        prop::collection::vec(writer_strategy(), 1..3),
        1u8..3,
        prop::collection::vec(any::<u16>(), 0..120),
        prop::bool::weighted(0.25),
    )
        .prop_map(|(kind, chunk, base, writers, gcs, schedule, cancel_writers)| GcCase { kind, chunk, base, writers, gcs, schedule, cancel_writers })
}

pub fn run_gc_case(case: &GcCase, ctx: &mut CaseCtx) -> Result<(), String> {
    install_clock(1_700_000_000_000);
    let mut ch = Chooser::from_random(case.schedule.clone());
    run_gc_schedule(case, &mut ch, ctx)
}

/// Executes base ops, then the writers and GC calls concurrently under the
/// schedule given by `ch`. Oracle: at every decision point and at the end,
/// every key whose writers are not in flight reads its committed value; every
/// key always reads *some* value that a commit wrote (old or new), in full.
pub fn run_gc_schedule(case: &GcCase, ch: &mut Chooser, ctx: &mut CaseCtx) -> Result<(), String> {
    let rt = tokio::runtime::Builder::new_current_thread().enable_time().build().unwrap();
    let local = tokio::task::LocalSet::new();
    local.block_on(&rt, async {
        let mem = Arc::new(object_store::memory::InMemory::new());
        let hub = Hub::new();
        let parked: Arc<dyn ObjectStore> = Arc::new(ParkStore::new(mem.clone(), hub.clone()));
        let wrapper = Wrapper::build(case.kind, case.chunk, parked.clone());
        let store = wrapper.store();
        let mut sys = Sys { backend: Backend::new(), wrapper: wrapper.clone(), store: store.clone(), kind: case.kind, chunk: case.chunk };
        // base state
        let mut model = Model::new();
        for op in &case.base {
            if apply(&mut sys, op).await.is_ok() {
                model_apply(&mut model, op, case.chunk);
            }
        }
        // admissible values per key: the committed value, every value a writer may
        // commit there, and absence where a writer may remove the key
        let mut admissible: BTreeMap<u8, Vec<Option<Vec<u8>>>> = BTreeMap::new();
        for k in 0..KEYS.len() as u8 {
            admissible.insert(k, vec![model.get(&k).cloned()]);
        }
        fn add(adm: &mut BTreeMap<u8, Vec<Option<Vec<u8>>>>, k: u8, v: Option<Vec<u8>>) {
            let e = adm.get_mut(&k).unwrap();
            if !e.contains(&v) {
                e.push(v);
            }
        }
        for _pass in 0..3 {
            for w in &case.writers {
                match w {
                    MOp::Put { key, .. } | MOp::Multipart { key, .. } => {
                        let mut m = Model::new();
                        model_apply(&mut m, w, case.chunk);
                        add(&mut admissible, *key, m.remove(key));
                    }
                    MOp::Copy { from, to, .. } => {
                        for v in admissible[from].clone() {
                            if v.is_some() {
                                add(&mut admissible, *to, v);
                            }
                        }
                    }
                    MOp::Rename { from, to, .. } => {
                        for v in admissible[from].clone() {
                            if v.is_some() {
                                add(&mut admissible, *to, v);
                            }
                        }
                        add(&mut admissible, *from, None);
                    }
                    MOp::Delete { key } => add(&mut admissible, *key, None),
                    _ => {}
                }
            }
        }
        hub.set_park_reads(true);
        hub.set_enabled(true);
        let done = Arc::new(std::sync::atomic::AtomicU64::new(0));
        let mut handles = vec![];
        let results: Arc<std::sync::Mutex<BTreeMap<u32, bool>>> = Arc::new(std::sync::Mutex::new(BTreeMap::new()));
        for (i, w) in case.writers.iter().cloned().enumerate() {
            let hub2 = hub.clone();
            let done = done.clone();
            let results = results.clone();
            let wrapper = wrapper.clone();
            let (kind, chunk) = (case.kind, case.chunk);
            handles.push(tokio::task::spawn_local(OP_ID.scope(i as u32, async move {
                hub2.park(vf_core::store::Op::Get, "start", Phase::Start).await;
                let mut s = Sys { backend: Backend::new(), store: wrapper.store(), wrapper, kind, chunk };
                let r = apply(&mut s, &w).await;
                results.lock().unwrap().insert(i as u32, r.is_ok());
                done.fetch_add(1, std::sync::atomic::Ordering::SeqCst);
            })));
        }
        for g in 0..case.gcs {
            let hub2 = hub.clone();
            let done = done.clone();
            let wrapper = wrapper.clone();
            let results = results.clone();
            handles.push(tokio::task::spawn_local(OP_ID.scope(100 + g as u32, async move {
                hub2.park(vf_core::store::Op::Get, "start", Phase::Start).await;
                let r = wrapper.collect_garbage().await;
                results.lock().unwrap().insert(100 + g as u32, r.is_ok());
                done.fetch_add(1, std::sync::atomic::Ordering::SeqCst);
            })));
        }
        let total_tasks = handles.len() as u64;
        let progress = {
            let done = done.clone();
            move || done.load(std::sync::atomic::Ordering::SeqCst)
        };
        // a fresh, un-parked reader over the same backend (cold cache each time)
        let read_store = |mem: Arc<object_store::memory::InMemory>| -> Arc<dyn ObjectStore> {
            Wrapper::build(case.kind, case.chunk, mem as Arc<dyn ObjectStore>).store()
        };
        let mut steps = 0u64;
        let mut gc_overlapped_uncommitted = false;
        let mut started: std::collections::BTreeSet<u32> = Default::default();
        loop {
            vf_core::sched::quiesce(&hub, &progress).await;
            let p = hub.parked();
            if p.is_empty() {
                if progress() >= total_tasks {
                    break;
                }
                return Err("inconclusive: nothing parked but tasks unfinished (deadlock?)".into());
            }
            // classification: a GC has left its start point and not finished while a
            // writer has written its payload but not yet switched the pointer
            let gc_running = (0..case.gcs as u32).any(|g| started.contains(&(100 + g)) && !results.lock().unwrap().contains_key(&(100 + g)));
            let writer_mid = p.iter().any(|x| x.task < 100 && x.path.starts_with("meta/") && x.phase == Phase::Before);
            if gc_running && writer_mid {
                gc_overlapped_uncommitted = true;
            }
            // every key reads an admissible value at this point
            if steps % 2 == 0 {
                let rs = read_store(mem.clone());
                let got = read_all(rs.as_ref(), case.chunk).await.map_err(|e| format!("at decision point {steps}: {e}"))?;
                for k in 0..KEYS.len() as u8 {
                    if !admissible[&k].contains(&got.get(&k).cloned()) {
                        return Err(format!("at decision point {steps}: key {} reads {} which no commit wrote", KEYS[k as usize], show(&got.get(&k))));
                    }
                }
            }
            if case.cancel_writers && steps as usize >= case.schedule.len().min(40) {
                break;
            }
            let c = ch.choose(p.len());
            if p[c].phase == Phase::Start {
                started.insert(p[c].task);
            }
            hub.release(p[c].id, true);
            steps += 1;
            if steps > 2000 {
                return Err("inconclusive: schedule did not terminate".into());
            }
        }
        if case.cancel_writers {
            for h in &handles {
                h.abort();
            }
            hub.release_all(false);
            ctx.label("writers_cancelled");
        }
        for h in handles {
            let _ = h.await;
        }
        hub.set_enabled(false);
        let rs = read_store(mem.clone());
        let got = read_all(rs.as_ref(), case.chunk).await.map_err(|e| format!("after the race: {e}"))?;
        for k in 0..KEYS.len() as u8 {
            if !admissible[&k].contains(&got.get(&k).cloned()) {
                return Err(format!("after the race: key {} reads {} which no commit wrote", KEYS[k as usize], show(&got.get(&k))));
            }
        }
        // a final quiescent GC changes nothing, also for a cold reader
        let w2 = Wrapper::build(case.kind, case.chunk, mem.clone() as Arc<dyn ObjectStore>);
        w2.collect_garbage().await.map_err(|e| format!("final collect_garbage failed: {e}"))?;
        let rs = read_store(mem.clone());
        let after = read_all(rs.as_ref(), case.chunk).await.map_err(|e| format!("after the final collect_garbage: {e}"))?;
        if after != got {
            return Err("the final collect_garbage changed what keys read".into());
        }
        ctx.nontrivial = gc_overlapped_uncommitted;
        if gc_overlapped_uncommitted {
            ctx.label("gc_ran_while_payload_uncommitted");
        }
        ctx.count("decision_points", steps);
        Ok(())
    })
}

pub fn run(r: &mut Runner) {
    r.assume("crash model: every single inner-store call is atomic (object_store contract); the power is lost between calls");
    r.assume("GC is explored against in-process writers only (a foreign-process writer is documented unsafe)");
    r.sub(
        "crash_points",
        "generated sequences (1-9 mutating calls over 4 nested keys: put in all modes, multipart, copy, rename, delete, collect_garbage, cold restarts; MetaStore sequences may start from planted pre-0.10 legacy-layout objects) x EVERY crash point k (power lost at the k-th inner mutation), both wrappers, chunk 1/7/16; after a cold restart every key must read its last completed or the interrupted commit through get/head/list/ranges/get_ranges; collect_garbage after the crash changes nothing; the rest of the sequence then runs against the model. Non-trivial = some crash fell strictly inside an operation with >= 2 backend steps",
        (5000, 200_000),
        case_strategy,
        run_case,
    );
    r.sub(
        "gc_vs_writers",
        "1-2 in-process writers (put, multipart, copy, rename, delete) and 1-2 collect_garbage calls run concurrently over a ParkStore; every backend mutation parks before and after landing and is released by a generated schedule; at decision points and at the end every key must be readable in full through every read path (listed <=> readable) with a value some commit wrote, and a final GC changes nothing. Non-trivial = a GC was running while a writer had written its payload but not yet switched the pointer",
        (20_000, 800_000),
        gc_case_strategy,
        run_gc_case,
    );
}
