//! vf-store: checks of the object-store wrappers (C07, C08, C09).

use vf_core::Runner;
use vf_store::*;

fn main() {
    let prop = std::env::args().nth(1).unwrap_or_default();
    match prop.as_str() {
        "C07" => {
            let mut r = Runner::from_env("C07", "exploration");
            c07::run(&mut r);
            r.finish();
        }
        "C08" => {
            let mut r = Runner::from_env("C08", "fault_enumeration");
            c08::run(&mut r);
            r.finish();
        }
        "C09" => {
            let mut r = Runner::from_env("C09", "exploration");
            c09::run(&mut r);
            r.finish();
        }
        other => {
            eprintln!("usage: vf-store <C07|C08|C09> <quick|thorough|replay FILE> (got {other:?})");
            std::process::exit(2);
        }
    }
}
